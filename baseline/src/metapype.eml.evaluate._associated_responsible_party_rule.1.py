def _associated_responsible_party_rule(node: Node) -> list:
    return _responsible_party_rule(node)
