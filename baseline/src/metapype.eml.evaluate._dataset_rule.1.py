def _dataset_rule(node: Node) -> list:
    evaluation = []
    abstract_node = None
    coverage_node = None
    datatable_node = None
    intellectual_rights_node = None
    keywordset_nodes = []
    methods_node = None
    project_node = None
    for child in node.children:
        if child.name == names.ABSTRACT:
            abstract_node = child
        elif child.name == names.COVERAGE:
            coverage_node = child
        elif child.name == names.DATATABLE:
            datatable_node = child
        elif child.name == names.INTELLECTUALRIGHTS:
            intellectual_rights_node = child
        elif child.name == names.KEYWORDSET:
            keywordset_nodes.append(child)
        elif child.name == names.METHODS:
            methods_node = child
        elif child.name == names.PROJECT:
            project_node = child
    if abstract_node:
        content = get_text_content(abstract_node)
        if content:
            words = content.split()
            if len(words) < 20:
                evaluation.append((EvaluationWarning.DATASET_ABSTRACT_TOO_SHORT, f'Consider increasing the length of the datasets abstract.', node))
        else:
            evaluation.append((EvaluationWarning.DATASET_ABSTRACT_MISSING, f'A dataset abstract should be provided.', node))
    else:
        evaluation.append((EvaluationWarning.DATASET_ABSTRACT_MISSING, f'A dataset abstract should be provided.', node))
    if not (coverage_node and coverage_node.children):
        evaluation.append((EvaluationWarning.DATASET_COVERAGE_MISSING, f'At least one coverage element should be present in a dataset. I.e., at least one of Geographic Coverage, Temporal Coverage, or Taxonomic Coverage should be specified.', node))
    if not datatable_node:
        evaluation.append((EvaluationWarning.DATATABLE_MISSING, f'A dataset should contain at least one Data Table.', node))
    if not (intellectual_rights_node and intellectual_rights_node.content):
        evaluation.append((EvaluationWarning.INTELLECTUAL_RIGHTS_MISSING, f'An Intellectual Rights policy should be specified.', node))
    if not keywordset_nodes:
        evaluation.append((EvaluationWarning.KEYWORDS_MISSING, f'Keywords should be provided to make the dataset more discoverable.', node))
    else:
        num_keywords = 0
        for keywordset_node in keywordset_nodes:
            keyword_nodes = keywordset_node.find_all_children(names.KEYWORD)
            num_keywords += len(keyword_nodes)
        if num_keywords < 5:
            evaluation.append((EvaluationWarning.KEYWORDS_INSUFFICIENT, f'Consider adding more keywords to make the dataset more discoverable.', node))
    if not methods_node:
        evaluation.append((EvaluationWarning.DATASET_METHOD_STEPS_MISSING, f'A dataset should contain at least one Method Step.', node))
    if not project_node:
        evaluation.append((EvaluationWarning.DATASET_PROJECT_MISSING, f'A dataset should contain a Project.', node))
    return evaluation
