def _datatable_rule(node: Node) -> list:
    evaluation = []
    description = any((child.name == names.ENTITYDESCRIPTION and child.content for child in node.children))
    if not description:
        evaluation.append((EvaluationWarning.DATATABLE_DESCRIPTION_MISSING, f'A data table Description is highly recommended.', node))
    physical_node = None
    authentication_node = None
    number_of_records_node = None
    size_node = None
    data_format_node = None
    text_format_node = None
    record_delimiter_node = None
    for child in node.children:
        if child.name == names.PHYSICAL:
            physical_node = child
            break
    if physical_node:
        for child in physical_node.children:
            if child.name == names.AUTHENTICATION:
                authentication_node = child
            elif child.name == names.RECORDDELIMITER:
                record_delimiter_node = child
            elif child.name == names.SIZE:
                size_node = child
            elif child.name == names.DATAFORMAT:
                data_format_node = child
    if data_format_node:
        for child in data_format_node.children:
            if child.name == names.TEXTFORMAT:
                text_format_node = child
                break
    if text_format_node:
        for child in text_format_node.children:
            if child.name == names.RECORDDELIMITER:
                record_delimiter_node = child
                break
    for child in node.children:
        if child.name == names.NUMBEROFRECORDS:
            number_of_records_node = child
            break
    if not size_node or not size_node.content:
        evaluation.append((EvaluationWarning.DATATABLE_SIZE_MISSING, f'A data table should contain a Size element.', node))
    if not authentication_node or not authentication_node.content:
        evaluation.append((EvaluationWarning.DATATABLE_MD5_CHECKSUM_MISSING, f'A data table should contain an Authentication element.', node))
    if not number_of_records_node or not number_of_records_node.content:
        evaluation.append((EvaluationWarning.DATATABLE_NUMBER_OF_RECORDS_MISSING, f'A data table should contain a Number of Records element.', node))
    if not record_delimiter_node or not record_delimiter_node.content:
        evaluation.append((EvaluationWarning.DATATABLE_RECORD_DELIMITER_MISSING, f'A data table should contain a Record Delimiter element.', node))
    return evaluation
