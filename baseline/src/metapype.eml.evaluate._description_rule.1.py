def _description_rule(node: Node) -> list:
    evaluation = []
    warning = None
    content = get_text_content(node)
    if not content:
        parent = node.parent.name if node.parent is not None else None
        if parent == 'connectionDefinition':
            warning = EvaluationWarning.CONNECTION_DEFINITION_DESCRIPTION_MISSING
        elif parent == 'designDescription':
            warning = EvaluationWarning.DESIGN_DESCRIPTION_DESCRIPTION_MISSING
        elif parent == 'maintenance':
            warning = EvaluationWarning.MAINTENANCE_DESCRIPTION_MISSING
        elif parent == 'methodStep':
            warning = EvaluationWarning.METHOD_STEP_DESCRIPTION_MISSING
        elif parent == 'procedureStep':
            warning = EvaluationWarning.PROCEDURE_STEP_DESCRIPTION_MISSING
        elif parent == 'qualityControl':
            warning = EvaluationWarning.QUALITY_CONTROL_DESCRIPTION_MISSING
        elif parent == 'samplingDescription':
            warning = EvaluationWarning.SAMPLING_DESCRIPTION_DESCRIPTION_MISSING
        elif parent == 'studyExtent':
            warning = EvaluationWarning.STUDY_EXTENT_DESCRIPTION_MISSING
    if warning:
        evaluation.append((warning, f'A Description is required.', node))
    return evaluation
