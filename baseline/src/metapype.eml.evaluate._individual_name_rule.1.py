def _individual_name_rule(node: Node) -> list:
    evaluation = []
    givename = False
    surname = False
    for child in node.children:
        if child.name == names.GIVENNAME and child.content:
            givename = True
        if child.name == names.SURNAME and child.content:
            surname = True
    if givename and surname:
        evaluation = None
    else:
        evaluation.append((EvaluationWarning.INDIVIDUAL_NAME_INCOMPLETE, f'''An individual's name should have both a "{names.GIVENNAME}" and a "{names.SURNAME}"''', node))
    return evaluation
