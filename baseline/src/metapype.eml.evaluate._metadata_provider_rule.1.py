def _metadata_provider_rule(node: Node) -> list:
    return _responsible_party_rule(node)
