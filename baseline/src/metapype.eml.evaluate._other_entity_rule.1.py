def _other_entity_rule(node: Node) -> list:
    evaluation = []
    description = any((child.name == names.ENTITYDESCRIPTION and child.content for child in node.children))
    if not description:
        evaluation.append((EvaluationWarning.OTHER_ENTITY_DESCRIPTION_MISSING, f'Entity Description is highly recommended."', node))
    return evaluation
