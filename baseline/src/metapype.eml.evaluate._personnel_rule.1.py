def _personnel_rule(node: Node) -> list:
    return _responsible_party_rule(node)
