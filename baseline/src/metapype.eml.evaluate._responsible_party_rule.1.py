def _responsible_party_rule(node: Node) -> list:
    evaluation = []
    userid = False
    orcid = False
    email = False
    for child in node.children:
        if child.name == names.USERID and child.content:
            userid = True
            if child.attributes.get('directory') == 'https://orcid.org':
                orcid = True
        if child.name == names.ELECTRONICMAILADDRESS and child.content:
            email = True
    if not orcid:
        evaluation.append((EvaluationWarning.ORCID_ID_MISSING, f'An ORCID ID is recommended."', node))
    if not userid:
        evaluation.append((EvaluationWarning.USER_ID_MISSING, f'A User ID should be provided. An ORCID ID is recommended."', node))
    if not email:
        evaluation.append((EvaluationWarning.EMAIL_MISSING, f'An email address should be provided."', node))
    return evaluation
