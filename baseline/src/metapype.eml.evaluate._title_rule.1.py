def _title_rule(node: Node) -> list:
    evaluation = []
    title = node.content
    if title is not None:
        if node.parent is not None and node.parent.name == names.DATASET:
            length = len(normalize(title).split(' '))
            if length < 5:
                evaluation.append((EvaluationWarning.TITLE_TOO_SHORT, f'The title "{title}" is too short. A title should have at least 5 words; between 7 and 20 words is recommended.', node))
    return evaluation
