def get_text_content(text_node: Node) -> str:
    content = text_node.content if text_node.content else ''
    paras = []
    text_node.find_all_descendants(names.PARA, paras)
    for para in paras:
        if para.content:
            content += '\n' + para.content
    markdowns = []
    text_node.find_all_descendants(names.MARKDOWN, markdowns)
    for markdown in markdowns:
        if markdown.content:
            content += '\n' + markdown.content
    return content
