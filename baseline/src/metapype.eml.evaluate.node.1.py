def node(node: Node):
    """
    Evaluates a given node for rule compliance.

    Args:
        node: Node instance to be evaluated

    Returns:
        None or evaluation dict
    """
    evaluation = None
    if node.name in rules:
        evaluation = rules[node.name](node)
    return evaluation
