def tree(root: Node, warnings: list):
    """
    Recursively walks from the root node and evaluates
    each child node for rule compliance.

    Args:
        root: Node instance of root for evaluation
        warnings: List of warnings collected during the evaluation

    Returns:
        None
    """
    evaluation = node(root)
    if evaluation is not None:
        warnings.extend(evaluation)
    for child in root.children:
        tree(child, warnings)
