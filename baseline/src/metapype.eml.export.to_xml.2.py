def to_xml(node: Node, level: int=0) -> str:
    xml = ''
    closed = False
    boiler = 'xmlns:eml="https://eml.ecoinformatics.org/eml-2.2.0" xmlns:stmml="http://www.xml-cml.org/schema/stmml-1.2" xmlns:xsi="http://www.w3.org/2001/XMLSchema-instance" xsi:schemaLocation="https://eml.ecoinformatics.org/eml-2.2.0 https://nis.lternet.edu/schemas/EML/eml-2.2.0/xsd/eml.xsd"'
    name = node.name
    attributes = ''
    for attribute in node.attributes:
        attributes += ' {0}="{1}"'.format(attribute, escape(str(node.attributes[attribute]), {'"': '&quot;'}))
    if level == 0:
        indent = ''
        if name == 'eml':
            name = node.name + ':' + node.name
            attributes += ' ' + boiler
    else:
        indent = space * level
    open_tag = '<' + name + attributes + '>'
    close_tag = '</' + name + '>'
    xml += indent + open_tag
    if node.content is not None:
        content = node.content
        if isinstance(content, str):
            if all((x not in content for x in ('&amp;', '&lt;', '&gt;'))):
                content = escape(content)
                content = content.replace('&lt;para&gt;', '<para>').replace('&lt;/para&gt;', '</para>')
        xml += str(content) + close_tag + '\n'
        closed = True
    elif len(node.children) > 0:
        xml += '\n'
    for child in node.children:
        xml += to_xml(child, level + 1)
    if not closed:
        if len(node.children) > 0:
            xml += indent
        xml += close_tag + '\n'
    return xml
