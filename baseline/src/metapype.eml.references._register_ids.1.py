def _register_ids(node: Node) -> dict:
    id_register = dict()
    for a, v in node.attributes.items():
        if a == 'id':
            id_register[v] = node
    for child in node.children:
        _ = _register_ids(child)
        for k in _.keys():
            if k in id_register:
                msg = f"Duplicate use of ID: '{k}'"
                raise ValueError(msg)
        id_register = {**id_register, **_}
    return id_register
