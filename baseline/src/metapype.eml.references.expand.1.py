def expand(node: Node):
    references = list()
    node.find_all_descendants(names.REFERENCES, references)
    ids = _register_ids(node)
    for reference in references:
        if reference.content not in ids:
            msg = f"ID not found for REFERENCE '{reference}'"
            raise ValueError(msg)
    for reference in references:
        source_node = ids[reference.content]
        destination_node = reference.parent
        index = destination_node.child_index(reference)
        destination_node.remove_child(reference)
        Node.delete_node_instance(reference.id)
        for offset, source_child in enumerate(source_node.children):
            source_child_copy = source_child.copy()
            destination_node.add_child(source_child_copy, index + offset)
