def __init__(self, rule_name):
    self._name = rule_name
    rule_data = rules_dict[rule_name]
    self._attributes = rule_data[0]
    self._children = rule_data[1]
    self._content = rule_data[2]
    self._rule_children_names = self._get_rule_children_names(self._children)
    self._depth = 0
