@staticmethod
def _get_children_modality(rule_children: list) -> str:
    if Rule._is_rule_child(rule_children):
        mode = 'child_rule'
    elif Rule._is_sequence(rule_children):
        mode = 'sequence'
    elif Rule._is_choice(rule_children):
        mode = 'choice'
    else:
        msg = f'Unknown modality for {rule_children}'
        raise ValueError(msg)
    return mode
