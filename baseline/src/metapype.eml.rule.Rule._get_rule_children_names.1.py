@staticmethod
def _get_rule_children_names(children: list) -> list:
    children_names = []
    if len(children) > 0:
        modality = Rule._get_children_modality(children)
        if modality == 'choice':
            children_names += Rule._get_rule_children_names(children[:-2])
        elif modality == 'sequence':
            for child in children:
                children_names += Rule._get_rule_children_names(child)
        else:
            children_names.append(children[0])
    return children_names
