@staticmethod
def _is_choice(rule_children: list) -> bool:
    is_choice = False
    if len(rule_children) >= 3 and (isinstance(rule_children[0], list) and isinstance(rule_children[-2], int)):
        is_choice = True
    return is_choice
