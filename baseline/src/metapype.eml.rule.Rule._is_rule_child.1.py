@staticmethod
def _is_rule_child(rule_children: list) -> bool:
    is_rule_child = False
    if isinstance(rule_children[0], str):
        is_rule_child = True
    return is_rule_child
