@staticmethod
def _is_sequence(rule_children: list) -> bool:
    is_sequence = False
    if len(rule_children) >= 1 and isinstance(rule_children[-1], list):
        is_sequence = True
    return is_sequence
