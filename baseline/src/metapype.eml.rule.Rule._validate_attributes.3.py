def _validate_attributes(self, node: Node, errs: list=None) -> None:
    """
        Validates node attributes for rule compliance.

        Iterates through the dict of attribute rules and validates whether
        the node instance complies with the rule.

        Args:
            node: Node instance to be validated

        Returns:
            None

        Raises:
            MetapypeRuleError: Illegal attribute or missing required attribute
        """
    for attribute in self._attributes:
        required = self._attributes[attribute][0]
        if required and attribute not in node.attributes:
            msg = f'"{attribute}" is a required attribute of node "{node.name}"'
            if errs is None:
                raise MetapypeRuleError(msg)
            else:
                errs.append((ValidationError.ATTRIBUTE_REQUIRED, msg, node, attribute))
    for attribute in node.attributes:
        if attribute not in self._attributes:
            msg = f'"{attribute}" is not a recognized attribute of node "{node.name}"'
            if errs is None:
                raise MetapypeRuleError(msg)
            else:
                errs.append((ValidationError.ATTRIBUTE_UNRECOGNIZED, msg, node, attribute))
        elif len(self._attributes[attribute]) > 1 and node.attributes[attribute] not in self._attributes[attribute][1:]:
            msg = f'Node "{node.name}" attribute "{attribute}" must be one of the following: "{self._attributes[attribute][1:]}"'
            if errs is None:
                raise MetapypeRuleError(msg)
            else:
                errs.append((ValidationError.ATTRIBUTE_EXPECTED_ENUM, msg, node, attribute, self._attributes[attribute][1:]))
