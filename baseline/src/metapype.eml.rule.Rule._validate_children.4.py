def _validate_children(self, node: Node, is_mixed_content: bool, errs: list=None) -> None:
    """
        Validates node children for rule compliance.

        1. Ignores validation of children if parent node is "metadata"
        2. Ensures children are valid for node
        3. Iterates through the list children rules and validates whether
           the node instance complies with the rules.

        Returns:
            None

        Raises:
            MetapypeRuleError: Illegal child, bad sequence or choice, missing
            child, or wrong child cardinality
        """
    self._node = node
    self._node_children_names = []
    self._node_index = 0
    if self._node.name == names.METADATA:
        if len(self._node.children) > 1:
            msg = f"Maximum occurrence of 1 child exceeded in parent '{names.METADATA}'"
            if errs is None:
                raise MaxOccurrenceExceededError(msg)
            else:
                errs.append((ValidationError.MAX_OCCURRENCE_EXCEEDED, msg, self._node))
    else:
        for node_child in self._node.children:
            self._node_children_names.append(node_child.name)
        for node_child_name in self._node_children_names:
            if not self.is_allowed_child(node_child_name):
                msg = f"Child '{node_child_name}' not allowed in parent '{self._node.name}'"
                if errs is None:
                    raise ChildNotAllowedError(msg)
                else:
                    errs.append((ValidationError.CHILD_NOT_ALLOWED, msg, self._node, node_child_name))
        if len(self._children) > 0:
            modality = Rule._get_children_modality(self._children)
            if modality == 'sequence':
                self._validate_sequence(self._children, is_mixed_content, errs)
            else:
                self._validate_choice(self._children, is_mixed_content, errs)
        if self._node_index != len(self._node_children_names):
            msg = f"Child '{self._node_children_names[self._node_index]}' is not allowed in this position for parent '{self._node.name}'"
            if errs is None:
                raise ChildNotAllowedError(msg)
            else:
                errs.append((ValidationError.CHILD_NOT_ALLOWED, msg, self._node, self._node_children_names[self._node_index]))
