def _validate_choice(self, rule_children: list, is_mixed_content: bool, errs: list=None):
    choice_min = rule_children[-2]
    choice_max = rule_children[-1]
    choice_occurrence = 0
    while self._node_index < len(self._node_children_names) and self._node_children_names[self._node_index] in self._get_rule_children_names(rule_children):
        for rule_child in rule_children[:-2]:
            if self._node_index == len(self._node_children_names):
                break
            modality = Rule._get_children_modality(rule_child)
            if modality == 'sequence':
                if self._node_children_names[self._node_index] in self._get_rule_children_names(rule_child):
                    self._validate_sequence(rule_child, is_mixed_content, errs)
                    choice_occurrence += 1
            elif modality == 'choice':
                if self._node_children_names[self._node_index] in self._get_rule_children_names(rule_child):
                    self._validate_choice(rule_child, is_mixed_content, errs)
                    choice_occurrence += 1
            elif self._node_children_names[self._node_index] == rule_child[0]:
                self._validate_rule_child(rule_child, True, errs)
                choice_occurrence += 1
    if choice_max is not INFINITY and choice_occurrence > choice_max:
        msg = f"Maximum occurrence of '{choice_max}' exceeded for choice in parent '{self._node.name}'"
        if errs is None:
            raise MaxOccurrenceExceededError(msg)
        else:
            errs.append((ValidationError.MAX_CHOICE_EXCEEDED, msg, self._node, self._node.name, choice_max))
    if choice_occurrence < choice_min and (not is_mixed_content):
        msg = f"Minimum occurrence of '{choice_min}' not met for choice in parent '{self._node.name}'"
        if errs is None:
            raise MinOccurrenceUnmetError(msg)
        else:
            errs.append((ValidationError.MIN_CHOICE_UNMET, msg, self._node, self._node.name, choice_min))
