def _validate_content(self, node: Node, is_mixed_content: bool, errs: list=None):
    """
        Validates node content for rule compliance.
        For each of the content rules configured for this rule,
        validates the node to see if its content complies
        with the content that this rule expects.

        Args:
            node: Node instance to be validated

        Returns:
            None

        Raises:
            MetapypeRuleError: Illegal attribute or missing required attribute
        """
    for content_rule in self._content['content_rules']:
        if content_rule == 'emptyContent':
            self._validate_empty_content(node, errs)
        elif content_rule == 'floatContent':
            self._validate_float_content(node, errs)
        elif content_rule == 'floatRangeContent_EW':
            self._validate_float_range_ew_content(node, errs)
        elif content_rule == 'floatRangeContent_NS':
            self._validate_float_range_ns_content(node, errs)
        elif content_rule == 'floatContent_Nonnegative':
            self._validate_float_content_nonnegative(node, errs)
        elif content_rule == 'intContent':
            self._validate_int_content(node, errs)
        elif content_rule == 'nonEmptyContent':
            self._validate_non_empty_content(node, is_mixed_content, errs)
        elif content_rule == 'strContent':
            self._validate_str_content(node, errs)
        elif content_rule == 'timeContent':
            self._validate_time_content(node, errs)
        elif content_rule == 'uriContent':
            self._validate_uri_content(node, errs)
        elif content_rule == 'yearDateContent':
            self._validate_yeardate_content(node, errs)
        elif content_rule == 'anyContent':
            pass
        else:
            msg = f'Node {node.name} content type rule {content_rule} not recognized'
            if errs is None:
                raise UnknownContentRuleError(msg)
            else:
                errs.append((ValidationError.UNKNOWN_CONTENT_RULE, msg, node))
    if self.has_enum_content():
        enum_values = self._content['content_enum']
        self._validate_enum_content(node, enum_values, errs)
