@staticmethod
def _validate_empty_content(node: Node, errs: list=None):
    if node.content is not None:
        msg = f'Node "{node.name}" content should be empty'
        if errs is None:
            raise MetapypeRuleError(msg)
        else:
            errs.append((ValidationError.CONTENT_EXPECTED_EMPTY, msg, node, node.content))
