@staticmethod
def _validate_enum_content(node: Node, enum_values: list, errs: list=None):
    if node.content not in enum_values:
        msg = f'Node "{node.name}" content should be one of "{enum_values}", not "{node.content}"'
        if errs is None:
            raise MetapypeRuleError(msg)
        else:
            errs.append((ValidationError.CONTENT_EXPECTED_ENUM, msg, node, enum_values, node.content))
