@staticmethod
def _validate_float_content(node: Node, errs: list=None):
    val = node.content
    if val is not None and (not Rule.is_float(val)):
        msg = f'Node "{node.name}" content should be type "{TYPE_FLOAT}", not "{type(node.content)}"'
        if errs is None:
            raise MetapypeRuleError(msg)
        else:
            errs.append((ValidationError.CONTENT_EXPECTED_FLOAT, msg, node, type(node.content)))
