def _validate_float_content_nonnegative(self, node: Node, errs: list=None):
    self._validate_float_nonnegative(node, errs)
