def _validate_float_nonnegative(self, node: Node, errs: list=None):
    self._validate_float_content(node, errs)
    if not Rule.is_float(node.content):
        return
    float_val = float(node.content)
    if not float_val >= 0:
        msg = f'Node "{node.name}" content should be non-negative'
        if errs is None:
            raise MetapypeRuleError(msg)
        else:
            errs.append((ValidationError.CONTENT_EXPECTED_RANGE, msg, node, 0, None, float_val))
