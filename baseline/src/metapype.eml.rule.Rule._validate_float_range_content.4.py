def _validate_float_range_content(self, node: Node, minmax, errs: list=None):
    self._validate_float_content(node, errs)
    if not Rule.is_float(node.content):
        return
    float_val = float(node.content)
    if not minmax[0] <= float_val <= minmax[1]:
        msg = f'Node "{node.name}" content should be in range {minmax}'
        if errs is None:
            raise MetapypeRuleError(msg)
        else:
            errs.append((ValidationError.CONTENT_EXPECTED_RANGE, msg, node, minmax[0], minmax[1], float_val))
