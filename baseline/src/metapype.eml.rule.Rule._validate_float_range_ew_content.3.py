def _validate_float_range_ew_content(self, node: Node, errs: list=None):
    self._validate_float_range_content(node, (-180.0, 180.0), errs)
