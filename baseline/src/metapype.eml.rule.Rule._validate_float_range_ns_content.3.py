def _validate_float_range_ns_content(self, node: Node, errs: list=None):
    self._validate_float_range_content(node, (-90.0, 90.0), errs)
