@staticmethod
def _validate_int_content(node: Node, errs: list=None):
    val = node.content
    if val is not None and (not Rule.is_int(val)):
        msg = f'Node "{node.name}" content should be type "{TYPE_INT}", not "{type(node.content)}"'
        if errs is None:
            raise MetapypeRuleError(msg)
        else:
            errs.append((ValidationError.CONTENT_EXPECTED_INT, msg, node, type(node.content)))
