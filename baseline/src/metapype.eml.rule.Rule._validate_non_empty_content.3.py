@staticmethod
def _validate_non_empty_content(node: Node, is_mixed_content: bool, errs: list=None):
    if node.content is None or len(str(node.content)) == 0:
        if is_mixed_content and len(node.children) == 0 or not is_mixed_content:
            msg = f'Node "{node.name}" content should not be empty'
            if errs is None:
                raise MetapypeRuleError(msg)
            else:
                errs.append((ValidationError.CONTENT_EXPECTED_NONEMPTY, msg, node))
