def _validate_rule_child(self, rule_child: list, limit_max: bool, errs: list=None):
    rule_child_name = rule_child[0]
    rule_child_min = rule_child[-2]
    rule_child_max = rule_child[-1]
    occurrence = 0
    while self._node_index < len(self._node_children_names) and rule_child_name == self._node_children_names[self._node_index]:
        occurrence += 1
        self._node_index += 1
        if limit_max and occurrence == rule_child_max:
            return None
        if rule_child_max is not INFINITY and occurrence > rule_child_max:
            msg = f"Maximum occurrence of '{rule_child_max}' exceeded for child '{rule_child_name}' in parent '{self._node.name}'"
            if errs is None:
                raise MaxOccurrenceExceededError(msg)
            else:
                errs.append((ValidationError.MAX_OCCURRENCE_EXCEEDED, msg, self._node, None if self._node_index >= len(self._node_children_names) else self._node_children_names[self._node_index], rule_child_max))
    if occurrence < rule_child_min:
        msg = f"Minimum occurrence of '{rule_child_min}' not met for child '{rule_child_name}' in parent '{self._node.name}'"
        if errs is None:
            raise MinOccurrenceUnmetError(msg)
        else:
            errs.append((ValidationError.MIN_OCCURRENCE_UNMET, msg, self._node, rule_child_name, rule_child_min))
