def _validate_sequence(self, rule_children: list, is_mixed_content: bool, errs: list=None):
    for rule_child in rule_children:
        if Rule._get_children_modality(rule_child) == 'choice':
            self._validate_choice(rule_child, is_mixed_content, errs)
        else:
            self._validate_rule_child(rule_child, False, errs)
