@staticmethod
def _validate_str_content(node: Node, errs: list=None):
    if node.content is not None and type(node.content) is not str:
        msg = f'Node "{node.name}" content should be type "{TYPE_STR}", not "{type(node.content)}"'
        if errs is None:
            raise MetapypeRuleError(msg)
        else:
            errs.append((ValidationError.CONTENT_EXPECTED_STRING, msg, node, type(node.content)))
    if node.content is not None:
        try:
            node.content.encode(encoding='utf-8', errors='strict')
        except UnicodeError as ex:
            msg = f'Node "{node.name}" content contains non-unicode character(s)'
            if errs is None:
                raise StrContentUnicodeError(msg)
            else:
                errs.append((ValidationError.CONTENT_EXPECTED_STRING, msg, node, type(node.content)))
