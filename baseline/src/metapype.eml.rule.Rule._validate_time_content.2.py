@staticmethod
def _validate_time_content(node: Node, errs: list=None):
    val = node.content
    if val is not None and (not Rule.is_time(val)):
        msg = f'Node "{node.name}" format should be time ("HH:MM:SS" or "HH:MM:SS.f")'
        if errs is None:
            raise MetapypeRuleError(msg)
        else:
            errs.append((ValidationError.CONTENT_EXPECTED_TIME_FORMAT, msg, node, node.content))
