@staticmethod
def _validate_uri_content(node: Node, errs: list=None):
    uri = node.content
    if uri is not None and (not Rule.is_uri(uri)):
        msg = f'Node "{node.name}" uri content "{uri}" is not valid'
        if errs is None:
            raise ContentExpectedUriError(msg)
        else:
            errs.append((ValidationError.CONTENT_EXPECTED_URI, msg, node, node.content))
