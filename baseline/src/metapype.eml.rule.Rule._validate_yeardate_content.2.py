@staticmethod
def _validate_yeardate_content(node: Node, errs: list=None):
    val = node.content
    if val is not None and (not Rule.is_yeardate(val)):
        msg = f'Node "{node.name}" format should be year ("YYYY") or date ("YYYY-MM-DD")'
        if errs is None:
            raise MetapypeRuleError(msg)
        else:
            errs.append((ValidationError.CONTENT_EXPECTED_YEAR_FORMAT, msg, node, node.content))
