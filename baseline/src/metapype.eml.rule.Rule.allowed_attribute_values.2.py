def allowed_attribute_values(self, attribute: str):
    values = []
    if attribute in self._attributes:
        if len(self._attributes[attribute]) > 1:
            values = self._attributes[attribute][1:]
    else:
        raise Exception(f'Unknown attribute {attribute}')
    return values
