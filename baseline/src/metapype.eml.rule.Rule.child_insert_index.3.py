def child_insert_index(self, parent: Node, new_child: Node) -> int:
    """
        Determines the index location of a new child node in a given parent node
        based on the parent node's rule type. Note that only a legal position in
        the list of possible children is guaranteed; parent node validity may be
        based on other constraint of the rule type.

        Args:
            parent: Parent node of which to be adding child node
            new_child: Child node to be added

        Returns:
            int: Index location of new child node

        """
    try:
        new_child_index = self._rule_children_names.index(new_child.name)
    except ValueError as e:
        msg = f"Child '{new_child.name}' not allowed in parent '{parent.name}'"
        raise ChildNotAllowedError(msg)
    for index, child in enumerate(parent.children):
        parent_child_index = self._rule_children_names.index(child.name)
        if parent_child_index > new_child_index:
            return index
    index = len(parent.children)
    return index
