def has_enum_content(self):
    return 'content_enum' in self._content
