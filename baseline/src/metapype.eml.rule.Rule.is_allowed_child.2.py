def is_allowed_child(self, child_name: str):
    return child_name in self._rule_children_names
