@staticmethod
def is_float(val: str=None):
    """
        Boolean to determine whether node content is
        (or can be converted to) a valid float value.
        """
    is_valid = False
    if val is None:
        return False
    try:
        __ = float(val)
        is_valid = True
    except ValueError:
        pass
    return is_valid
