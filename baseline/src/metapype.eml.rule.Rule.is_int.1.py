@staticmethod
def is_int(val: str=None):
    """
        Boolean to determine whether node content is
        (or can be converted to) a valid int value.
        """
    is_valid = False
    if val:
        try:
            __ = int(val)
            is_valid = True
        except ValueError:
            pass
    return is_valid
