def is_required_attribute(self, attribute: str):
    if attribute in self._attributes:
        return self._attributes[attribute][0]
    else:
        raise Exception(f'Unknown attribute {attribute}')
