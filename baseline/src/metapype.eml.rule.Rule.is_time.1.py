@staticmethod
def is_time(val: str=None):
    """
        Boolean to determine whether node content is a valid time value.
        """
    is_valid = False
    if val and type(val) is str:
        try:
            time.fromisoformat(val)
            is_valid = True
        except ValueError as ex:
            logger.debug(ex)
    return is_valid
