@staticmethod
def is_uri(val: str=None) -> bool:
    """
        Boolean to determine whether node content is a valid uri.
        Args:
            val: String value of uri

        Returns: boolean

        """
    is_valid = False
    validator = validators.Validator().allow_schemes('http', 'https', 'ftp').require_presence_of('scheme', 'host').check_validity_of('scheme', 'host', 'path')
    try:
        uri = uri_reference(val)
        validator.validate(uri)
        is_valid = True
    except (InvalidComponentsError, MissingComponentError, UnpermittedComponentError, UnicodeError) as ex:
        logger.debug(ex)
    return is_valid
