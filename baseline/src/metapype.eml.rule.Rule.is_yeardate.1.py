@staticmethod
def is_yeardate(val: str=None):
    """
        Boolean to determine whether node content is a valid yearDate value.
        """
    is_valid = False
    if val and type(val) is str:
        for yeardate_format in ['%Y', '%Y-%m-%d']:
            try:
                datetime.datetime.strptime(val, yeardate_format)
                is_valid = True
                break
            except ValueError as ex:
                logger.debug(ex)
    return is_valid
