@property
def name(self):
    return self._name
