def validate_rule(self, node: Node, errs: list=None):
    """
        Validates a node for rule compliance by validating the node's
        content, attributes, and children.

        Args:
            node: Node instance to be validated
            errs: List of validation errors

        Returns:
            None

        Raises:
            MetapypeRuleError: Illegal attribute or missing required attribute
        """
    if self.name in (RULE_TEXT, RULE_ANYNAME, RULE_PARA, RULE_SUBSCRIPT, RULE_SUPERSCRIPT):
        is_mixed_content = True
    else:
        is_mixed_content = False
    self._validate_content(node, is_mixed_content, errs)
    self._validate_attributes(node, errs)
    self._validate_children(node, is_mixed_content, errs)
