def get_rule(node_name: str):
    """
    Helper function.
    For a given node name, instantiate its corresponding rule object and return it
    """
    rule_name = get_rule_name(node_name)
    return Rule(rule_name)
