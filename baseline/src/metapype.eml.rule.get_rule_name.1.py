def get_rule_name(node_name: str):
    """
    Helper function.
    For a given node name, return its corresponding rule name
    """
    return node_mappings.get(node_name)
