def node(n: Node, errs: list=None) -> None:
    """
    Validates a given node for rule compliance.

    Args:
        n: Node instance to be validated
        errs: List container for validation errors (fail fast if None)

    Returns:
        None

    Raises:
        MetapypeRuleError: An unknown type of node for EML
    """
    if n.name not in rule.node_mappings:
        msg = f'Unknown node rule type: {n.name}'
        if errs is None:
            raise UnknownNodeError(msg)
        else:
            errs.append((ValidationError.UNKNOWN_NODE, msg, n))
    else:
        node_rule = rule.get_rule(n.name)
        node_rule.validate_rule(n, errs)
