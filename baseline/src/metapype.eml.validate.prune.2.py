def prune(n: Node, strict: bool=False) -> list:
    """
    Prune in place all non-valid nodes from the tree

    Args:
        n: Node
        strict:

    Returns: List of pruned nodes

    Side-effects: Non-valid nodes are pruned from the tree

    """
    pruned = list()
    if n.name != 'metadata':
        try:
            node(n)
        except UnknownNodeError as ex:
            logger.debug(f'Pruning: {n.name}')
            pruned.append((n, str(ex)))
            if n.parent is not None:
                n.parent.remove_child(n)
            Node.delete_node_instance(n.id)
            return pruned
        except MetapypeRuleError as ex:
            logger.debug(ex)
            r = rule.get_rule(n.name)
            children = n.children.copy()
            for child in children:
                if not r.is_allowed_child(child.name):
                    logger.debug(f'Pruning: {child.name}')
                    pruned.append((child, str(ex)))
                    n.remove_child(child)
                    Node.delete_node_instance(child.id)
        children = n.children.copy()
        for child in children:
            pruned += prune(child, strict)
            if strict and child in n.children:
                try:
                    node(child)
                except MetapypeRuleError as ex:
                    logger.debug(f'Pruning: {child.name}')
                    pruned.append((child, str(ex)))
                    n.remove_child(child)
                    Node.delete_node_instance(child.id)
    return pruned
