def tree(n: Node, errs: list=None) -> None:
    """
    Recursively walks from the root node and validates
    each child node for rule compliance.

    Args:
        n: Node instance of root for validates
        errs: List container for validation errors (fail fast if None)

    Returns:
        None
    """
    node(n, errs)
    if n.name != 'metadata':
        for child in n.children:
            tree(child, errs)
