def _attr_escape(value) -> str:
    return escape(str(value), {'"': '&quot;'})
