def _format_extras(name: str, nsmap: dict) -> str:
    match = re.match('^\\{(.*)\\}(.*)$', name)
    nsname = name
    if match is not None:
        uri = match.group(1)
        target = match.group(2)
        if uri == 'http://www.w3.org/XML/1998/namespace':
            nsname = f'xml:{target}'
        for k, v in nsmap.items():
            if uri == v:
                nsname = f'{k}:{target}'
    return nsname
