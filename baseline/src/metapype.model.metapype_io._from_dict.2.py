def _from_dict(node: dict, parent: Node=None) -> Node:
    """
    Build a Metapype model from a dict.

    Args:
        node: dict representation of a Metapype model
        parent: parent node of current node (root node will be None)

    Returns:
        Node: current node of Metapype model

    """
    name, body = node.popitem()
    node = Node(name, id=body[0]['id'])
    if parent is not None:
        node.parent = parent
    nsmap = body[1]['nsmap']
    if nsmap is not None:
        for nsp in nsmap:
            node.add_namespace(nsp, nsmap[nsp])
    prefix = body[2]['prefix']
    if prefix is not None:
        node.prefix = prefix
    attributes = body[3]['attributes']
    if attributes is not None:
        for attribute in attributes:
            node.add_attribute(attribute, attributes[attribute])
    extras = body[4]['extras']
    if extras is not None:
        for extra in extras:
            node.add_extras(extra, extras[extra])
    content = body[5]['content']
    if content is not None:
        node.content = content
    tail = body[6]['tail']
    if tail is not None:
        node.tail = tail
    children = body[7]['children']
    for child in children:
        child_node = _from_dict(child, node)
        node.add_child(child_node)
    return node
