def _nsp_unique(child_nsmap: dict, parent_nsmap: dict) -> dict:
    nsmap = dict()
    for child_nsp in child_nsmap:
        if child_nsp in parent_nsmap:
            if child_nsmap[child_nsp] != parent_nsmap[child_nsp]:
                nsmap[child_nsp] = child_nsmap[child_nsp]
        else:
            nsmap[child_nsp] = child_nsmap[child_nsp]
    return nsmap
