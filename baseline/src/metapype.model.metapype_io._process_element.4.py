def _process_element(e, clean, collapse, literals) -> Node:
    """
    Process an lxml etree element into a Metapype node. If the clean attribute is true, then
    remove leading and trailing whitespace from the element content.

    Args:
        e: lxml etree element
        clean: boolean to clean leading and trailing whitespace from node content
        collapse: collapse inner content whitespace to a single space character
        literals: tuple of XML elements whose content should not be altered

    Returns: Node

    """
    tag = e.tag[e.tag.find('}') + 1:]
    node = Node(tag)
    node.nsmap = e.nsmap
    node.prefix = e.prefix
    if clean:
        if e.text is not None:
            if tag in literals:
                node.content = e.text
            elif re.fullmatch('[ \xa0\t]+', e.text):
                node.content = e.text
            else:
                node.content = e.text.strip()
                if node.content == '':
                    node.content = None
                elif collapse:
                    node.content = ' '.join(e.text.split())
        if e.tail is not None:
            if re.fullmatch('[ \xa0\t]+', e.tail):
                node.tail = e.tail
            else:
                node.tail = e.tail.strip()
                if node.tail == '':
                    node.tail = None
                elif collapse:
                    node.tail = ' '.join(e.tail.split())
    else:
        node.content = e.text
        node.tail = e.tail
    for name, value in e.attrib.items():
        if '{' not in name:
            node.add_attribute(name, value)
        else:
            nsname = _format_extras(name, node.nsmap)
            node.add_extras(nsname, value)
    for _ in e:
        if _.tag is not etree.Comment:
            node.add_child(_process_element(_, clean, collapse, literals))
    for child in node.children:
        child.parent = node
        if child.nsmap == node.nsmap:
            child.nsmap = node.nsmap
    return node
