def _serialize(node: Node) -> dict:
    """
    Serializes a Metapype model instance into a Python dict

    Args:
        node: Metapype node to serialize

    Returns:
        dict: Metapype model instance dictionary

    """
    j = {node.name: []}
    j[node.name].append({'id': node.id})
    j[node.name].append({'nsmap': node.nsmap})
    j[node.name].append({'prefix': node.prefix})
    j[node.name].append({'attributes': node.attributes})
    j[node.name].append({'extras': node.extras})
    j[node.name].append({'content': node.content})
    j[node.name].append({'tail': node.tail})
    children = []
    for child in node.children:
        children.append(_serialize(child))
    j[node.name].append({'children': children})
    return j
