def graph(node: Node, level: int=0) -> str:
    """
    Return a graphic tree structure of the model instance

    Args:
        node: Root node of the model instance
        level: Indention level

    Returns:
        str: String representation of the model instance.
    """
    indent = '  ' * level
    g = f'{node.name}[{node.id}]' if node.prefix is None else f'{node.prefix}:{node.name}[{node.id}]'
    if node.content is not None:
        g += f': {node.content}'
    if len(node.attributes) > 0:
        g += f' {str(node.attributes)}'
    if level == 0:
        g += '\n'
    else:
        g = indent + '╰─ ' + g + '\n'
    for child in node.children:
        g += graph(child, level + 1)
    return g
