def to_json(node: Node, indent: int=None) -> str:
    """
    Converts a Metapype model instance to JSON

    Args:
        indent:
        node: node of the model instance

    Returns:
        str: JSON of Metapype model instance

    """
    j = _serialize(node)
    return json.dumps(j, indent=indent)
