def to_xml(node: Node, parent: Node=None, level: int=0, skip_ns: bool=False) -> str:
    xml = ''
    spacing = '  '
    indent = spacing * level
    tag = f'{node.name}' if node.prefix is None else f'{node.prefix}:{node.name}'
    attributes = ''
    if len(node.attributes) > 0:
        attributes += ' '.join([f'{k}="{_attr_escape(v)}"' for k, v in node.attributes.items()])
    if not skip_ns:
        if parent is None:
            if len(node.nsmap) > 0:
                attributes += ' ' + ' '.join([f'xmlns:{k}="{_attr_escape(v)}"' for k, v in node.nsmap.items()])
        elif node.nsmap != parent.nsmap:
            nsmap = _nsp_unique(node.nsmap, parent.nsmap)
            if len(nsmap) > 0:
                attributes += ' ' + ' '.join([f'xmlns:{k}="{_attr_escape(v)}"' for k, v in nsmap.items()])
    if len(node.extras) > 0:
        attributes += ' ' + ' '.join([f'{k}="{_attr_escape(v)}"' for k, v in node.extras.items()])
    if len(attributes) > 0:
        attributes = ' ' + attributes.lstrip()
    if node.content is None and len(node.children) == 0:
        open_tag = f'{indent}<{tag}{attributes}/>\n'
        close_tag = ''
    elif node.content is None:
        open_tag = f'{indent}<{tag}{attributes}>\n'
        close_tag = f'{indent}</{tag}>\n'
    else:
        content = escape(node.content)
        open_tag = f'{indent}<{tag}{attributes}>{content}'
        close_tag = f'</{tag}>\n'
    if node.tail is not None:
        tail = escape(node.tail)
        close_tag += tail
    xml += open_tag
    for child in node.children:
        xml += to_xml(child, node, level + 1, skip_ns)
    xml += close_tag
    return xml
