def from_json(json_node: dict, parent: Node=None) -> Node:
    """
    Recursively traverse Python JSON and build a metapype model
    instance.

    Args:
        json_node: JSON converted to Python structure
        parent: parent node reference to child

    Returns:
        Node: Child node of decomposed and parsed JSON

    """
    _ = json_node.popitem()
    name = _[0]
    body = _[1]
    node = Node(name, id=body[0]['id'])
    if parent is not None:
        node.parent = parent
    attributes = body[1]['attributes']
    if attributes is not None:
        for attribute in attributes:
            node.add_attribute(attribute, attributes[attribute])
    content = body[2]['content']
    if content is not None:
        node.content = content
    children = body[3]['children']
    for child in children:
        child_node = from_json(child, node)
        node.add_child(child_node)
    return node
