def objectify(node: Node) -> dict:
    """
    Converts a model instance into a single Python object instance in
    preparation for JSON

    Args:
        node:

    Returns:
        dict: serialized object of the model instance

    """
    j = {node.name: []}
    j[node.name].append({'id': node.id})
    j[node.name].append({'attributes': node.attributes})
    j[node.name].append({'content': node.content})
    children = []
    for child in node.children:
        children.append(objectify(child))
    j[node.name].append({'children': children})
    return j
