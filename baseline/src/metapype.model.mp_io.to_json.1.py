def to_json(node: Node):
    """
    Converts a serialized object of the model instance to a JSON compliant
    string.

    Args:
        node: Root node of the model instance

    Returns:
        str: JSON representation of the model instance

    """
    j = objectify(node)
    return json.dumps(j)
