def __init__(self, name: str, id: str=None, parent=None, content: str=None):
    """
        Model node class representation.

        Attributes:
            name: Required string of metadata element name being modeled
            id: Optional node identifier
            parent: Optional parent node
            content: Optional string content
        """
    self._id = str(uuid.uuid1()) if id is None else id
    self._name = name
    self._parent = parent
    self._content = None if content is None else str(content)
    self._tail = None
    self._attributes = {}
    self._nsmap = {}
    self._prefix = None
    self._extras = {}
    self._children = []
    Node.set_node_instance(self)
