def __object(self):
    o = {self._name: []}
    o[self._name].append({'id': self._id})
    o[self._name].append({'parent': self._parent.name if self._parent else None})
    o[self._name].append({'parent_id': self._parent.id if self._parent else None})
    o[self._name].append({'nsmap': self._nsmap})
    o[self._name].append({'prefix': self._prefix})
    o[self._name].append({'attributes': self._attributes})
    o[self._name].append({'extras': self._extras})
    o[self._name].append({'content': self._content})
    o[self._name].append({'tail': self._tail})
    children = []
    for child in self._children:
        children.append(child.name)
    o[self._name].append({'children': children})
    return o
