def __repr__(self):
    r = self.__object()
    return str(r)
