def __str__(self):
    s = json.dumps(self.__object(), indent=2)
    return s
