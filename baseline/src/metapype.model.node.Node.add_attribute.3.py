def add_attribute(self, name, value):
    self._attributes[name] = value
