def add_child(self, child, index=None) -> None:
    """
        Adds a child object into the children list at either the end of
        the list or at the index location if specified, and assigns the
        parent namespace map to the child.
        Args:
            child: Node
            index: Int
        Returns:
            None
        """
    if index is None:
        self._children.append(child)
        child.parent = self
    else:
        self._children.insert(index, child)
        child.parent = self
    if self.nsmap == child.nsmap:
        child.nsmap = self.nsmap
    else:
        for prefix in self.nsmap:
            if prefix not in child.nsmap:
                child.add_namespace(prefix, self.nsmap[prefix])
