def add_extras(self, key: str, value: str):
    self._extras[key] = value
