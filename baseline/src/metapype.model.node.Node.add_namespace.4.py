def add_namespace(self, prefix: str, namespace: str, nsmap_id: int=None):
    if nsmap_id is None:
        nsmap_id = id(self.nsmap)
        self.nsmap = copy.deepcopy(self.nsmap)
    self.nsmap[prefix] = namespace
    for child in self._children:
        if id(child.nsmap) == nsmap_id:
            child.nsmap = self.nsmap
            child.add_namespace(prefix, namespace, nsmap_id=nsmap_id)
        else:
            child.add_namespace(prefix, namespace)
