def attribute_value(self, name):
    if name in self._attributes:
        return self._attributes[name]
    return None
