@property
def attributes(self):
    return self._attributes
