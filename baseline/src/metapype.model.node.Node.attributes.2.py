@attributes.setter
def attributes(self, attributes):
    self._attributes = attributes
