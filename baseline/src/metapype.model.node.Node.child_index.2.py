def child_index(self, child):
    """
        Returns the child index value of where it is found in the children
        list

        Args:
            child: Node

        Returns:
            Int index value

        """
    index = None
    try:
        index = self._children.index(child)
    except ValueError as e:
        logger.error(e)
    return index
