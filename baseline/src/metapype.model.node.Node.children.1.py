@property
def children(self):
    return self._children
