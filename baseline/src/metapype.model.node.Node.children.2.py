@children.setter
def children(self, children):
    self._children = children
