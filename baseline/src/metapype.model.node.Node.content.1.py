@property
def content(self):
    return self._content
