@content.setter
def content(self, content):
    self._content = None if content is None else str(content)
