def copy(self):
    """
        Returns a deep copy (including all children) of the node. All nodes are given new node IDs.

        Returns:
            Node

        """
    _copy = copy.copy(self)
    _copy._id = str(uuid.uuid1())
    Node.set_node_instance(_copy)
    _copy.attributes = {}
    for key, val in self.attributes.items():
        _copy.attributes[key] = val
    _copy.nsmap = {}
    for key, val in self.nsmap.items():
        _copy.nsmap[key] = val
    _copy.extras = {}
    for key, val in self.extras.items():
        _copy.extras[key] = val
    _copy.children = []
    for child in self.children:
        _child_copy = child.copy()
        _child_copy.parent = _copy
        _copy.children.append(_child_copy)
    return _copy
