@classmethod
def delete_node_instance(cls, id: str, children: bool=True):
    """
        Removes the node instance from the store; if children set to True, then
        remove all children recursively.

        Args:
            id: str node identifier
            children: bool

        Returns:
            None
        """
    if children:
        node = cls.get_node_instance(id)
        for child in node.children:
            cls.delete_node_instance(child.id)
    del Node.store[id]
