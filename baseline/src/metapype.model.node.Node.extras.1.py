@property
def extras(self):
    return self._extras
