@extras.setter
def extras(self, e: dict):
    self._extras = e
