def find_all_children(self, child_name):
    """
        Returns a list of all children that matches the child_name, or returns
        an empty list if there are no matches.

        Args:
            child_name: Child name to be matched

        Returns:
            List
        """
    return [child_node for child_node in self._children if child_node.name == child_name]
