def find_all_descendants(self, child_name, descendants):
    """
        Generates a list of all descendants that match the child_name, or
        an empty list if there are no matches.

        Args:
            child_name: Child name to be matched
            descendants: List object to be filled with descendant nodes
        """
    for child_node in self._children:
        if child_node.name == child_name:
            descendants.append(child_node)
        child_node.find_all_descendants(child_name, descendants)
