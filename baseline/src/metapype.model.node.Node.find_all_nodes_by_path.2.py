def find_all_nodes_by_path(self, path: list):
    """
        Search down a descendant lineage, using the names in the path provided. Return
        a list of nodes that satisfy the path.

        To give an example based on EML 2.2, if self is the EML node, then the path
        [names.DATASET, names.CREATOR, names.USERID] will return a list consisting of
        the userIDs for all of the creators of the dataset, if any.

        Note that this method returns a list of nodes (or None, if none is found). To
        get a single node satisfying the path, use find_single_node_by_path. In cases
        where it is known that at most one node can satisfy the path, getting a single
        node is more convenient than getting a list.

        Args:
            path: List of node names defining the descendant lineages to be found.

        Returns
            List of Nodes, which may be empty
        """
    if not path or len(path) == 0:
        return []
    current_list = [self]
    for name in path:
        if not current_list:
            return []
        next_generation = []
        for node in current_list:
            next_generation.extend(node.find_all_children(name))
        current_list = next_generation
    return current_list
