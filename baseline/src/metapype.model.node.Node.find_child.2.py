def find_child(self, child_name):
    """
        Searches for the first child that matches the
        child_name and returns it, or returns None if there is no
        match. Does not search beyond the first generation of descendants.

        Args:
            child_name: Child name to be matched

        Returns
            Node or None
        """
    for child_node in self._children:
        if child_node.name == child_name:
            return child_node
    return None
