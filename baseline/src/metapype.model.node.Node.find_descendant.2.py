def find_descendant(self, descendant_name):
    """
        Recursively searches for the first descendant that matches the
        descendant_name and returns it, or returns None if there is no
        match.

        Args:
            descendant_name: Descendant node name to be matched

        Returns
            Node or None
        """
    descendant = None
    for descendant_node in self._children:
        if descendant_node.name == descendant_name:
            descendant = descendant_node
        else:
            descendant = descendant_node.find_descendant(descendant_name=descendant_name)
        if descendant:
            break
    return descendant
