def find_single_node_by_path(self, path: list):
    """
        Search down a descendant lineage, using the names in the path provided. Return
        the first node found that satisfies the path.

        To give an example based on EML 2.2, if self is the EML node, then the path
        [names.DATASET, names.CREATOR, names.USERID] will find the userID node of the
        first creator of the dataset, if any. Note that there may be many userID nodes in the
        tree (for creators, metadataProviders, associatedParties, project personnel, etc.,
        so just doing a recursive search for a userID node isn't likely to return the
        desired result.

        Note that this method only returns a single node (or None, if none is found). To
        get all nodes satisfying the path, use find_all_nodes_by_path.

        Args:
            path: List of node names defining the descendant lineage to be found.

        Returns
            Node or None
        """
    if not path or len(path) == 0:
        return None
    current_node = self
    for name in path:
        if not current_node:
            return None
        current_node = current_node.find_child(name)
    return current_node
