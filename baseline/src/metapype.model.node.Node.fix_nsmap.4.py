@classmethod
def fix_nsmap(cls, node: 'Node', nsmap: dict=None, nsmap_id: int=None) -> None:
    """
        Fixes the namespace mappings for the node and its children
        Args:
            node: Node - the node of which to fix the namespace map
            nsmap: Dict - the namespace map of the node's parent
            nsmap_id: Int - the object identifier of the node's nsmap; to be used for
                            repeated nsmap objects

        Returns:
            None
        """
    if nsmap is not None:
        if nsmap_id is None:
            nsmap_id = id(node.nsmap)
        if nsmap == node.nsmap:
            node.nsmap = nsmap
        else:
            node.nsmap = copy.deepcopy(node.nsmap)
            for prefix in nsmap:
                node.nsmap[prefix] = nsmap[prefix]
    for child in node.children:
        if id(child.nsmap) == nsmap_id:
            child.nsmap = node.nsmap
            cls.fix_nsmap(child, node.nsmap, nsmap_id=nsmap_id)
        else:
            cls.fix_nsmap(child, node.nsmap)
