def get_ancestry(self):
    ancestry = []
    node = self
    while True:
        ancestry.insert(0, node)
        node = node.parent
        if not node:
            break
    return ancestry
