@classmethod
def get_node_instance(cls, id: str) -> 'Node':
    """
        Returns the instance of a node from its identifier

        Args:
            id: Str

        Returns:
            Node
        """
    return cls.store.get(id, None)
