@property
def id(self):
    """
        Returns the unique identifier of the node instance
        Returns:
            Str
        """
    return self._id
