@staticmethod
def is_equal(node1, node2) -> bool:
    if id(node1) == id(node2):
        return False
    if node1.name != node2.name:
        return False
    if node1.content != node2.content:
        return False
    if node1.tail != node2.tail:
        return False
    if len(node1.attributes) != len(node2.attributes):
        return False
    else:
        for key in node1.attributes.keys():
            try:
                if node1.attributes[key] != node2.attributes[key]:
                    return False
            except KeyError:
                return False
    if len(node1.nsmap) != len(node2.nsmap):
        return False
    else:
        for key in node1.nsmap.keys():
            try:
                if node1.nsmap[key] != node2.nsmap[key]:
                    return False
            except KeyError:
                return False
    if node1.prefix != node2.prefix:
        return False
    if len(node1.extras) != len(node2.extras):
        return False
    else:
        for key in node1.extras.keys():
            try:
                if node1.extras[key] != node2.extras[key]:
                    return False
            except KeyError:
                return False
    if len(node1.children) != len(node2.children):
        return False
    else:
        for index in range(len(node1.children)):
            child1 = node1.children[index]
            child2 = node2.children[index]
            if not Node.is_equal(child1, child2):
                return False
    return True
