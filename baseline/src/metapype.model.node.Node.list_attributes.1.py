def list_attributes(self):
    return list(self._attributes.keys())
