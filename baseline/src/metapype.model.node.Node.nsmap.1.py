@property
def nsmap(self):
    return self._nsmap
