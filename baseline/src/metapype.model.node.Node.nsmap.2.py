@nsmap.setter
def nsmap(self, nsmap: dict):
    self._nsmap = nsmap
