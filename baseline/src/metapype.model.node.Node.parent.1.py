@property
def parent(self):
    return self._parent
