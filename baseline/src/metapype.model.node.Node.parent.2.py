@parent.setter
def parent(self, parent):
    self._parent = parent
