@property
def prefix(self):
    return self._prefix
