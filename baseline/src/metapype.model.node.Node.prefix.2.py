@prefix.setter
def prefix(self, prefix):
    self._prefix = prefix
