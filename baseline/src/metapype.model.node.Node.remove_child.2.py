def remove_child(self, child):
    """
        Removes the child object from the children list

        Args:
            child: Node

        Returns:
            None
        """
    self._children.remove(child)
    child.parent = None
