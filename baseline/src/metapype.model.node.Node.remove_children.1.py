def remove_children(self):
    for child in self._children:
        child.parent = None
    self._children = []
