def remove_namespace(self, prefix: str, nsmap_id: int=None) -> None:
    if nsmap_id is None:
        nsmap_id = id(self.nsmap)
    if prefix in self.nsmap:
        self.nsmap = copy.deepcopy(self.nsmap)
        del self.nsmap[prefix]
    for child in self._children:
        if id(child.nsmap) == nsmap_id:
            child.nsmap = self.nsmap
            child.remove_namespace(prefix, nsmap_id=nsmap_id)
        else:
            child.remove_namespace(prefix)
