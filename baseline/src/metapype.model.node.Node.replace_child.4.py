def replace_child(self, old_child: 'Node', new_child: 'Node', delete_old: bool=True):
    """
        Replaces the old child with a new child

        Args:
            old_child: Node
            new_child: Node
            delete_old: Boolean

        Returns:
            None
        """
    if new_child.name != old_child.name:
        msg = f'Child type "{new_child.name}" and "{old_child.name}" mismatch'
        raise ValueError(msg)
    index = self._children.index(old_child)
    new_child.parent = self
    self._children[index] = new_child
    old_child.parent = None
    if delete_old:
        Node.delete_node_instance(id=old_child.id)
