@classmethod
def set_node_instance(cls, node: 'Node'):
    """
        Sets the node instance in the node store

        Args:
            node:

        Returns:
            None
        """
    cls.store[node.id] = node
