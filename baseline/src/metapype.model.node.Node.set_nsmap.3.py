def set_nsmap(self, nsmap: dict, children: bool=True):
    self.nsmap = nsmap
    if children:
        for child in self.children:
            child.set_nsmap(nsmap, children)
