def shift(self, child, direction: Shift, sib: bool=True):
    """
        Shifts a child's position either left or right of its current position
        or not at all if already at local edge

        Args:
            child: Node to be swapped
            direction: shift (LEFT, RIGHT)
            sib: shift only within same sibling type

        Returns:
            int of new index location or same if no change
        """
    index = self._children.index(child)
    name = self._children[index].name
    if direction == Shift.RIGHT:
        if sib:
            for sib_index in range(index + 1, len(self._children)):
                if self._children[sib_index].name == name:
                    self.children[index], self.children[sib_index] = (self.children[sib_index], self.children[index])
                    index = sib_index
                    break
        elif index < len(self._children) - 1:
            self.children[index], self.children[index + 1] = (self.children[index + 1], self.children[index])
            index = index + 1
    elif direction == Shift.LEFT:
        if sib:
            for sib_index in range(index - 1, -1, -1):
                if self._children[sib_index].name == name:
                    self.children[index], self.children[sib_index] = (self.children[sib_index], self.children[index])
                    index = sib_index
                    break
        elif index > 0:
            self.children[index], self.children[index - 1] = (self.children[index - 1], self.children[index])
            index = index - 1
    else:
        msg = 'Expected direction to be either Shift.RIGHT or Shift.LEFT'
        raise ValueError(msg)
    return index
