@property
def tail(self) -> str:
    return self._tail
