@tail.setter
def tail(self, content: str):
    self._tail = content
