def normalize(content: str, is_xml: bool=False) -> str:
    """
    Normalize whitespace within a string, including replacement of non-breaking space characters
    :param content: String content to be normalized
    :param is_xml: Boolean to indicate if content is XML
    :return: Normalized content as a unicode string
    """
    if is_xml:
        xslt = etree.XSLT(etree.XML(normalize_whitespace))
        normalized = str(xslt(etree.XML(content.replace('\xa0', ' ').encode('utf-8'))))
    else:
        words = content.replace('\xa0', ' ').split(' ')
        normalized = ' '.join([word.strip() for word in words if word.strip() != ''])
    return normalized
