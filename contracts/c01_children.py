"""C01: child-sequence validation equals the rule's content model (per concrete rule; child sequence symbolic, unbounded).

Ghost state: the runs st_lo(i), st_hi(i) of the minimal DFAs of L_lo / L_hi (contracts/rulelang.py) over the node's child-name
sequence.  Loop invariants of the two matcher loops are finite tables {abstract counters -> allowed DFA state pairs}; the
tables are inferred (native traces + counterexample-guided completion) and then *checked* as inductive invariants here."""
import z3
from pyvc import smt
from pyvc.smt import Val, I, B
from pyvc.task import Contract, LoopC
from pyvc.values import *
from pyvc.core import obj_term
from .prelude import *
from .rules_common import *
from . import rulelang as RL

Q_VCH = "metapype.eml.rule:Rule._validate_children"
Q_CHOICE = "metapype.eml.rule:Rule._validate_choice"
Q_ITEM = "metapype.eml.rule:Rule._validate_rule_child"
Q_SEQ = "metapype.eml.rule:Rule._validate_sequence"


def cap_of(m, M):
    return max(m or 0, M or 0) + 1


def sat(v, cap):
    return v if v <= cap else cap + 1


class Spec:
    """everything the contract of one rule needs"""

    def __init__(self, rule_name, children, mixed):
        self.rule_name, self.children, self.mixed = rule_name, children, mixed
        self.ast = RL.parse(children, mixed)
        self.dlo = RL.to_dfa(self.ast, False)
        self.dhi = RL.to_dfa(self.ast, True)
        self.alphabet = self.dlo.alphabet            # rule names (sorted) + OTHER
        assert self.alphabet == self.dhi.alphabet
        self.sym_index = {a: i for i, a in enumerate(self.alphabet)}
        self.other = self.sym_index[RL.OTHER]
        tag = rule_name
        self.ST_LO = z3.Function("st_lo_" + tag, I, I)
        self.ST_HI = z3.Function("st_hi_" + tag, I, I)
        self.D_LO = z3.Function("delta_lo_" + tag, I, I, I)
        self.D_HI = z3.Function("delta_hi_" + tag, I, I, I)
        # caps of every fragment, by path
        self.caps = {}
        self._symcache = {}
        self._walk(children, ())

    def _walk(self, x, path):
        if isinstance(x, list) and x:
            if isinstance(x[0], str):
                self.caps[path] = cap_of(x[1], x[2])
            else:
                if len(x) >= 3 and isinstance(x[-2], int) and not isinstance(x[-1], list):
                    self.caps[path] = cap_of(x[-2], x[-1])
                for i, y in enumerate(x):
                    if isinstance(y, list):
                        self._walk(y, path + (i,))

    # ---- ghost word -------------------------------------------------------------------------------------------------
    def sym(self, s0, node, j):
        if not z3.is_expr(j):
            j = z3.IntVal(j)
        ck = (s0.arr("F:_name").get_id(), s0.arr("lelem").get_id(), s0.arr("F:_children").get_id(), node.get_id(), j.get_id())
        hit = self._symcache.get(ck)
        if hit is not None:
            return hit[0]
        t = self._sym(s0, node, j)
        self._symcache[ck] = (t, s0.arr("F:_name"), s0.arr("lelem"), s0.arr("F:_children"), node, j)
        return t

    def _sym(self, s0, node, j):
        nm = s0.name(s0.kid(node, j))
        t = z3.IntVal(self.other)
        for a, i in self.sym_index.items():
            if a != RL.OTHER:
                t = z3.If(nm == z3.StringVal(a), i, t)
        return t

    def delta_axioms(self):
        if getattr(self, "_delta_ax", None) is not None:
            return self._delta_ax
        out = []
        self._delta_ax = out
        for (D, dfa) in ((self.D_LO, self.dlo), (self.D_HI, self.dhi)):
            for st, row in enumerate(dfa.delta):
                for a, t in row.items():
                    out.append(D(st, self.sym_index[a]) == t)
        return out

    def step(self, s0, node, i):
        """ghost step at index i (instance of the run's defining equation)"""
        n = s0.nkids(node)
        sy = self.sym(s0, node, i)
        return z3.Implies(z3.And(0 <= i, i < n),
                          z3.And(self.ST_LO(i + 1) == self.D_LO(self.ST_LO(i), sy), self.ST_HI(i + 1) == self.D_HI(self.ST_HI(i), sy)))

    def dead_lemma(self, s0, node):
        """L-dead: once dead, always dead (proved per DFA as the ground facts delta(dead, a) = dead, see prove_dead)"""
        i, j = z3.Ints("ld_i ld_j")
        n = s0.nkids(node)
        return z3.And(
            smt.FA([i, j], z3.Implies(z3.And(0 <= i, i <= j, j <= n, self.ST_LO(i) == self.dlo.dead), self.ST_LO(j) == self.dlo.dead),
                   patterns=[z3.MultiPattern(self.ST_LO(i), self.ST_LO(j))]),
            smt.FA([i, j], z3.Implies(z3.And(0 <= i, i <= j, j <= n, self.ST_HI(i) == self.dhi.dead), self.ST_HI(j) == self.dhi.dead),
                   patterns=[z3.MultiPattern(self.ST_HI(i), self.ST_HI(j))]))

    def acc_lo(self, t):
        return smt.disj([t == q for q in sorted(self.dlo.accepting)])

    def acc_hi(self, t):
        return smt.disj([t == q for q in sorted(self.dhi.accepting)])

    def range_axiom(self):
        i = z3.Int("ra_i")
        return z3.And(smt.FA([i], z3.And(0 <= self.ST_LO(i), self.ST_LO(i) < self.dlo.n), patterns=[self.ST_LO(i)]),
                      smt.FA([i], z3.And(0 <= self.ST_HI(i), self.ST_HI(i) < self.dhi.n), patterns=[self.ST_HI(i)]))


def install(w, spec, table, collecting):
    """table: {('item'|'choice', path, limit_max, enc_paths): set of (counter_abs, enc_abs tuple, st_lo, st_hi, lookahead)}
    lookahead: alphabet index of the child name at the cursor, or -1 at the end of the sequence"""
    from metapype.eml.exceptions import ChildNotAllowedError, MinOccurrenceUnmetError, MaxOccurrenceExceededError
    from metapype.eml.validation_errors import ValidationError as VE
    import metapype.eml.rule as rule_mod
    sp = spec
    CODES = (VE.CHILD_NOT_ALLOWED, VE.MIN_OCCURRENCE_UNMET, VE.MAX_OCCURRENCE_EXCEEDED, VE.MIN_CHOICE_UNMET, VE.MAX_CHOICE_EXCEEDED)

    def n_of(s0, node):
        return s0.nkids(node)

    def requires(s, self, node, is_mixed_content, errs):
        mixed_ok = (is_mixed_content == sp.mixed) if isinstance(is_mixed_content, bool) else (is_mixed_content == z3.BoolVal(sp.mixed))
        return {"not-metadata": s.name(node) != z3.StringVal("metadata"), "mixed-flag-as-specified": mixed_ok}

    def axioms(s, self, node, is_mixed_content, errs):
        d = {"init": z3.And(sp.ST_LO(0) == sp.dlo.init, sp.ST_HI(0) == sp.dhi.init), "dead": sp.dead_lemma(s, node), "range": sp.range_axiom()}
        if getattr(sp, "_delta_conj", None) is None:
            sp._delta_conj = z3.And(*sp.delta_axioms())
        d["delta"] = sp._delta_conj
        return d

    def rejected(s0, node):
        return z3.Not(sp.acc_lo(sp.ST_LO(n_of(s0, node))))

    def accepted(s0, node):
        return sp.acc_hi(sp.ST_HI(n_of(s0, node)))

    def ensures(s0, s, self, node, is_mixed_content, errs, result=None):
        from .tree import no_new_nodes
        cl = {"no-new-nodes": no_new_nodes(s0, s)}
        if errs is None:
            cl["top:accepted-implies-in-language"] = accepted(s0, node)
        else:
            j = z3.Int("c1_j")
            n0 = s0.len(errs)
            codes = smt.disj([smt.TITEM(Val.tid(s.at(errs, j)), 0) == obj_term(m) for m in CODES])
            cl["top:accepted-implies-in-language"] = z3.Implies(s.len(errs) == n0, accepted(s0, node))
            cl["top:reported-implies-not-in-language"] = z3.Implies(s.len(errs) != n0, rejected(s0, node))
            if sp.dlo.delta == sp.dhi.delta and sp.dlo.accepting == sp.dhi.accepting:
                # L_lo = L_hi for this rule: acceptance is pinned down exactly (what mode agreement in C04 builds on)
                cl["top:accepted-iff-in-language"] = (s.len(errs) == n0) == sp.acc_lo(sp.ST_LO(n_of(s0, node)))
            cl["top:only-appends"] = z3.And(s.len(errs) >= n0, smt.FA([j], z3.Implies(z3.And(0 <= j, j < n0), s.at(errs, j) == s0.at(errs, j)),
                                                                      patterns=[s.at(errs, j)]))
            cl["top:only-child-errors"] = smt.FA([j], z3.Implies(z3.And(n0 <= j, j < s.len(errs)),
                                                                 z3.And(Val.is_tupv(s.at(errs, j)), codes, smt.TITEM(Val.tid(s.at(errs, j)), 2) == Val.ref(node))),
                                                 patterns=[s.at(errs, j)])
        return cl

    def raise_cond(s, self, node, is_mixed_content, errs):
        if errs is not None:
            return z3.BoolVal(False)
        return rejected(s, node)

    # ---- shared invariant pieces ----------------------------------------------------------------------------------------
    _cache = {}

    def cached(tag, terms, build):
        key = (tag,) + tuple(t.get_id() if z3.is_expr(t) else t for t in terms)
        hit = _cache.get(key)
        if hit is None:
            if len(_cache) > 20000:
                _cache.clear()
            hit = (build(), terms)      # the terms are kept alive so that their ids stay valid
            _cache[key] = hit
        return hit[0]

    def names_inv(s0, s, L, node, upto=None):
        return cached("names", (s.arr("llen"), s.arr("lelem"), s0.arr("F:_name"), s0.arr("lelem"), s0.arr("F:_children"), s0.arr("llen"), L, node,
                                upto if upto is not None else 0, upto is None), lambda: _names_inv(s0, s, L, node, upto))

    def _names_inv(s0, s, L, node, upto=None):
        j = z3.Int("nm_j")
        n = n_of(s0, node) if upto is None else upto
        return z3.And(s.len(L) == n, kind(L) == KIND_LIST,
                      smt.FA([j], z3.Implies(z3.And(0 <= j, j < n), s.at(L, j) == Val.strv(s0.name(s0.kid(node, j)))), patterns=[s.at(L, j)]))

    def err_part(s0, s, errs, node, clean):
        """collecting mode: either nothing reported yet and `clean` holds, or the rejection is already justified"""
        if errs is None:
            return {"verdict": clean}
        n0 = s0.len(errs)
        j = z3.Int("ep_j")
        codes = smt.disj([smt.TITEM(Val.tid(s.at(errs, j)), 0) == obj_term(m) for m in CODES])
        return {
            "errs-len": s.len(errs) >= n0,
            "errs-kept": smt.FA([j], z3.Implies(z3.And(0 <= j, j < n0), s.at(errs, j) == s0.at(errs, j)), patterns=[s.at(errs, j)]),
            "errs-entries": smt.FA([j], z3.Implies(z3.And(n0 <= j, j < s.len(errs)),
                                                   z3.And(Val.is_tupv(s.at(errs, j)), codes, smt.TITEM(Val.tid(s.at(errs, j)), 2) == Val.ref(node))),
                                   patterns=[s.at(errs, j)]),
            "verdict": z3.Or(z3.And(s.len(errs) == n0, clean), z3.And(s.len(errs) > n0, rejected(s0, node))),
        }

    def errs_of(v):
        return None if v.raw("errs") is None else v.errs

    # ---- _validate_children: loop 1 collects the names, loop 2 looks for names the rule does not know
    def l1_inv(s0, s, v):
        L = v.self._node_children_names
        node = v.node
        return {"names": names_inv(s0, s, L, node, upto=v._k), "bound": v._k <= n_of(s0, node), "fresh": L >= s0.top,
                "errs-unchanged": z3.BoolVal(True) if errs_of(v) is None else z3.And(s.len(v.errs) == s0.len(v.errs), s.elems(v.errs) == s0.elems(v.errs))}

    def l2_inv(s0, s, v):
        L = v.self._node_children_names
        node = v.node
        j = z3.Int("l2_j")
        clean = smt.FA([j], z3.Implies(z3.And(0 <= j, j < v._k), sp.sym(s0, node, j) != sp.other), patterns=[s0.at(s0.kids(node), j)])
        d = {"names": names_inv(s0, s, L, node), "fresh": L >= s0.top, "bound": v._k <= n_of(s0, node)}
        d.update(err_part(s0, s, errs_of(v), node, clean))
        return d

    def l2_axioms(s0, s, v):
        return {"step": sp.step(s0, v.node, v._k)}

    # ---- matcher loops: table invariants -------------------------------------------------------------------------------
    def paths_of(ip, self_obj):
        cache = getattr(ip, "_c01_paths", None)
        if cache is None:
            cache = {}

            def walk(x, path):
                cache[id(x)] = path
                if isinstance(x, PList) and x.ref is None:
                    for i, y in enumerate(x.items):
                        if isinstance(y, PList):
                            walk(y, path + (i,))
            walk(self_obj.fields["_children"], ())
            ip._c01_paths = cache
        return cache

    def context(ip, include_self=False):
        """_validate_choice frames on the stack, outermost first: [(path, counter value)] (the current frame only on request)"""
        enc = []
        frames = ip.frames if include_self else ip.frames[:-1]
        for fr in frames:
            if fr.qual == Q_CHOICE and "choice_occurrence" in fr.locals:
                paths = paths_of(ip, fr.locals["self"])
                enc.append((paths.get(id(fr.locals["rule_children"])), fr.locals["choice_occurrence"]))
        return enc

    def absmatch(term, absval, cap):
        if isinstance(term, int):
            return z3.BoolVal(sat(term, cap) == absval)
        return (term == absval) if absval <= cap else (term >= cap + 1)

    templates = {}

    def template(key, entries, path, enc_paths):
        """the table of one cut point as a formula over placeholder constants (built once, instantiated by substitution)"""
        hit = templates.get(key)
        if hit is not None:
            return hit
        CNT = z3.Int("ph_cnt")
        ENC = [z3.Int(f"ph_enc{i}") for i in range(len(enc_paths))]
        SLO, SHI, LA = z3.Ints("ph_slo ph_shi ph_la")
        universe = set(range(len(sp.alphabet))) | {-1}
        groups = {}
        for (cabs, eabs, slo, shi, la) in entries:
            groups.setdefault((cabs, eabs), {}).setdefault((slo, shi), set()).add(la)
        alts = []
        for (cabs, eabs), sts in sorted(groups.items()):
            conj = [absmatch(CNT, cabs, sp.caps.get(path, 1))]
            for t, a, p in zip(ENC, eabs, enc_paths):
                conj.append(absmatch(t, a, sp.caps.get(p, 1)))
            st_alts = []
            for (slo, shi), las in sorted(sts.items()):
                comp = universe - las
                if not comp:
                    la_ok = z3.BoolVal(True)
                elif len(las) <= len(comp):
                    la_ok = smt.disj([LA == x for x in sorted(las)])
                else:
                    la_ok = z3.And(*[LA != x for x in sorted(comp)])
                st_alts.append(z3.And(SLO == slo, SHI == shi, la_ok))
            conj.append(smt.disj(st_alts))
            alts.append(z3.And(*conj))
        res = (smt.disj(alts), [CNT] + ENC + [SLO, SHI, LA])
        templates[key] = res
        return res

    def term_of(x):
        if isinstance(x, Sym):
            return x.t
        return z3.IntVal(x) if isinstance(x, int) else x

    def no_foreign(s0, node):
        return cached("nf", (s0.arr("F:_name"), s0.arr("lelem"), s0.arr("F:_children"), s0.arr("llen"), node), lambda: _no_foreign(s0, node))

    def _no_foreign(s0, node):
        j = z3.Int("nf_j")
        return smt.FA([j], z3.Implies(z3.And(0 <= j, j < n_of(s0, node)), sp.sym(s0, node, j) != sp.other), patterns=[s0.at(s0.kids(node), j)])

    def config_inv(ip, s0, s, key, path, enc_paths, cnt, enc_vals, self_obj, errs_val):
        """names list intact, cursor in range, and either nothing reported yet and the (counters, DFA state, look-ahead)
        configuration is one of the table's, or the rejection is already justified"""
        from pyvc.loops import spec_value
        node = self_obj.fields["_node"].t
        L = spec_value(ip, self_obj.fields["_node_children_names"])
        cur = term_of(self_obj.fields["_node_index"])
        n = n_of(s0, node)
        entries = sorted(table.get(key, ()))
        la_term = z3.If(cur < n, sp.sym(s0, node, cur), -1)
        tmpl, ph = template(key, entries, path, enc_paths)
        actual = [term_of(cnt)] + [term_of(t) for t in enc_vals] + [sp.ST_LO(cur), sp.ST_HI(cur), la_term]
        tab = z3.substitute(tmpl, *zip(ph, actual))
        errs = None if errs_val is None else (errs_val.t if isinstance(errs_val, Sym) else spec_value(ip, errs_val))
        d = {"names": names_inv(s0, s, L, node), "fresh": L >= s0.top,
             "bounds": z3.And(0 <= cur, cur <= n, term_of(cnt) >= 0, *[term_of(t) >= 0 for t in enc_vals])}
        d.update(err_part(s0, s, errs, node, z3.And(tab, no_foreign(s0, node))))
        return d

    def make_loop(ip, cut):
        fr = ip.frames[-1]
        self_obj = fr.locals["self"]
        paths = paths_of(ip, self_obj)
        frag = fr.locals["rule_child" if cut == "item" else "rule_children"]
        path = paths.get(id(frag))
        limit_max = bool(fr.locals["limit_max"]) if cut == "item" else None
        enc_paths = tuple(p for p, _ in context(ip))
        key = (cut, path, limit_max, enc_paths)
        cname = "occurrence" if cut == "item" else "choice_occurrence"
        node = self_obj.fields["_node"].t

        def inv(s0, s, v):
            enc_vals = [t for _, t in context(ip)]
            d = config_inv(ip, s0, s, key, path, enc_paths, fr.locals[cname], enc_vals, self_obj, fr.locals.get("errs"))
            if cut == "item":
                d["count"] = v.self._node_index == v.c_in + getattr(v, cname)
            return d

        def axioms(s0, s, v):
            return {"step": sp.step(s0, node, v.self._node_index)}

        def decreases(s0, s, v):
            return n_of(s0, node) - v.self._node_index

        lc = LoopC(inv=inv, axioms=axioms, ghost={"c_in": lambda s, v: v.self._node_index},
                   decreases=decreases if cut == "item" else None, fields=(("self", "_node_index"),),
                   arrays=("llen", "lelem") if collecting else ())
        sub = f"{cut}{'/'.join(map(str, path)) if path is not None else '?'}{'L' if limit_max else ''}@{'|'.join('/'.join(map(str, p)) for p in enc_paths)}"
        return sub, lc

    def make_merge(ip, cut, idx):
        from pyvc.task import MergeC
        from pyvc.core import arr_sort
        fr = ip.frames[-1]
        self_obj = fr.locals["self"]
        paths = paths_of(ip, self_obj)
        path = paths.get(id(fr.locals["rule_children"]))
        ctx = context(ip, include_self=(cut == "alt"))
        enc_paths = tuple(p for p, _ in ctx)
        key = (cut, path, idx, enc_paths)

        def inv(s0, s, ip2):
            enc_vals = [t for _, t in context(ip2, include_self=(cut == "alt"))]
            return config_inv(ip2, s0, s, key, path, enc_paths, 0, enc_vals, self_obj, fr.locals.get("errs"))

        def havoc(ip2):
            c = ip2.c
            self_obj.fields["_node_index"] = Sym(c.fresh("cursor", I), "int")
            for f2 in ip2.frames:
                if f2.qual == Q_CHOICE and "choice_occurrence" in f2.locals:
                    f2.locals["choice_occurrence"] = Sym(c.fresh("choice_occurrence", I), "int")
            if collecting:
                for a in ("llen", "lelem"):
                    c.heap.set(a, c.fresh("mg_" + a, arr_sort(a)))

        sub = f"{cut}{'/'.join(map(str, path)) if path is not None else '?'}#{idx}@{'|'.join('/'.join(map(str, p)) for p in enc_paths)}"
        return sub, MergeC(inv, havoc)

    w.merge_factories[(Q_SEQ, 1)] = lambda ip, i: make_merge(ip, "seq", i)
    w.merge_factories[(Q_CHOICE, 2)] = lambda ip, i: make_merge(ip, "alt", i)
    w.loop_factories[(Q_ITEM, 1)] = lambda ip: make_loop(ip, "item")
    w.loop_factories[(Q_CHOICE, 1)] = lambda ip: make_loop(ip, "choice")
    w.loop(Q_VCH, 1, inv=l1_inv, arrays=("llen", "lelem"))
    w.loop(Q_VCH, 2, inv=l2_inv, axioms=l2_axioms, arrays=("llen", "lelem") if collecting else ())

    con = Contract(Q_VCH, params={"self": make_rule(sp.rule_name, reused=True), "node": "Node", "is_mixed_content": ("const", sp.mixed)},
                   requires=requires, axioms=axioms, ensures=ensures,
                   raises=[(ChildNotAllowedError, raise_cond, None), (MinOccurrenceUnmetError, raise_cond, None), (MaxOccurrenceExceededError, raise_cond, None)],
                   writes=("llen", "lelem"),
                   mods={"llen": lambda s0, r, errs, **kw: (r == errs) if errs is not None else z3.BoolVal(False),
                         "lelem": lambda s0, r, errs, **kw: (r == errs) if errs is not None else z3.BoolVal(False)},
                   mod=lambda s0, r, **kw: z3.BoolVal(False), allocates=True, result_ty="none", modular=False,
                   assumptions=("T-unfold(DFA run st_lo/st_hi: step instances at the cursor)", "L-dead (absorbing dead state; ground-checked per DFA)"))
    con.accept = lambda s, node: sp.acc_lo(sp.ST_LO(s.nkids(node)))
    con.entry_axioms = axioms
    return con


def install_metadata(w, rule_name, mixed, collecting):
    """the documented exception: a parent named `metadata` accepts any single child or none (C05)"""
    from metapype.eml.exceptions import MaxOccurrenceExceededError
    from metapype.eml.validation_errors import ValidationError as VE

    def requires(s, self, node, is_mixed_content, errs):
        return {"is-metadata": s.name(node) == z3.StringVal("metadata")}

    def ok(s, node):
        return s.nkids(node) <= 1

    def ensures(s0, s, self, node, is_mixed_content, errs, result=None):
        from .tree import no_new_nodes
        if errs is None:
            return {"top:at-most-one-child": ok(s0, node), "no-new-nodes": no_new_nodes(s0, s)}
        j = z3.Int("md_j")
        n0 = s0.len(errs)
        e = s.at(errs, n0)
        return {"no-new-nodes": no_new_nodes(s0, s), "top:one-error-iff-more-than-one-child": s.len(errs) == n0 + z3.If(ok(s0, node), 0, 1),
                "top:only-appends": smt.FA([j], z3.Implies(z3.And(0 <= j, j < n0), s.at(errs, j) == s0.at(errs, j)), patterns=[s.at(errs, j)]),
                "top:entry": z3.Implies(z3.Not(ok(s0, node)), z3.And(Val.is_tupv(e), smt.TITEM(Val.tid(e), 0) == obj_term(VE.MAX_OCCURRENCE_EXCEEDED),
                                                                    smt.TITEM(Val.tid(e), 2) == Val.ref(node)))}

    def raise_cond(s, self, node, is_mixed_content, errs):
        if errs is not None:
            return z3.BoolVal(False)
        return z3.Not(ok(s, node))

    con = Contract(Q_VCH, params={"self": make_rule(rule_name), "node": "Node", "is_mixed_content": ("const", mixed)},
                   requires=requires, ensures=ensures, raises=[(MaxOccurrenceExceededError, raise_cond, None)], writes=("llen", "lelem"),
                   mods={"llen": lambda s0, r, errs, **kw: (r == errs) if errs is not None else z3.BoolVal(False),
                         "lelem": lambda s0, r, errs, **kw: (r == errs) if errs is not None else z3.BoolVal(False)},
                   mod=lambda s0, r, **kw: z3.BoolVal(False), allocates=True, result_ty="none", modular=False)
    con.accept = ok
    return con
