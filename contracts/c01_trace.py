"""Native tracer of the greedy matcher: observes the two cut points (the `while` heads of Rule._validate_choice and
Rule._validate_rule_child) on concrete child sequences, to *seed* the invariant tables.  Nothing observed here is trusted:
the tables are only candidates that the verifier then checks as inductive invariants."""
import ast
import inspect
import logging
import sys

from metapype.model.node import Node
import metapype.eml.rule as rule_mod


def _while_header_lines(func):
    src = inspect.getsource(func)
    tree = ast.parse("if 1:\n" + src) if src.startswith(" ") else ast.parse(src)
    base = func.__code__.co_firstlineno
    f = next(n for n in ast.walk(tree) if isinstance(n, ast.FunctionDef))
    off = base - f.lineno + (0)
    # decorators: co_firstlineno points at the first decorator
    first = min([f.lineno] + [d.lineno for d in f.decorator_list])
    off = base - first
    w = next(n for n in ast.walk(f) if isinstance(n, ast.While))
    return (w.lineno + off, w.test.end_lineno + off, w.body[0].lineno + off)


def _for_body_first_line(func, which=0):
    """line number of the first body statement of the which-th `for` loop of func (in source order)"""
    src = inspect.getsource(func)
    import textwrap
    tree = ast.parse(textwrap.dedent(src))
    f = next(n for n in ast.walk(tree) if isinstance(n, ast.FunctionDef))
    first = min([f.lineno] + [d.lineno for d in f.decorator_list])
    off = func.__code__.co_firstlineno - first
    fors = [n for n in ast.walk(f) if isinstance(n, ast.For)]
    fors.sort(key=lambda n: n.lineno)
    return fors[which].body[0].lineno + off


def fragment_paths(children):
    """id(list object) -> path of the fragment inside the rule's children section"""
    out = {}

    def walk(x, path):
        out[id(x)] = path
        if isinstance(x, list):
            for i, y in enumerate(x):
                if isinstance(y, list):
                    walk(y, path + (i,))
    walk(children, ())
    return out


class Tracer:
    def __init__(self, rule_name):
        logging.disable(logging.CRITICAL)
        self.rule = rule_mod.Rule(rule_name)
        self.paths = fragment_paths(self.rule._children)
        R = rule_mod.Rule
        self.code_choice = R._validate_choice.__code__
        self.code_item = R._validate_rule_child.__code__
        self.hdr = {self.code_choice: _while_header_lines(R._validate_choice), self.code_item: _while_header_lines(R._validate_rule_child)}
        self.code_seq = R._validate_sequence.__code__
        self.merge_line = {self.code_seq: _for_body_first_line(R._validate_sequence, 0), self.code_choice: _for_body_first_line(R._validate_choice, 0)}
        self.obs = []
        # locals of the matcher that the observations read, under their current names (pyvc.alpha: pure renamings are followed)
        from pyvc import alpha
        self.occ_name = alpha.current_names(R._validate_rule_child).get("occurrence", "occurrence")
        self.cocc_name = alpha.current_names(R._validate_choice).get("choice_occurrence", "choice_occurrence")
        self.seq_child_name = alpha.current_names(R._validate_sequence).get("rule_child", "rule_child")
        self.alt_child_name = alpha.current_names(R._validate_choice).get("rule_child", "rule_child")

    def run(self, word, mixed, collecting):
        Node.store.clear()
        n = Node("x")
        for nm in word:
            c = Node(nm)
            n.children.append(c)
            c.parent = n
        errs = [] if collecting else None
        r = self.rule
        state = {"inhdr": {}}
        me = self

        def local(frame, event, arg):
            if event != "line":
                return local
            ml = me.merge_line.get(frame.f_code)
            if ml is not None and frame.f_lineno == ml:
                me.observe_merge(frame, word, errs)
            if frame.f_code not in me.hdr:
                return local
            lo, hi, _ = me.hdr[frame.f_code]
            inh = lo <= frame.f_lineno <= hi
            was = state["inhdr"].get(id(frame), False)
            state["inhdr"][id(frame)] = inh
            if inh and not was:
                me.observe(frame, word, errs)
            return local

        def glob(frame, event, arg):
            if event == "call" and (frame.f_code in me.hdr or frame.f_code in me.merge_line):
                state["inhdr"][id(frame)] = False
                return local
            return None

        outcome = "ok"
        sys.settrace(glob)
        try:
            r._validate_children(n, mixed, errs)
        except Exception as ex:  # noqa
            outcome = type(ex).__name__
        finally:
            sys.settrace(None)
        return outcome, (len(errs) if errs is not None else None)

    def observe_merge(self, frame, word, errs):
        loc = frame.f_locals
        rc = loc["rule_children"]
        is_alt = frame.f_code is self.code_choice
        child = loc[self.alt_child_name if is_alt else self.seq_child_name]
        idx = next(i for i, x in enumerate(rc) if x is child)
        rec = {"cut": "alt" if is_alt else "seq", "path": self.paths.get(id(rc)), "limit_max": idx, "counter": 0,
               "enclosing": self.context_of(frame, include_self=is_alt), "cursor": loc["self"]._node_index, "err": bool(errs), "word": tuple(word)}
        self.obs.append(rec)

    def context_of(self, frame, include_self=False):
        """enclosing _validate_choice frames, outermost first: ((path, choice_occurrence), ...)"""
        enc = []
        f = frame if include_self else frame.f_back
        while f is not None:
            if f.f_code is self.code_choice:
                enc.append((self.paths.get(id(f.f_locals["rule_children"])), f.f_locals[self.cocc_name]))
            f = f.f_back
        return tuple(reversed(enc))

    def observe(self, frame, word, errs):
        loc = frame.f_locals
        r = loc["self"]
        if frame.f_code is self.code_item:
            rec = {"cut": "item", "path": self.paths.get(id(loc["rule_child"])), "limit_max": bool(loc["limit_max"]), "counter": loc[self.occ_name]}
        else:
            rec = {"cut": "choice", "path": self.paths.get(id(loc["rule_children"])), "limit_max": None, "counter": loc[self.cocc_name]}
        rec["enclosing"] = self.context_of(frame)
        rec["cursor"] = r._node_index
        rec["err"] = bool(errs)
        rec["word"] = tuple(word)
        self.obs.append(rec)
