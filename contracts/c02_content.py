"""C02: content validation decides exactly as the rule's content constraints require (per concrete rule)."""
import z3
from pyvc import smt, strings
from pyvc.smt import Val, I, B
from pyvc.task import Contract
from pyvc.core import obj_term
from .prelude import *
from .rules_common import *
from . import externals as X

Q_VC = "metapype.eml.rule:Rule._validate_content"
IMPLEMENTED = ("emptyContent", "floatContent", "floatRangeContent_EW", "floatRangeContent_NS", "floatContent_Nonnegative",
               "intContent", "nonEmptyContent", "strContent", "timeContent", "uriContent", "yearDateContent", "anyContent")


def ok_rule(kind, c, mixed, nkids):
    """the constraint named `kind` holds for content value c (Val: none | strv)"""
    isnone = c == Val.none
    cs = Val.s(c)
    k, x = X.FLOAT_K(cs), X.FLOAT_X(cs)
    if kind == "emptyContent":
        return isnone
    if kind == "anyContent":
        return z3.BoolVal(True)
    if kind == "floatContent":
        return z3.Or(isnone, X.FLOAT_OK(cs))
    if kind in ("floatRangeContent_EW", "floatRangeContent_NS"):
        lo, hi = (-180, 180) if kind.endswith("EW") else (-90, 90)
        return z3.Or(isnone, z3.And(X.FLOAT_OK(cs), k == 0, lo <= x, x <= hi))
    if kind == "floatContent_Nonnegative":
        return z3.Or(isnone, z3.And(X.FLOAT_OK(cs), z3.Or(z3.And(k == 0, x >= 0), k == 2)))
    if kind == "intContent":
        return z3.Or(isnone, z3.And(z3.Length(cs) > 0, X.INT_OK(cs)))
    if kind == "nonEmptyContent":
        return z3.Or(z3.And(z3.Not(isnone), z3.Length(cs) > 0), z3.And(mixed, nkids > 0))
    if kind == "strContent":
        return z3.Or(isnone, strings.U_ENCODABLE(cs))
    if kind == "timeContent":
        return z3.Or(isnone, z3.And(z3.Length(cs) > 0, X.ISOTIME_OK(cs)))
    if kind == "uriContent":
        return z3.Or(isnone, z3.And(strings.U_ENCODABLE(cs), X.URI_OK(cs)))
    if kind == "yearDateContent":
        return z3.Or(isnone, z3.And(z3.Length(cs) > 0, z3.Or(X.STRPTIME_OK(cs, z3.StringVal("%Y")), X.STRPTIME_OK(cs, z3.StringVal("%Y-%m-%d")))))
    return z3.BoolVal(False)    # a content-rule name the library does not implement is a rule error


def install(w, rule_name, content_spec):
    from metapype.eml.exceptions import MetapypeRuleError
    from metapype.eml.validation_errors import ValidationError as VE
    K = list(content_spec["content_rules"])
    enum = content_spec.get("content_enum")

    def accept(s, node, mixed):
        c = s.f("_content", node)
        cl = [ok_rule(k, c, mixed, s.nkids(node)) for k in K]
        if enum is not None:
            cl.append(smt.disj([c == Val.strv(z3.StringVal(e)) for e in enum if isinstance(e, str)] + [c == Val.none for e in enum if e is None]))
        return smt.conj(cl)

    def ensures(s0, s, self, node, is_mixed_content, errs, result=None):
        from .tree import no_new_nodes
        cl = {"no-new-nodes": no_new_nodes(s0, s)}
        if errs is None:
            cl["top:accepts-only-valid"] = accept(s0, node, is_mixed_content)
        else:
            j = z3.Int("c2_j")
            n0 = s0.len(errs)
            codes = smt.disj([smt.TITEM(Val.tid(s.at(errs, j)), 0) == obj_term(m) for m in VE])
            cl["top:empty-iff-valid"] = (s.len(errs) == n0) == accept(s0, node, is_mixed_content)
            cl["top:only-appends"] = z3.And(s.len(errs) >= n0, smt.FA([j], z3.Implies(z3.And(0 <= j, j < n0), s.at(errs, j) == s0.at(errs, j)),
                                                                      patterns=[s.at(errs, j)]))
            cl["top:entries"] = smt.FA([j], z3.Implies(z3.And(n0 <= j, j < s.len(errs)),
                                                       z3.And(Val.is_tupv(s.at(errs, j)), codes, smt.TITEM(Val.tid(s.at(errs, j)), 2) == Val.ref(node))),
                                       patterns=[s.at(errs, j)])
        return cl

    def raises_cond(s, self, node, is_mixed_content, errs):
        if errs is not None:
            return z3.BoolVal(False)
        return z3.Not(accept(s, node, is_mixed_content))

    con = Contract(Q_VC, params={"self": make_rule(rule_name), "node": "Node", "is_mixed_content": "bool"}, ensures=ensures,
                   raises=[(MetapypeRuleError, raises_cond, None)], writes=("llen", "lelem"),
                   mods={"llen": lambda s0, r, errs, **kw: (r == errs) if errs is not None else z3.BoolVal(False),
                         "lelem": lambda s0, r, errs, **kw: (r == errs) if errs is not None else z3.BoolVal(False)},
                   mod=lambda s0, r, **kw: z3.BoolVal(False), result_ty="none", modular=False)
    con.raises_subclasses = True
    con.accept = accept
    return con
