"""C03: attribute validation enforces exactly required / allowed / enumerated; introspection agrees."""
import z3
from pyvc import smt
from pyvc.smt import Val, I, B
from pyvc.task import Contract
from .prelude import *
from .rules_common import *
from pyvc.core import obj_term

Q_VA = "metapype.eml.rule:Rule._validate_attributes"
Q_REQ = "metapype.eml.rule:Rule.is_required_attribute"
Q_VALS = "metapype.eml.rule:Rule.allowed_attribute_values"

_AOK = z3.Function("attributes_ok", smt.ElemArr, smt.MapArr, I, B)  # ghost name for the acceptance condition (keeps client VCs quantifier free)
_CNTV = z3.Function("attr_violations_upto", smt.ElemArr, smt.MapArr, I, I)  # ghost: violated per-attribute constraints among the first k keys


def spec_table(A):
    """independent reading of the rule's attribute section: name -> (required, values or None)"""
    out = {}
    for name, spec in A.items():
        out[name] = (bool(spec[0]), list(spec[1:]) if len(spec) > 1 else None)
    return out


def viol_key(T, key, value):
    """a node attribute (key, value) violates the rule: unknown name, or enumerated with an unlisted value"""
    known = smt.disj([key == Val.strv(z3.StringVal(a)) for a in T])
    bad_enum = smt.disj([z3.And(key == Val.strv(z3.StringVal(a)), z3.And(*[value != Val.strv(z3.StringVal(v)) for v in vals]))
                         for a, (req, vals) in T.items() if vals is not None])
    return z3.Or(z3.Not(known), bad_enum)


def install(w, rule_name, A):
    T = spec_table(A)
    from metapype.eml.exceptions import MetapypeRuleError
    from metapype.eml.validation_errors import ValidationError as VE

    def attrs(s, node):
        return s.fr("_attributes", node)

    def missing_required(s, node):
        m = s.dmap(attrs(s, node))
        return [m[Val.strv(z3.StringVal(a))] == smt.absent for a, (req, vals) in T.items() if req]

    def v1(s, node):
        return z3.Sum([z3.If(c, 1, 0) for c in missing_required(s, node)] + [z3.IntVal(0)])

    def viol_at(s, node, j):
        d = attrs(s, node)
        k = s.dkey(d)[j]
        return viol_key(T, k, s.dmap(d)[k])

    def cntv(s, node, k):
        d = attrs(s, node)
        return _CNTV(s.dkey(d), s.dmap(d), k)

    def accept(s, node):
        j = z3.Int("acc_j")
        d = attrs(s, node)
        return z3.And(z3.Not(smt.disj(missing_required(s, node))),
                      smt.FA([j], z3.Implies(z3.And(0 <= j, j < s.dn(d)), z3.Not(viol_at(s, node, j))), patterns=[s.dkey(d)[j]]))

    def aok(s, node):
        d = attrs(s, node)
        return _AOK(s.dkey(d), s.dmap(d), s.dn(d))

    def requires(s, self, node, errs):
        return {"wf-attrs": s.dict_wf(attrs(s, node))}

    def axioms(s, self, node, errs):
        return {"cnt0": cntv(s, node, 0) == 0, "aok-def": aok(s, node) == accept(s, node)}

    def ensures(s0, s, self, node, errs, result=None):
        from .tree import no_new_nodes
        d = attrs(s0, node)
        cl = {"no-new-nodes": no_new_nodes(s0, s)}
        if errs is None:
            cl["top:accepts-only-valid"] = accept(s0, node)
            cl["named"] = aok(s0, node)
        else:
            n0 = s0.len(errs)
            total = v1(s0, node) + cntv(s0, node, s0.dn(d))
            j = z3.Int("en_j")
            cl["top:one-error-per-violation"] = s.len(errs) == n0 + total
            cl["count-nonneg"] = total >= 0
            cl["top:empty-iff-valid"] = (s.len(errs) == n0) == accept(s0, node)
            cl["named"] = (s.len(errs) == n0) == aok(s0, node)
            cl["top:earlier-entries-kept"] = smt.FA([j], z3.Implies(z3.And(0 <= j, j < n0), s.at(errs, j) == s0.at(errs, j)), patterns=[s.at(errs, j)])
            cl["top:entries-are-attribute-errors"] = smt.FA([j], z3.Implies(z3.And(n0 <= j, j < s.len(errs)), good_entry(s, errs, j, node)),
                                                            patterns=[s.at(errs, j)])
        return cl

    codes = {}

    def good_entry(s, errs, j, node):
        e = s.at(errs, j)
        tid = Val.tid(e)
        ok_codes = [smt.TITEM(tid, 0) == obj_term(getattr(VE, m)) for m in ("ATTRIBUTE_REQUIRED", "ATTRIBUTE_UNRECOGNIZED", "ATTRIBUTE_EXPECTED_ENUM")]
        return z3.And(Val.is_tupv(e), smt.disj(ok_codes) if ok_codes else z3.BoolVal(True), smt.TITEM(tid, 2) == Val.ref(node))

    def loop2_inv(s0, s, v):
        node = v.node
        d = attrs(s0, node)
        j = z3.Int("l2_j")
        from .tree import no_new_nodes
        cl = {"bound": v._k <= s0.dn(d), "no-new-nodes": no_new_nodes(s0, s), "top": s.top >= s0.top,
              "cnt-nonneg": cntv(s0, node, v._k) >= 0,
              "cnt-zero-iff-clean": (cntv(s0, node, v._k) == 0) == smt.FA([j], z3.Implies(z3.And(0 <= j, j < v._k), z3.Not(viol_at(s0, node, j))),
                                                                           patterns=[s0.dkey(d)[j]])}
        if v.raw("errs") is None:
            cl["clean-so-far"] = z3.And(z3.Not(smt.disj(missing_required(s0, node))),
                                        smt.FA([j], z3.Implies(z3.And(0 <= j, j < v._k), z3.Not(viol_at(s0, node, j))), patterns=[s0.dkey(d)[j]]))
        else:
            errs = v.errs
            n0 = s0.len(errs)
            cl["len"] = s.len(errs) == n0 + v1(s0, node) + cntv(s0, node, v._k)
            cl["kept"] = smt.FA([j], z3.Implies(z3.And(0 <= j, j < n0), s.at(errs, j) == s0.at(errs, j)), patterns=[s.at(errs, j)])
            cl["entries"] = smt.FA([j], z3.Implies(z3.And(n0 <= j, j < s.len(errs)), good_entry(s, errs, j, node)), patterns=[s.at(errs, j)])
        return cl

    def loop2_axioms(s0, s, v):
        node = v.node
        return {"cnt-step": cntv(s0, node, v._k + 1) == cntv(s0, node, v._k) + z3.If(viol_at(s0, node, v._k), 1, 0)}

    def raises_cond(s, self, node, errs):
        if errs is not None:
            return z3.BoolVal(False)
        return z3.Not(aok(s, node)) if getattr(raises_cond, "named", False) else z3.Not(accept(s, node))

    con = Contract(Q_VA, params={"self": make_rule(rule_name), "node": "Node"}, requires=requires, axioms=axioms, ensures=ensures,
                   raises=[(MetapypeRuleError, raises_cond, None)], writes=("llen", "lelem"),
                   mods={"llen": lambda s0, r, self, node, errs: (r == errs) if errs is not None else z3.BoolVal(False),
                         "lelem": lambda s0, r, self, node, errs: (r == errs) if errs is not None else z3.BoolVal(False)},
                   mod=lambda s0, r, **kw: z3.BoolVal(False), result_ty="none", modular=False,
                   assumptions=("T-unfold(attr_violations_upto)",))
    w.loop(Q_VA, 2, inv=loop2_inv, axioms=loop2_axioms)
    con.accept = accept
    con.count = lambda s, node: v1(s, node) + cntv(s, node, s.dn(attrs(s, node)))
    con.accept_named = aok
    con.entry_axioms = axioms
    con.use_named = lambda: setattr(raises_cond, "named", True)

    # ---- introspection
    def req_ensures(s0, s, self, attribute, result):
        return {"top:same-as-enforced": z3.And(*[z3.Implies(attribute == z3.StringVal(a), result == Val.boolv(z3.BoolVal(req)))
                                                for a, (req, vals) in T.items()])}

    def unknown_attr(s, self, attribute):
        return z3.And(*[attribute != z3.StringVal(a) for a in T])

    con_req = Contract(Q_REQ, params={"self": make_rule(rule_name), "attribute": "str"}, ensures=req_ensures,
                       raises=[(Exception, unknown_attr, None)], result_ty="val", modular=False)

    def vals_ensures(s0, s, self, attribute, result):
        cl = []
        l = Val.r(result)
        for a, (req, vals) in T.items():
            vs = vals or []
            cl.append(z3.Implies(attribute == z3.StringVal(a),
                                 z3.And(s.len(l) == len(vs), *[s.at(l, i) == Val.strv(z3.StringVal(x)) for i, x in enumerate(vs)])))
        return {"top:same-as-enforced": z3.And(*cl) if cl else z3.BoolVal(True)}

    con_vals = Contract(Q_VALS, params={"self": make_rule(rule_name), "attribute": "str"}, ensures=vals_ensures,
                        raises=[(Exception, unknown_attr, None)], result_ty="list:val", allocates=True, modular=False)
    return con, con_req, con_vals
