"""C04/C05: validate_rule, validate.node and validate.tree (totality, mode agreement, tree = conjunction of nodes)."""
import z3
from pyvc import smt
from pyvc.smt import Val, I, B
from pyvc.task import Contract
from pyvc.core import obj_term
from .prelude import *
from .tree import *
from .rules_common import *
from .prelude import _CS
from . import c01_children, c02_content, c03_attrs, externals

Q_VR = "metapype.eml.rule:Rule.validate_rule"
Q_NODE = "metapype.eml.validate:node"
Q_TREE = "metapype.eml.validate:tree"

ERR_MODS = {"llen": lambda s0, r, errs, **kw: (r == errs) if errs is not None else z3.BoolVal(False),
            "lelem": lambda s0, r, errs, **kw: (r == errs) if errs is not None else z3.BoolVal(False)}


def good_entries(s0, s, errs, node_pred):
    """collecting-mode shape: only appended, earlier entries kept, every new entry a tuple (code, msg, node, ...)"""
    from metapype.eml.validation_errors import ValidationError as VE
    j = z3.Int("ge_j")
    n0 = s0.len(errs)
    e = s.at(errs, j)
    codes = smt.disj([smt.TITEM(Val.tid(e), 0) == obj_term(m) for m in VE])
    return {"top:only-appends": z3.And(s.len(errs) >= n0, smt.FA([j], z3.Implies(z3.And(0 <= j, j < n0), s.at(errs, j) == s0.at(errs, j)),
                                                                patterns=[s.at(errs, j)])),
            "top:entries-are-error-tuples": smt.FA([j], z3.Implies(z3.And(n0 <= j, j < s.len(errs)),
                                                                   z3.And(Val.is_tupv(e), codes, node_pred(smt.TITEM(Val.tid(e), 2)))),
                                                   patterns=[s.at(errs, j)])}


def install_rule(w, rule_name, rules, mixed_set, table, metadata):
    """contracts of the three validators as modular callees + the contract of validate_rule for this rule"""
    from metapype.eml.exceptions import MetapypeRuleError
    A, children, cspec = rules[rule_name]
    mixed = rule_name in mixed_set
    externals.install(w)
    cc = c02_content.install(w, rule_name, cspec)
    ca, _, _ = c03_attrs.install(w, rule_name, A)
    if metadata:
        ch = c01_children.install_metadata(w, rule_name, mixed, None)
        spec = None
    else:
        spec = c01_children.Spec(rule_name, children, mixed)
        ch = c01_children.install(w, spec, table, None)
    ca.use_named()      # clients see the attribute verdict as one ghost atom (attributes_ok), defined in C03's proof
    for c in (cc, ca, ch):
        c.modular = True
        w.add(c)

    def acc(s, node):
        return z3.And(cc.accept(s, node, z3.BoolVal(mixed)), ca.accept_named(s, node), ch.accept(s, node))

    def requires(s, self, node, errs):
        d = {"name": (s.name(node) == z3.StringVal("metadata")) if metadata else (s.name(node) != z3.StringVal("metadata")),
             "wf-attrs": s.dict_wf(s.fr("_attributes", node)), "schema": node_schema(s, node)}
        if errs is not None:
            d["errs-not-the-child-list"] = errs != s.kids(node)
        return d

    def axioms(s, self, node, errs):
        d = {}
        if not metadata:
            d.update(ch.entry_axioms(s, None, node, mixed, errs))
        return d

    def ensures(s0, s, self, node, errs, result=None):
        if errs is None:
            return {"no-new-nodes": no_new_nodes(s0, s), "top:returns-only-if-content-valid": cc.accept(s0, node, z3.BoolVal(mixed)),
                    "top:returns-only-if-attributes-valid": ca.accept_named(s0, node),
                    "top:returns-only-if-children-valid": ch.accept(s0, node)}
        d = {"top:empty-iff-failfast-succeeds": (s.len(errs) == s0.len(errs)) == acc(s0, node), "no-new-nodes": no_new_nodes(s0, s)}
        # every problem is appended: each of the three validators contributes all of its errors
        d["top:every-validator-reports"] = s.len(errs) >= s0.len(errs) + z3.If(cc.accept(s0, node, z3.BoolVal(mixed)), 0, 1) + ca.count(s0, node) + \
            z3.If(ch.accept(s0, node), 0, 1)
        d.update(good_entries(s0, s, errs, lambda t: t == Val.ref(node)))
        return d

    def raise_cond(s, self, node, errs):
        if errs is not None:
            return z3.BoolVal(False)
        return z3.Not(acc(s, node))

    con = Contract(Q_VR, params={"self": make_rule(rule_name), "node": "Node"}, requires=requires, axioms=axioms, ensures=ensures,
                   raises=[(MetapypeRuleError, raise_cond, None)], writes=("llen", "lelem"), mods=ERR_MODS,
                   mod=lambda s0, r, **kw: z3.BoolVal(False), allocates=True, result_ty="none", modular=True)
    con.raises_subclasses = True
    con.accept = acc
    con.entry_axioms = axioms
    w.add(con)
    return con


def install_node(w, vr_con, names_for_rule, all_names):
    """validate.node for nodes whose name maps to the rule of vr_con (names_for_rule), or for unknown names (vr_con None)"""
    from metapype.eml.exceptions import MetapypeRuleError, UnknownNodeError

    def name_in(s, n, names):
        return smt.disj([s.name(n) == z3.StringVal(x) for x in names])

    def requires(s, n, errs):
        d = {"wf-attrs": s.dict_wf(s.fr("_attributes", n)), "schema": node_schema(s, n)}
        if errs is not None:
            d["errs-not-the-child-list"] = errs != s.kids(n)
        if vr_con is None:
            d["unknown-name"] = z3.Not(name_in(s, n, all_names))
        else:
            d["name-maps-to-rule"] = name_in(s, n, names_for_rule)
        return d

    def axioms(s, n, errs):
        return vr_con.entry_axioms(s, None, n, errs) if vr_con is not None else {}

    def valid(s, n):
        return vr_con.accept(s, n) if vr_con is not None else z3.BoolVal(False)

    def ensures(s0, s, n, errs, result=None):
        if errs is None:
            return {"top:returns-only-if-valid": valid(s0, n), "no-new-nodes": no_new_nodes(s0, s)}
        d = {"top:empty-iff-failfast-succeeds": (s.len(errs) == s0.len(errs)) == valid(s0, n), "no-new-nodes": no_new_nodes(s0, s)}
        d.update(good_entries(s0, s, errs, lambda t: t == Val.ref(n)))
        return d

    def raise_cond(s, n, errs):
        if errs is not None:
            return z3.BoolVal(False)
        return z3.Not(valid(s, n))

    con = Contract(Q_NODE, params={"n": "Node"}, requires=requires, axioms=axioms, ensures=ensures,
                   raises=[(MetapypeRuleError, raise_cond, None)], writes=("llen", "lelem"), mods=ERR_MODS,
                   mod=lambda s0, r, **kw: z3.BoolVal(False), allocates=True, result_ty="none", modular=False)
    con.raises_subclasses = True
    return con


# ------------------------------------------------------------------------------------------------ validate.tree (C05)
_VALID = z3.Function("node_valid", *_CS, I, B)      # ghost: validate.node(n) succeeds in the (otherwise unchanged) heap
_NEC = z3.Function("node_error_count", *_CS, I, I)  # ghost: number of tuples validate.node(n, errs) appends
_ALLV = z3.Function("tree_valid", *_CS, I, B)
_ALLVK = z3.Function("tree_valid_first_children", *_CS, I, I, B)
_TEC = z3.Function("tree_error_count", *_CS, I, I)
_TECK = z3.Function("tree_error_count_first_children", *_CS, I, I, I)


_OWN = z3.Function("error_owner", *_CS, smt.FieldArr, I, I, I)        # ghost: the node that the p-th error of validate.tree(n) is about
_OWNK = z3.Function("error_owner_child", *_CS, smt.FieldArr, I, I, I)  # ghost witness: the child of n in whose block position p lies


def install_tree(w):
    """validate.node enters by its contract only (what C04 proves of it: total, rule errors only, modes agree, appends
    node_error_count tuples about n); validate.tree is verified against the recursive conjunction / concatenation."""
    from metapype.eml.exceptions import MetapypeRuleError
    VALID = lambda s, n: _VALID(*s.cs, n)
    NEC = lambda s, n: _NEC(*s.cs, n)
    ALLV = lambda s, n: _ALLV(*s.cs, n)
    ALLVK = lambda s, n, k: _ALLVK(*s.cs, n, k)
    TEC = lambda s, n: _TEC(*s.cs, n)
    TECK = lambda s, n, k: _TECK(*s.cs, n, k)
    is_md = lambda s, n: s.name(n) == z3.StringVal("metadata")
    OWN = lambda s, n, p: _OWN(*s.cs, s.arr("F:_name"), n, p)
    OWNK = lambda s, n, p: _OWNK(*s.cs, s.arr("F:_name"), n, p)

    def own_def(s, n):
        """T-unfold of error_owner at n: the first node_error_count(n) positions are about n itself; the block of child k (positions
        NEC(n)+TECK(n,k) .. NEC(n)+TECK(n,k+1)) repeats that child's own sequence.  The blocks tile [0, TEC(n)) because every TEC is >= 0."""
        p, k = z3.Ints("od_p od_k")
        ch = s.kid(n, k)
        start = NEC(s, n) + TECK(s, n, k)
        return z3.And(
            smt.FA([p], z3.Implies(z3.And(0 <= p, p < NEC(s, n)), OWN(s, n, p) == n), patterns=[OWN(s, n, p)]),
            smt.FA([k, p], z3.Implies(z3.And(0 <= k, k < s.nkids(n), z3.Not(is_md(s, n)), start <= p, p < NEC(s, n) + TECK(s, n, k + 1)),
                                      OWN(s, n, p) == OWN(s, ch, p - start)),
                   patterns=[z3.MultiPattern(TECK(s, n, k), OWN(s, n, p))]))

    def in_document_order(s0, s, n, errs, count):
        """the j-th appended entry is about error_owner(n, j): per-node lists concatenated in document order"""
        j = z3.Int("do_j")
        n0 = s0.len(errs)
        return smt.FA([j], z3.Implies(z3.And(n0 <= j, j < n0 + count), smt.TITEM(Val.tid(s.at(errs, j)), 2) == Val.ref(OWN(s0, n, j - n0))),
                      patterns=[s.at(errs, j)])

    # ---- assumed contract of validate.node (proved per rule by the C04 tasks)
    def node_ensures(s0, s, n, errs, result=None):
        if errs is None:
            return {"valid": VALID(s0, n), "no-new-nodes": no_new_nodes(s0, s)}
        n0 = s0.len(errs)
        d = {"count": s.len(errs) == n0 + NEC(s0, n), "nonneg": NEC(s0, n) >= 0, "agree": (NEC(s0, n) == 0) == VALID(s0, n),
             "no-new-nodes": no_new_nodes(s0, s)}
        d.update(good_entries(s0, s, errs, lambda t: t == Val.ref(n)))
        return d

    node_con = Contract(Q_NODE, params={"n": "Node"}, ensures=node_ensures,
                        raises=[(MetapypeRuleError, lambda s, n, errs: z3.BoolVal(False) if errs is not None else z3.Not(VALID(s, n)), None)],
                        writes=("llen", "lelem"), mods=ERR_MODS, mod=lambda s0, r, **kw: z3.BoolVal(False), allocates=True,
                        result_ty="none", modular=True, trusted=True,
                        assumptions=("validate.node by contract: the conclusion of the C04 per-rule proofs (total, rule-error family only, "
                                     "collecting mode appends node_error_count(n) tuples about n, zero exactly when fail-fast succeeds)",))
    w.add(node_con)

    def requires(s, n, errs):
        d = {"wf": wf_sub(s, n), "kids-typed": kids_typed_local(s)}
        if errs is not None:
            m = z3.Int("rq_m")
            d["errs-is-no-child-list"] = smt.FA([m], z3.Implies(s.is_node(m), s.kids(m) != errs), patterns=[s.f("_children", m)])
        return d

    def kids_typed_local(s):
        from .node_ops import kids_typed
        return kids_typed(s)

    def axioms(s, n, errs):
        d = tree_axioms(s, n)
        nk = s.nkids(n)
        i = z3.Int("av_i")
        d["allv"] = ALLV(s, n) == z3.And(VALID(s, n), z3.Or(is_md(s, n), smt.FA([i], z3.Implies(z3.And(0 <= i, i < nk), ALLV(s, s.kid(n, i))),
                                                                                patterns=[s.at(s.kids(n), i)])))
        d["tec"] = TEC(s, n) == NEC(s, n) + z3.If(is_md(s, n), 0, TECK(s, n, nk))
        d["teck0"] = TECK(s, n, 0) == 0
        d["nec-nonneg"] = NEC(s, n) >= 0
        d["own-def"] = own_def(s, n)
        return d

    def step(s, n, k):
        ch = s.kid(n, k)
        return {"teck-step": TECK(s, n, k + 1) == TECK(s, n, k) + TEC(s, ch),
                "tec-nonneg": TEC(s, ch) >= 0}

    def ensures(s0, s, n, errs, result=None):
        if errs is None:
            return {"top:succeeds-only-if-every-node-outside-metadata-content-is-valid": ALLV(s0, n), "no-new-nodes": no_new_nodes(s0, s)}
        d = {"no-new-nodes": no_new_nodes(s0, s), "top:error-count-is-the-sum-over-nodes": s.len(errs) == s0.len(errs) + TEC(s0, n), "tec-nonneg": TEC(s0, n) >= 0,
             "top:empty-iff-failfast-succeeds": (TEC(s0, n) == 0) == ALLV(s0, n)}
        d.update(good_entries(s0, s, errs, lambda t: z3.And(Val.is_ref(t), SUB(s0, n, Val.r(t)))))
        d["top:per-node-lists-concatenated-in-document-order"] = in_document_order(s0, s, n, errs, TEC(s0, n))
        return d

    def raise_cond(s, n, errs):
        if errs is not None:
            return z3.BoolVal(False)
        return z3.Not(ALLV(s, n))

    def inv(s0, s, v):
        n = v.n
        j = z3.Int("ti_j")
        d = {"bound": v._k <= s0.nkids(n), "structure-unchanged": z3.And(*[a == b for a, b in zip(s.cs[:1], s0.cs[:1])])}
        allk = smt.FA([j], z3.Implies(z3.And(0 <= j, j < v._k), ALLV(s0, s0.kid(n, j))), patterns=[s0.at(s0.kids(n), j)])
        d["no-new-nodes"] = no_new_nodes(s0, s)
        d["top"] = s.top >= s0.top
        if v.raw("errs") is None:
            d["valid-so-far"] = z3.And(VALID(s0, n), allk)
        else:
            errs = v.errs
            d["count"] = s.len(errs) == s0.len(errs) + NEC(s0, n) + TECK(s0, n, v._k)
            d["teck-nonneg"] = TECK(s0, n, v._k) >= 0
            d["agree"] = (NEC(s0, n) + TECK(s0, n, v._k) == 0) == z3.And(VALID(s0, n), allk)
            d.update(good_entries(s0, s, errs, lambda t: z3.And(Val.is_ref(t), SUB(s0, n, Val.r(t)))))
            d["document-order-so-far"] = in_document_order(s0, s, n, errs, NEC(s0, n) + TECK(s0, n, v._k))
        return d

    def loop_axioms(s0, s, v):
        d = step(s0, v.n, v._k)
        ch = s0.kid(v.n, v._k)
        d["kid-refl"] = SUB(s0, ch, ch)
        d.update(tree_frame_steps(s0, s))
        d["ghost-frame"] = ghost_frame_concl(s0, s)
        return d

    def ghost_frame_concl(s0, s):
        """T-frame: the ghost validity functions read node fields and the children structure of allocated nodes only; the only
        writes of validate.node/tree go to the errs list, which is no node's children list (used once cs_same is proved)"""
        m, pp = z3.Ints("gf_m gf_p")
        return z3.And(
            smt.FA([m], z3.Implies(s0.is_node(m), z3.And(VALID(s, m) == VALID(s0, m), NEC(s, m) == NEC(s0, m))), patterns=[VALID(s, m)]),
            smt.FA([m], z3.Implies(s0.is_node(m), NEC(s, m) == NEC(s0, m)), patterns=[NEC(s, m)]),
            smt.FA([m], z3.Implies(s0.is_node(m), ALLV(s, m) == ALLV(s0, m)), patterns=[ALLV(s, m)]),
            smt.FA([m], z3.Implies(s0.is_node(m), TEC(s, m) == TEC(s0, m)), patterns=[TEC(s, m)]),
            smt.FA([m, pp], z3.Implies(s0.is_node(m), OWN(s, m, pp) == OWN(s0, m, pp)), patterns=[OWN(s, m, pp)]))

    con = Contract(Q_TREE, params={"n": "Node"}, requires=requires, axioms=axioms, ensures=ensures,
                   raises=[(MetapypeRuleError, raise_cond, None)], writes=("llen", "lelem"), mods=ERR_MODS,
                   mod=lambda s0, r, **kw: z3.BoolVal(False), allocates=True, result_ty="none",
                   decreases=lambda s, n, errs: H(s, n), assumptions=("T-unfold(tree_valid, tree_error_count)", "T-frame(ghost validity functions)"))
    con.raises_subclasses = True
    w.add(con)
    w.loop(Q_TREE, 1, inv=inv, axioms=loop_axioms)
    def call_lemma(s0, s, v):
        d = tree_frame_steps(s0, s)
        d["ghost-frame"] = ghost_frame_concl(s0, s)
        return d

    w.call_lemmas[(Q_TREE, Q_TREE)] = call_lemma
    return con
