"""C06: JSON codec.  Proved: the positional layout the serialisers write (metapype_io._serialize, mp_io.objectify) and the
layout mapping of the legacy-to-current converter (utils/convert.py:to_20210209, extracted from the AST because the module has
import-time side effects).  The loaders and the round trip are bounded (their callees are proved in C09/C13/C14)."""
import ast
import os
import z3
from pyvc import smt
from pyvc.smt import Val, I, B, kind, KIND_NODE, KIND_LIST, KIND_DICT
from pyvc.task import Contract
from .prelude import *
from .tree import *
from .node_ops import kids_typed

IO = "metapype.model.metapype_io:"
MP = "metapype.model.mp_io:"

SLOTS8 = [("id", "_id"), ("nsmap", "_nsmap"), ("prefix", "_prefix"), ("attributes", "_attributes"), ("extras", "_extras"), ("content", "_content"), ("tail", "_tail")]
SLOTS4 = [("id", "_id"), ("attributes", "_attributes"), ("content", "_content")]


def K(name):
    return Val.strv(z3.StringVal(name))


def single(s0, s, dval, key, value):
    """dval is a reference to a dict allocated by the call that holds exactly {key: value}"""
    d = Val.r(dval)
    return z3.And(Val.is_ref(dval), d >= s0.top, d < s.top, kind(d) == KIND_DICT, s.dn(d) == 1, s.dkey(d)[0] == key, s.dmap(d)[key] == value)


def layout(s0, s, node, result, slots):
    j = Val.r(result)
    nm = s0.f("_name", node)
    Lv = s.dmap(j)[nm]
    L = Val.r(Lv)
    i = z3.Int("ly_i")
    cl = {"top:one-key-the-name": single(s0, s, result, nm, Lv),
          "top:slot-list": z3.And(Val.is_ref(Lv), L >= s0.top, L < s.top, kind(L) == KIND_LIST, s.len(L) == len(slots) + 1)}
    for idx, (key, field) in enumerate(slots):
        cl[f"top:slot{idx}-{key}"] = single(s0, s, s.at(L, idx), K(key), s0.f(field, node))
    cslot = s.at(L, len(slots))
    Cv = s.dmap(Val.r(cslot))[K("children")]
    C = Val.r(Cv)
    cl["top:children-slot"] = z3.And(single(s0, s, cslot, K("children"), Cv), Val.is_ref(Cv), C >= s0.top, C < s.top, kind(C) == KIND_LIST, s.len(C) == s0.nkids(node),
                                      smt.FA([i], z3.Implies(z3.And(0 <= i, i < s.len(C)), z3.And(Val.is_ref(s.at(C, i)), s.nat(C, i) >= s0.top, s.nat(C, i) < s.top,
                                                                                                   kind(s.nat(C, i)) == KIND_DICT)), patterns=[s.at(C, i)]))
    cl["no-new-nodes"] = no_new_nodes(s0, s)
    return cl


def install_serializer(w, qual, slots):
    def requires(s, node):
        return {"wf": wf_sub(s, node), "kids-typed": kids_typed(s)}

    def axioms(s, node):
        return tree_axioms(s, node)

    def ensures(s0, s, node, result):
        return layout(s0, s, node, result, slots)

    def inv(s0, s, v):
        i = z3.Int("sv_i")
        C = v.children
        return {"fresh-list": z3.And(C >= s0.top, C < s.top, kind(C) == KIND_LIST, s.len(C) == v._k), "bound": v._k <= s0.nkids(v.node),
                "items": smt.FA([i], z3.Implies(z3.And(0 <= i, i < v._k), z3.And(Val.is_ref(s.at(C, i)), s.nat(C, i) >= s0.top, s.nat(C, i) < s.top,
                                                                                   kind(s.nat(C, i)) == KIND_DICT)), patterns=[s.at(C, i)]),
                "partial": z3.And(*[x for k2, x in layout_partial(s0, s, v, slots).items()]),
                "no-new-nodes": no_new_nodes(s0, s), "top": s.top >= s0.top}

    def layout_partial(s0, s, v, slots):
        """the part of the structure built before the child loop stays as it was"""
        j = v.j
        nm = s0.f("_name", v.node)
        Lv = s.dmap(j)[nm]
        L = Val.r(Lv)
        cl = {"root": z3.And(j >= s0.top, j < s.top, kind(j) == KIND_DICT, s.dn(j) == 1, s.dkey(j)[0] == nm, Val.is_ref(Lv), L >= s0.top, L < s.top,
                             kind(L) == KIND_LIST, s.len(L) == len(slots), L != v.children)}
        for idx, (key, field) in enumerate(slots):
            cl[f"slot{idx}"] = single(s0, s, s.at(L, idx), K(key), s0.f(field, v.node))
        return cl

    def ax(s0, s, v):
        ch = s0.kid(v.node, v._k)
        d = {"kid-refl": SUB(s0, ch, ch)}
        d.update(tree_frame_steps(s0, s))
        return d

    con = Contract(qual, params={"node": "Node"}, requires=requires, axioms=axioms, ensures=ensures,
                   writes=("llen", "lelem", "dmap", "dn", "dkey", "dpos"), mod=lambda s0, r, **kw: z3.BoolVal(False), allocates=True,
                   result_ty="dict:val", decreases=lambda s, node: H(s, node), assumptions=("T-unfold(Sub,W,Tree)", "T-frame"))
    w.add(con)
    w.loop(qual, 1, inv=inv, axioms=ax, arrays=("llen", "lelem", "dmap", "dn", "dkey", "dpos", "top"))
    w.call_lemmas[(qual, qual)] = lambda s0, s, v: tree_frame_steps(s0, s)
    return con


def load_converter():
    """utils/convert.py opens a log file at import: the function is extracted from the source and compiled on its own
    (what the extraction drops: everything in the module except the function `to_20210209`)"""
    path = os.path.join(os.environ.get("VERIF_REPO", "/repo"), "utils", "convert.py")
    src = open(path, encoding="utf-8").read()
    tree = ast.parse(src)
    fn = next(n for n in tree.body if isinstance(n, ast.FunctionDef) and n.name == "to_20210209")
    mod = ast.Module(body=[fn], type_ignores=[])
    ns = {}
    exec(compile(mod, path, "exec"), ns)
    f = ns["to_20210209"]
    f.__module__ = "utils.convert"
    return f, ast.get_source_segment(src, fn), path
