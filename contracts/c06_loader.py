"""C06, loader side: metapype_io._from_dict up to its children loop.  For a dict that has the layout metapype_io._serialize is proved to write
(one key — the name — holding a list of eight single-key slots), the node built so far is fresh, named by the key, registered under the id of
slot 0, linked to the given parent, and carries exactly the prefix / content / tail of their slots and dictionaries with exactly the contents of the
nsmap / attributes / extras slots (None slots leave the constructor's empty dict).  Writer and reader therefore agree on the position and meaning of
every slot; what happens to the children (recursion, add_child with its namespace step) is NOT verified here (bounded round trip in props/C06)."""
import z3
from pyvc import smt
from pyvc.smt import Val, I, B, S, kind, KIND_NODE, KIND_LIST, KIND_DICT
from pyvc.task import Contract
from pyvc.values import *
from .prelude import *
from .node_ops import store_map
from .c06_json import SLOTS8, K
from .c13_ns import DICT_ARRS

Q = "metapype.model.metapype_io:_from_dict"
SLOT_KEYS = [k for k, _ in SLOTS8] + ["children"]


def install(w, with_parent):
    def body(s, d):
        return Val.r(s.dmap(d)[s.dkey(d)[0]])

    def slot(s, d, i):
        return Val.r(s.at(body(s, d), i))

    def slot_value(s, d, i):
        return s.dmap(slot(s, d, i))[K(SLOT_KEYS[i])]

    def str_dict(s, v):
        """None, or a dict (not the registry) ..."""
        r = Val.r(v)
        return z3.Or(v == Val.none, z3.And(Val.is_ref(v), s.alloc(r), kind(r) == KIND_DICT, r != STORE, s.dn(r) >= 0))

    def str_dict_q(s, v):
        """... that is well formed and whose values are strings"""
        q = z3.Const("sd_q", Val)
        r = Val.r(v)
        return z3.Implies(v != Val.none, z3.And(s.dict_wf(r), smt.FA([q], z3.Or(s.dmap(r)[q] == smt.absent, Val.is_strv(s.dmap(r)[q])), patterns=[s.dmap(r)[q]])))

    def opt_str(v):
        return z3.Or(v == Val.none, Val.is_strv(v))

    def requires(s, node, parent=None):
        d = node
        bv = s.dmap(d)[s.dkey(d)[0]]
        b = Val.r(bv)
        # ground facts and quantified facts in separate clauses: only quantifier-free clauses reach the fast feasibility solver
        cl = {"one-key-the-name": z3.And(d != STORE, s.dn(d) == 1, Val.is_strv(s.dkey(d)[0])), "wf": s.dict_wf(d),
              "slot-list": z3.And(Val.is_ref(bv), s.alloc(b), kind(b) == KIND_LIST, s.len(b) == 8),
              "registry": kind(STORE) == KIND_DICT}
        for i, key in enumerate(SLOT_KEYS):
            e = s.at(b, i)
            r = Val.r(e)
            cl[f"slot{i}-{key}"] = z3.And(Val.is_ref(e), s.alloc(r), kind(r) == KIND_DICT, r != STORE, r != d, s.dmap(r)[K(key)] != smt.absent)
            cl[f"slot{i}-wf"] = s.dict_wf(r)
        cl["id-is-a-string"] = Val.is_strv(slot_value(s, d, 0))
        cl["nsmap-slot"] = str_dict(s, slot_value(s, d, 1))
        for i, nm in ((1, "nsmap"), (3, "attributes"), (4, "extras")):
            cl[nm + "-slot-strings"] = str_dict_q(s, slot_value(s, d, i))
        cl["prefix-slot"] = opt_str(slot_value(s, d, 2))
        cl["attributes-slot"] = str_dict(s, slot_value(s, d, 3))
        cl["extras-slot"] = str_dict(s, slot_value(s, d, 4))
        cl["content-slot"] = opt_str(slot_value(s, d, 5))
        cl["tail-slot"] = opt_str(slot_value(s, d, 6))
        cv = slot_value(s, d, 7)
        cl["children-slot"] = z3.And(Val.is_ref(cv), s.alloc(Val.r(cv)), kind(Val.r(cv)) == KIND_LIST, s.len(Val.r(cv)) >= 0)
        return cl

    def same_items(s0, s, dst, srcv, upto=None):
        """dst holds exactly the items of the source dict value srcv (None: no items), or — with upto — of its first `upto` entries"""
        q = z3.Const("si_q", Val)
        src = Val.r(srcv)
        m0, pos = s0.dmap(src), s0.dpos(src)
        inside = z3.And(srcv != Val.none, m0[q] != smt.absent) if upto is None else z3.And(srcv != Val.none, m0[q] != smt.absent, 0 <= pos[q], pos[q] < upto)
        size = z3.If(srcv == Val.none, 0, s0.dn(src)) if upto is None else upto
        return z3.And(smt.FA([q], s.dmap(dst)[q] == z3.If(inside, m0[q], smt.absent), patterns=[s.dmap(dst)[q]]), s.dn(dst) == size)

    def fresh_dict(s0, s, v):
        r = Val.r(v)
        return z3.And(Val.is_ref(v), r >= s0.top, r < s.top, kind(r) == KIND_DICT, s.dict_wf(r))

    def basics(s0, s, n, d, parent):
        k = z3.Const("bs_k", Val)
        st0, st1 = store_map(s0), store_map(s)
        idv = slot_value(s0, d, 0)
        return {"fresh-node": z3.And(n >= s0.top, n < s.top, kind(n) == KIND_NODE),
                "named-by-the-key": s.f("_name", n) == s0.dkey(d)[0],
                "id-from-slot-0": s.f("_id", n) == idv,
                "parent": s.f("_parent", n) == (Val.ref(parent) if with_parent else Val.none),
                "registered-under-that-id": smt.FA([k], st1[k] == z3.If(k == idv, Val.ref(n), st0[k]), patterns=[st1[k]]),
                "no-children-yet": z3.And(Val.is_ref(s.f("_children", n)), s.nkids(n) == 0)}

    def node_of(v):
        return Val.r(v.V("node"))          # the local `node` is rebound to the Node being built

    def the_dict(v):
        return object.__getattribute__(v, "_ip").c.task.spec_args["node"]      # ... so the input dict is the entry value of the parameter

    def inv_ns(s0, s, v):
        n, d = node_of(v), the_dict(v)
        src = slot_value(s0, d, 1)
        cl = dict(basics(s0, s, n, d, v.parent if with_parent else None))
        cl["nsmap-so-far"] = z3.And(fresh_dict(s0, s, s.f("_nsmap", n)), same_items(s0, s, s.fr("_nsmap", n), src, upto=v._k))
        cl["bound"] = v._k <= s0.dn(Val.r(src))
        cl["others-empty"] = z3.And(fresh_dict(s0, s, s.f("_attributes", n)), s.dn(s.fr("_attributes", n)) == 0, fresh_dict(s0, s, s.f("_extras", n)), s.dn(s.fr("_extras", n)) == 0,
                                    s.fr("_attributes", n) != s.fr("_extras", n), s.fr("_attributes", n) != s.fr("_nsmap", n), s.fr("_extras", n) != s.fr("_nsmap", n))
        cl["scalars-initial"] = z3.And(s.f("_prefix", n) == Val.none, s.f("_content", n) == Val.none, s.f("_tail", n) == Val.none)
        cl["top"] = s.top >= s0.top
        return cl

    def inv_attrs(s0, s, v):
        n, d = node_of(v), the_dict(v)
        cl = dict(basics(s0, s, n, d, v.parent if with_parent else None))
        cl["nsmap-done"] = z3.And(fresh_dict(s0, s, s.f("_nsmap", n)), same_items(s0, s, s.fr("_nsmap", n), slot_value(s0, d, 1)))
        cl["prefix-done"] = s.f("_prefix", n) == slot_value(s0, d, 2)
        src = slot_value(s0, d, 3)
        cl["attributes-so-far"] = z3.And(fresh_dict(s0, s, s.f("_attributes", n)), same_items(s0, s, s.fr("_attributes", n), src, upto=v._k))
        cl["bound"] = v._k <= s0.dn(Val.r(src))
        cl["extras-empty"] = z3.And(fresh_dict(s0, s, s.f("_extras", n)), s.dn(s.fr("_extras", n)) == 0)
        cl["distinct"] = z3.And(s.fr("_attributes", n) != s.fr("_extras", n), s.fr("_attributes", n) != s.fr("_nsmap", n), s.fr("_extras", n) != s.fr("_nsmap", n))
        cl["scalars-initial"] = z3.And(s.f("_content", n) == Val.none, s.f("_tail", n) == Val.none)
        cl["top"] = s.top >= s0.top
        return cl

    def inv_extras(s0, s, v):
        n, d = node_of(v), the_dict(v)
        cl = dict(basics(s0, s, n, d, v.parent if with_parent else None))
        cl["nsmap-done"] = z3.And(fresh_dict(s0, s, s.f("_nsmap", n)), same_items(s0, s, s.fr("_nsmap", n), slot_value(s0, d, 1)))
        cl["prefix-done"] = s.f("_prefix", n) == slot_value(s0, d, 2)
        cl["attributes-done"] = z3.And(fresh_dict(s0, s, s.f("_attributes", n)), same_items(s0, s, s.fr("_attributes", n), slot_value(s0, d, 3)))
        src = slot_value(s0, d, 4)
        cl["extras-so-far"] = z3.And(fresh_dict(s0, s, s.f("_extras", n)), same_items(s0, s, s.fr("_extras", n), src, upto=v._k))
        cl["bound"] = v._k <= s0.dn(Val.r(src))
        cl["distinct"] = z3.And(s.fr("_attributes", n) != s.fr("_extras", n), s.fr("_attributes", n) != s.fr("_nsmap", n), s.fr("_extras", n) != s.fr("_nsmap", n))
        cl["scalars-initial"] = z3.And(s.f("_content", n) == Val.none, s.f("_tail", n) == Val.none)
        cl["top"] = s.top >= s0.top
        return cl

    def stop(s0, s, v):
        n, d = node_of(v), the_dict(v)
        cl = {"top:" + k: x for k, x in basics(s0, s, n, d, v.parent if with_parent else None).items()}
        cl["top:nsmap-has-exactly-the-items-of-its-slot"] = z3.And(fresh_dict(s0, s, s.f("_nsmap", n)), same_items(s0, s, s.fr("_nsmap", n), slot_value(s0, d, 1)))
        cl["top:prefix-from-its-slot"] = s.f("_prefix", n) == slot_value(s0, d, 2)
        cl["top:attributes-have-exactly-the-items-of-their-slot"] = z3.And(fresh_dict(s0, s, s.f("_attributes", n)), same_items(s0, s, s.fr("_attributes", n), slot_value(s0, d, 3)))
        cl["top:extras-have-exactly-the-items-of-their-slot"] = z3.And(fresh_dict(s0, s, s.f("_extras", n)), same_items(s0, s, s.fr("_extras", n), slot_value(s0, d, 4)))
        cl["top:content-from-its-slot"] = s.f("_content", n) == slot_value(s0, d, 5)
        cl["top:tail-from-its-slot"] = s.f("_tail", n) == slot_value(s0, d, 6)
        cl["top:children-are-read-from-slot-7"] = v.V("children") == slot_value(s0, d, 7)
        return cl

    params = {"node": "dict:val", "parent": "Node" if with_parent else ("const", None)}
    con = Contract(Q, params=params, requires=requires, ensures=lambda s0, s, result=None, **kw: {}, allocates=True, result_ty="Node", modular=False,
                   writes=tuple("F:" + f for f in NODE_FIELDS) + ("llen", "lelem") + DICT_ARRS,
                   mods={**{a: (lambda s0, r, node, **kw: z3.Or(r == STORE, r == node)) for a in DICT_ARRS}},
                   mod=lambda s0, r, **kw: z3.BoolVal(False),
                   assumptions=("A-uuid", "A-deepcopy(str->str dict)", "the dict has the layout _serialize is proved to write (precondition)"))
    vt = {"nsp": "str", "attribute": "str", "extra": "str"}
    w.loop(Q, 1, inv=inv_ns, var_types=vt, arrays=DICT_ARRS + ("F:_nsmap", "top"))
    w.loop(Q, 2, inv=inv_attrs, var_types=vt, arrays=DICT_ARRS)
    w.loop(Q, 3, inv=inv_extras, var_types=vt, arrays=DICT_ARRS)
    w.loop(Q, 4, stop=stop, stop_unchanged=False)
    return con


# ------------------------------------------------------------------------------------------------ legacy codec (mp_io): four slots
Q_LEGACY = "metapype.model.mp_io:from_json"
LEGACY_KEYS = ["id", "attributes", "content", "children"]


def install_legacy(w, with_parent):
    """mp_io.from_json up to its children loop, for a dict with the layout mp_io.objectify is proved to write: fresh node named by the key,
    registered under slot 0's id, parent link, attributes with exactly the items of slot 1, content of slot 2; children read from slot 3."""
    def slot_value(s, d, i):
        b = Val.r(s.dmap(d)[s.dkey(d)[0]])
        return s.dmap(Val.r(s.at(b, i)))[K(LEGACY_KEYS[i])]

    def requires(s, json_node, parent=None):
        d = json_node
        bv = s.dmap(d)[s.dkey(d)[0]]
        b = Val.r(bv)
        q = z3.Const("lg_q", Val)
        cl = {"one-key-the-name": z3.And(d != STORE, s.dn(d) == 1, Val.is_strv(s.dkey(d)[0])), "wf": s.dict_wf(d),
              "slot-list": z3.And(Val.is_ref(bv), s.alloc(b), kind(b) == KIND_LIST, s.len(b) == 4), "registry": kind(STORE) == KIND_DICT}
        for i, key in enumerate(LEGACY_KEYS):
            e = s.at(b, i)
            r = Val.r(e)
            cl[f"slot{i}-{key}"] = z3.And(Val.is_ref(e), s.alloc(r), kind(r) == KIND_DICT, r != STORE, r != d, s.dmap(r)[K(key)] != smt.absent)
            cl[f"slot{i}-wf"] = s.dict_wf(r)
        cl["id-is-a-string"] = Val.is_strv(slot_value(s, d, 0))
        av = slot_value(s, d, 1)
        ar = Val.r(av)
        cl["attributes-slot"] = z3.Or(av == Val.none, z3.And(Val.is_ref(av), s.alloc(ar), kind(ar) == KIND_DICT, ar != STORE, s.dn(ar) >= 0))
        cl["attributes-slot-strings"] = z3.Implies(av != Val.none, z3.And(s.dict_wf(ar), smt.FA([q], z3.Or(s.dmap(ar)[q] == smt.absent, Val.is_strv(s.dmap(ar)[q])),
                                                                                                  patterns=[s.dmap(ar)[q]])))
        cv = slot_value(s, d, 2)
        cl["content-slot"] = z3.Or(cv == Val.none, Val.is_strv(cv))
        kv = slot_value(s, d, 3)
        cl["children-slot"] = z3.And(Val.is_ref(kv), s.alloc(Val.r(kv)), kind(Val.r(kv)) == KIND_LIST, s.len(Val.r(kv)) >= 0)
        return cl

    def same_items(s0, s, dst, srcv, upto=None):
        q = z3.Const("li_q", Val)
        src = Val.r(srcv)
        m0, pos = s0.dmap(src), s0.dpos(src)
        inside = z3.And(srcv != Val.none, m0[q] != smt.absent) if upto is None else z3.And(srcv != Val.none, m0[q] != smt.absent, 0 <= pos[q], pos[q] < upto)
        size = z3.If(srcv == Val.none, 0, s0.dn(src)) if upto is None else upto
        return z3.And(smt.FA([q], s.dmap(dst)[q] == z3.If(inside, m0[q], smt.absent), patterns=[s.dmap(dst)[q]]), s.dn(dst) == size)

    def fresh_dict(s0, s, v):
        r = Val.r(v)
        return z3.And(Val.is_ref(v), r >= s0.top, r < s.top, kind(r) == KIND_DICT, s.dict_wf(r))

    def basics(s0, s, n, d, parent):
        k = z3.Const("lb_k", Val)
        st0, st1 = store_map(s0), store_map(s)
        idv = slot_value(s0, d, 0)
        return {"fresh-node": z3.And(n >= s0.top, n < s.top, kind(n) == KIND_NODE), "named-by-the-key": s.f("_name", n) == s0.dkey(d)[0],
                "id-from-slot-0": s.f("_id", n) == idv, "parent": s.f("_parent", n) == (Val.ref(parent) if with_parent else Val.none),
                "registered-under-that-id": smt.FA([k], st1[k] == z3.If(k == idv, Val.ref(n), st0[k]), patterns=[st1[k]]),
                "no-children-yet": z3.And(Val.is_ref(s.f("_children", n)), s.nkids(n) == 0)}

    def inv_attrs(s0, s, v):
        n, d = Val.r(v.V("node")), v.json_node
        cl = dict(basics(s0, s, n, d, v.parent if with_parent else None))
        src = slot_value(s0, d, 1)
        cl["attributes-so-far"] = z3.And(fresh_dict(s0, s, s.f("_attributes", n)), same_items(s0, s, s.fr("_attributes", n), src, upto=v._k))
        cl["bound"] = v._k <= s0.dn(Val.r(src))
        cl["content-initial"] = s.f("_content", n) == Val.none
        cl["top"] = s.top >= s0.top
        return cl

    def stop(s0, s, v):
        n, d = Val.r(v.V("node")), v.json_node
        cl = {"top:" + k: x for k, x in basics(s0, s, n, d, v.parent if with_parent else None).items()}
        cl["top:attributes-have-exactly-the-items-of-their-slot"] = z3.And(fresh_dict(s0, s, s.f("_attributes", n)), same_items(s0, s, s.fr("_attributes", n), slot_value(s0, d, 1)))
        cl["top:content-from-its-slot"] = s.f("_content", n) == slot_value(s0, d, 2)
        cl["top:children-are-read-from-slot-3"] = v.V("children") == slot_value(s0, d, 3)
        return cl

    con = Contract(Q_LEGACY, params={"json_node": "dict:val", "parent": "Node" if with_parent else ("const", None)}, requires=requires,
                   ensures=lambda s0, s, result=None, **kw: {}, allocates=True, result_ty="Node", modular=False,
                   writes=tuple("F:" + f for f in NODE_FIELDS) + ("llen", "lelem") + DICT_ARRS,
                   mods={**{a: (lambda s0, r, json_node, **kw: z3.Or(r == STORE, r == json_node)) for a in DICT_ARRS}}, mod=lambda s0, r, **kw: z3.BoolVal(False),
                   assumptions=("A-uuid", "the dict has the layout mp_io.objectify is proved to write (precondition)"))
    w.loop(Q_LEGACY, 1, inv=inv_attrs, var_types={"attribute": "str"}, arrays=DICT_ARRS)
    w.loop(Q_LEGACY, 2, stop=stop, stop_unchanged=False)
    return con
