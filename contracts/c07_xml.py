"""C07/C08: the dict- and string-level glue of the XML exporters/importer that is within reach of contracts:
metapype_io._nsp_unique (which namespace bindings are re-declared on a child) and metapype_io._format_extras (how a qualified
attribute name {uri}local is rewritten to prefix:local).  Well-formedness and parse-back are decided by XML parsers (C code)
and are bounded only."""
import re
import z3
from pyvc import smt, strings
from pyvc.smt import Val, I, B, S, kind, KIND_NODE, KIND_LIST, KIND_DICT
from pyvc.task import Contract
from pyvc.values import *
from .prelude import *
from .c13_ns import DICT_ARRS

IO = "metapype.model.metapype_io:"

RE_OK = z3.Function("re_match_braces_ok", S, B)       # re.match(r"^\{(.*)\}(.*)$", name) is not None
RE_G1 = z3.Function("re_match_braces_group1", S, S)
RE_G2 = z3.Function("re_match_braces_group2", S, S)


class MatchObj:
    __slots__ = ("name",)

    def __init__(self, name):
        self.name = name


def install_nsp_unique(w):
    def requires(s, child_nsmap, parent_nsmap):
        return {"wf": s.dict_wf(child_nsmap)}

    def ensures(s0, s, child_nsmap, parent_nsmap, result):
        k = z3.Const("nu_k", Val)
        R = Val.r(result)
        cm, pm, rm = s0.dmap(child_nsmap), s0.dmap(parent_nsmap), s.dmap(R)
        return {"top:exactly-the-bindings-that-differ-from-the-parent": smt.FA([k], rm[k] == z3.If(z3.And(cm[k] != smt.absent, pm[k] != cm[k]), cm[k], smt.absent),
                                                                                patterns=[rm[k]]),
                "fresh": z3.And(Val.is_ref(result), R >= s0.top, kind(R) == KIND_DICT)}

    def inv(s0, s, v):
        k = z3.Const("ni_k", Val)
        R = v.nsmap
        cm, pm, rm = s0.dmap(v.child_nsmap), s0.dmap(v.parent_nsmap), s.dmap(R)
        pos = s0.dpos(v.child_nsmap)
        return {"fresh": z3.And(R >= s0.top, R < s.top, kind(R) == KIND_DICT, s.dn(R) >= 0), "bound": v._k <= s0.dn(v.child_nsmap),
                "so-far": smt.FA([k], rm[k] == z3.If(z3.And(cm[k] != smt.absent, pos[k] < v._k, pm[k] != cm[k]), cm[k], smt.absent), patterns=[rm[k]])}

    con = Contract(IO + "_nsp_unique", params={"child_nsmap": "dict:str", "parent_nsmap": "dict:str"}, requires=requires, ensures=ensures,
                   writes=DICT_ARRS, mod=lambda s0, r, **kw: z3.BoolVal(False), allocates=True, result_ty="dict:str", modular=False)
    w.loop(IO + "_nsp_unique", 1, inv=inv, arrays=DICT_ARRS, var_types={"nsmap": "dict:str"})
    return con


def install_format_extras(w):
    w.opaque_fstrings = False

    def ext_match(ip, pattern, string, flags=0):
        if pattern != r"^\{(.*)\}(.*)$":
            raise Unsupported(f"re.match with another pattern: {pattern!r}")
        ip.c.assumptions_used.add("A-re: re.match(r'^\\{(.*)\\}(.*)$', s) as uninterpreted ok/group1/group2 functions of s")
        if isinstance(string, str):
            string = Sym(z3.StringVal(string), "str")
        if ip.c.branch(RE_OK(string.t), "re_ok"):
            return MatchObj(string)
        return None
    w.externals[re.match] = ext_match

    def match_method(ip, recv, name, args, kwargs):
        if name == "group" and args == [1]:
            return Sym(RE_G1(recv.name.t), "str")
        if name == "group" and args == [2]:
            return Sym(RE_G2(recv.name.t), "str")
        raise Unsupported(f"match.{name}{args}")
    w.match_method = match_method

    def spec(s0, name, nsmap, upto):
        """the rewritten name after looking at the first `upto` bindings: prefix of the *last* binding whose URI equals group 1"""
        dk, dm = s0.dkey(nsmap), s0.dmap(nsmap)
        j, j2 = z3.Ints("fe_j fe_j2")
        uri, target = RE_G1(name), RE_G2(name)
        hit = lambda x: z3.And(0 <= x, x < upto, dm[dk[x]] == Val.strv(uri))
        return hit, uri, target

    def ensures(s0, s, name, nsmap, result):
        r = Val.s(result)
        hit, uri, target = spec(s0, name, nsmap, s0.dn(nsmap))
        j, j2 = z3.Ints("fe_j fe_j2")
        dk = s0.dkey(nsmap)
        none = z3.Not(z3.Exists([j], hit(j)))
        isxml = uri == z3.StringVal("http://www.w3.org/XML/1998/namespace")
        return {"str": Val.is_strv(result),
                "top:unqualified-kept": z3.Implies(z3.Not(RE_OK(name)), r == name),
                "top:unbound-kept-or-xml-prefix": z3.Implies(z3.And(RE_OK(name), none), r == z3.If(isxml, z3.Concat(z3.StringVal("xml:"), target), name)),
                "top:rewritten-with-a-bound-prefix": z3.Implies(z3.And(RE_OK(name), z3.Not(none)),
                                                               z3.Exists([j], z3.And(hit(j), r == z3.Concat(Val.s(dk[j]), z3.StringVal(":"), target))))}

    def inv(s0, s, v):
        hit, uri, target = spec(s0, v.name, v.nsmap, v._k)
        j, j2 = z3.Ints("fi_j fi_j2")
        dk = s0.dkey(v.nsmap)
        none = z3.Not(z3.Exists([j], hit(j)))
        isxml = uri == z3.StringVal("http://www.w3.org/XML/1998/namespace")
        return {"bound": v._k <= s0.dn(v.nsmap), "groups": z3.And(v.uri == uri, v.target == target),
                "kept": z3.Implies(none, v.nsname == z3.If(isxml, z3.Concat(z3.StringVal("xml:"), target), v.name)),
                "rewritten": z3.Implies(z3.Not(none), z3.Exists([j], z3.And(hit(j), v.nsname == z3.Concat(Val.s(dk[j]), z3.StringVal(":"), target))))}

    con = Contract(IO + "_format_extras", params={"name": "str", "nsmap": "dict:str"}, requires=lambda s, name, nsmap: {"wf": s.dict_wf(nsmap)},
                   ensures=ensures, result_ty="str", modular=False)
    w.loop(IO + "_format_extras", 1, inv=inv, var_types={"nsname": "str"})
    return con
