"""C08, second deductive piece: what `_process_element` makes of ONE element before it turns to the attributes and the children — the local
name, the namespace map and prefix, and the whitespace policy for text and tail in all four clean/collapse combinations, with and without the
element being listed as literal.  The lxml element is an abstract object (its .tag/.text/.tail/.prefix/.nsmap are arbitrary values of the
documented types); `strip`, `" ".join(x.split())`, `find` and `re.fullmatch` are uninterpreted (A-str, A-re), so the contract says WHICH of them is
applied WHEN, which is what the property's "whitespace policy" is.  The verified region ends at the attribute loop (LoopC(stop=...))."""
import re
import z3
from pyvc import smt, strings
from pyvc.smt import Val, I, B, S, kind, KIND_NODE
from pyvc.task import Contract
from pyvc.values import *
from .prelude import *

IO = "metapype.model.metapype_io:"
Q = IO + "_process_element"
WS_ONLY = z3.Function("re_fullmatch_blank_run", S, B)     # re.fullmatch("[ \xA0\x09]+", s) is not None


class AbsElement:
    """stand-in class of the abstract lxml element (fields only)"""


def install(w, clean, collapse, literal):
    """one task per (clean, collapse, the element's tag is / is not in `literals`)"""
    from metapype.model import metapype_io

    def ext_fullmatch(ip, pattern, text, flags=0):
        if pattern != "[ \xA0\x09]+":
            raise Unsupported("re.fullmatch with another pattern")
        ip.c.assumptions_used.add("A-re: re.fullmatch('[ \\xA0\\x09]+', s) is a pure predicate of s")
        if isinstance(text, Sym) and text.t.sort() == Val:
            text = ip.resolve(text)
        if text is None:
            ip.py_raise(TypeError, "expected string or bytes-like object, got 'NoneType'")
        t = text.t if isinstance(text, Sym) else z3.StringVal(text)
        if ip.c.branch(WS_ONLY(t), "fullmatch"):
            return ip.mk_exc(ValueError, "match-object")      # any truthy object
        return None
    w.externals[re.fullmatch] = ext_fullmatch

    def element(ip):
        c = ip.c
        f = {}
        f["tag"] = Sym(z3.String("e_tag"), "str")
        for nm in ("text", "tail", "prefix"):
            t = z3.Const("e_" + nm, Val)
            c.assume(z3.Or(t == Val.none, Val.is_strv(t)))
            f[nm] = c.from_val(t, "opt:str")
        d = z3.Int("e_nsmap")
        c.assume(c.ty_fact(Val.ref(d), "dict:str"))
        f["nsmap"] = Sym(d, "dict:str")
        a = z3.Int("e_attrib")
        c.assume(c.ty_fact(Val.ref(a), "dict:str"))
        f["attrib"] = Sym(a, "dict:str")
        return PObj(AbsElement, f, c.next_serial(), c.epoch)

    TAG = z3.String("e_tag")
    TEXT, TAIL, PREFIX = (z3.Const("e_" + nm, Val) for nm in ("text", "tail", "prefix"))
    local = z3.SubString(TAG, strings.U_FIND(TAG, z3.StringVal("}")) + 1, z3.Length(TAG))

    def cleaned(v, is_text):
        """the documented policy for one text value"""
        if not clean:
            return v
        s_ = Val.s(v)
        stripped = strings.U_STRIP(s_)
        inner = z3.If(stripped == z3.StringVal(""), Val.none, Val.strv(strings.U_JOIN_SPLIT(s_)) if collapse else Val.strv(stripped))
        keep_all = WS_ONLY(s_)
        if is_text and literal:
            return z3.If(v == Val.none, Val.none, v)
        return z3.If(v == Val.none, Val.none, z3.If(keep_all, v, inner))

    def stop(s0, s, v):
        n = Val.r(v.V("node"))
        return {"top:fresh-node-named-by-the-local-part-of-the-tag": z3.And(n >= s0.top, n < s.top, kind(n) == KIND_NODE, s.name(n) == local),
                "top:namespace-map-and-prefix-taken-from-the-element": z3.And(s.f("_nsmap", n) == Val.ref(z3.Int("e_nsmap")), s.f("_prefix", n) == PREFIX),
                "top:content-follows-the-whitespace-policy": s.f("_content", n) == cleaned(TEXT, True),
                "top:tail-follows-the-whitespace-policy": s.f("_tail", n) == cleaned(TAIL, False),
                "no-children-yet": s.nkids(n) == 0}

    lits = ("literalLayout",) if literal else ("somethingElse",)
    lit_req = (lambda s, **kw: {"tag-is-literal": local == z3.StringVal("literalLayout")}) if literal else \
              (lambda s, **kw: {"tag-is-not-literal": local != z3.StringVal("somethingElse")})
    con = Contract(Q, params={"e": element, "clean": ("const", clean), "collapse": ("const", collapse), "literals": ("const", lits)}, requires=lit_req,
                   ensures=lambda s0, s, result=None, **kw: {}, allocates=True, result_ty="Node", modular=False,
                   writes=("dmap", "dn", "dkey", "dpos"), mod=lambda s0, r, **kw: r == STORE,
                   assumptions=("A-str (strip / split-join / find uninterpreted)", "A-re", "the lxml element is an abstract object: tag a string, text / tail / prefix a string or None, "
                                "nsmap and attrib dicts of strings"))
    w.loop(Q, 1, stop=stop, stop_unchanged=False)
    return con
