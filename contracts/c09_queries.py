"""C09, search queries: functional contracts of find_all_children, get_ancestry, find_single_node_by_path (find_child, child_index and
find_descendant are in node_ops).  Every contract is exact — it pins the result down to one value — and is phrased without any
inductively defined list: filters are specified through a counting function (the result position of the k-th child is the number of
matches before it), chains through their step relation."""
import z3
from pyvc import smt
from pyvc.smt import Val, I, B, S, kind, KIND_NODE, KIND_LIST
from pyvc.task import Contract
from pyvc.core import Unsupported
from .prelude import *
from .prelude import _CS
from .tree import *

N = "metapype.model.node:Node."
Q_FAC = N + "find_all_children"
Q_ANC = N + "get_ancestry"
Q_PATH1 = N + "find_single_node_by_path"
Q_FIND_CHILD = N + "find_child"

# ghost: number of children of n among the first k that are named x   (T-unfold: CNT(0) = 0, CNT(k+1) = CNT(k) + [name(kid k) = x])
_CNT = z3.Function("count_named", *_CS, smt.FieldArr, I, S, I, I)


def _sx(x):
    return z3.StringVal(x) if isinstance(x, str) else x


def CNT(s, n, x, k):
    x = _sx(x)
    return _CNT(*s.cs, s.arr("F:_name"), n, x, k)


def cnt_step(s, n, x, k):
    return z3.And(CNT(s, n, x, 0) == 0, CNT(s, n, x, k + 1) == CNT(s, n, x, k) + z3.If(s.name(s.kid(n, k)) == x, 1, 0))


def filtered(s0, s, n, x, lst, upto, tag="filtered"):
    """lst holds exactly the children of n named x among the first `upto`, in order: the k-th child, when it matches, sits at
    position CNT(k), and there is nothing else (the length is CNT(upto))"""
    k = z3.Int("fl_k")
    return {tag + ":length": s.len(lst) == CNT(s0, n, x, upto),
            tag + ":elements": smt.FA([k], z3.Implies(z3.And(0 <= k, k < upto, s0.name(s0.kid(n, k)) == x),
                                                      z3.And(0 <= CNT(s0, n, x, k), CNT(s0, n, x, k) < s.len(lst),
                                                             s.at(lst, CNT(s0, n, x, k)) == s0.at(s0.kids(n), k))),
                                      patterns=[s0.at(s0.kids(n), k)])}


def all_nodes_in(s0, s, lst):
    j = z3.Int("an_j")
    return smt.FA([j], z3.Implies(z3.And(0 <= j, j < s.len(lst)), z3.And(Val.is_ref(s.at(lst, j)), s0.is_node(s.nat(lst, j)))), patterns=[s.at(lst, j)])


def install_find_all_children(w):
    def ensures(s0, s, self, child_name, result):
        r = Val.r(result)
        return {"top:fresh-list": z3.And(Val.is_ref(result), r >= s0.top, r < s.top, kind(r) == KIND_LIST), "elements-are-nodes": all_nodes_in(s0, s, r), "no-new-nodes": no_new_nodes(s0, s),
                **filtered(s0, s, self, child_name, r, s0.nkids(self), "top:exactly-the-matching-children-in-order")}

    def inv(s0, s, v):
        # the accumulator: the comprehension's result list, or — if the function is written as an explicit loop — the one local list
        name = "__comp1"
        if not v.has(name):
            from pyvc.values import PList, Sym
            d = object.__getattribute__(v, "_d")
            cands = [k for k, x in d.items() if k not in ("self", "child_name", "_k") and (isinstance(x, PList) or (isinstance(x, Sym) and (x.ty or "").startswith("list")))]
            if len(cands) != 1:
                raise Unsupported("find_all_children: cannot identify the accumulator list")
            name = cands[0]
        acc = v.V(name)
        r = Val.r(acc)
        return {"acc": z3.And(Val.is_ref(acc), r >= s0.top, r < s.top, kind(r) == KIND_LIST, s.len(r) >= 0), "bound": v._k <= s0.nkids(v.self),
                "elements-are-nodes": all_nodes_in(s0, s, r), "no-new-nodes": no_new_nodes(s0, s),
                **filtered(s0, s, v.self, v.child_name, r, v._k, "so-far")}

    def axioms(s0, s, v):
        return {"cnt": cnt_step(s0, v.self, v.child_name, v._k)}

    def entry_axioms(s, self, child_name):
        return {"cnt0": CNT(s, self, child_name, 0) == 0}

    con = Contract(Q_FAC, params={"self": "Node", "child_name": "str"}, ensures=ensures, axioms=entry_axioms, allocates=True, result_ty="list:Node",
                   mod=lambda s0, r, **kw: z3.BoolVal(False), assumptions=("T-unfold(count_named)",))
    w.add(con)
    w.loop(Q_FAC, 1, inv=inv, axioms=axioms, var_types={"child_node": "Node"})
    return con


# ------------------------------------------------------------------------------------------------ ancestry
_DEPTH = z3.Function("depth", smt.FieldArr, I, I)   # ghost: number of parent links from a node up to a parentless node


def DEPTH(s, n):
    return _DEPTH(s.arr("F:_parent"), n)


def parents_well_founded(s):
    """every parent link leads to a node of smaller depth (no cycle among parent links): what attaching nodes that are not
    ancestors of their new parent maintains (C09's hypothesis)"""
    m = z3.Int("pw_m")
    p = s.f("_parent", m)
    return smt.FA([m], z3.Implies(s.is_node(m), z3.And(DEPTH(s, m) >= 0, z3.Implies(p == Val.none, DEPTH(s, m) == 0), z3.Implies(p != Val.none, z3.And(Val.is_ref(p), s.is_node(Val.r(p)),
                                                                                                  DEPTH(s, Val.r(p)) == DEPTH(s, m) - 1)))),
                  patterns=[s.f("_parent", m)])


def chain(s0, s, lst, node):
    """lst is the parent chain ending in `node`: last element node, each element's parent is the element before it"""
    j = z3.Int("ch_j")
    L = s.len(lst)
    return z3.And(L >= 1, s.at(lst, L - 1) == Val.ref(node),
                  smt.FA([j], z3.Implies(z3.And(0 <= j, j < L), z3.And(Val.is_ref(s.at(lst, j)), s0.is_node(s.nat(lst, j)))), patterns=[s.at(lst, j)]),
                  smt.FA([j], z3.Implies(z3.And(1 <= j, j < L), s0.f("_parent", s.nat(lst, j)) == s.at(lst, j - 1)), patterns=[s.at(lst, j)]))


def install_get_ancestry(w):
    def requires(s, self):
        return {"parents-well-founded": parents_well_founded(s)}

    def ensures(s0, s, self, result):
        r = Val.r(result)
        return {"top:fresh-list": z3.And(Val.is_ref(result), r >= s0.top, r < s.top, kind(r) == KIND_LIST),
                "top:chain-ending-in-self": chain(s0, s, r, self),
                "top:starts-at-a-parentless-node": s0.f("_parent", s.nat(r, 0)) == Val.none,
                "top:length": s.len(r) == DEPTH(s0, self) + 1}

    def inv(s0, s, v):
        a = v.V("ancestry")
        r = Val.r(a)
        node = v.V("node")
        L = s.len(r)
        return {"list": z3.And(Val.is_ref(a), r >= s0.top, r < s.top, kind(r) == KIND_LIST, L >= 0),
                "node": z3.And(Val.is_ref(node), s0.is_node(Val.r(node))),
                "chain-so-far": z3.If(L == 0, node == Val.ref(v.self),
                                      z3.And(chain(s0, s, r, v.self), s0.f("_parent", s.nat(r, 0)) == node)),
                "length": L + DEPTH(s0, Val.r(node)) == DEPTH(s0, v.self)}

    con = Contract(Q_ANC, params={"self": "Node"}, requires=requires, ensures=ensures, allocates=True, result_ty="list:Node",
                   mod=lambda s0, r, **kw: z3.BoolVal(False), assumptions=("ghost depth (parent links are acyclic: precondition)",))
    w.add(con)
    w.loop(Q_ANC, 1, inv=inv, var_types={"node": "opt:Node", "ancestry": "list:Node"}, decreases=lambda s0, s, v: DEPTH(s0, Val.r(v.V("node"))))
    return con


# ------------------------------------------------------------------------------------------------ first child by name, as a function
_FCH = z3.Function("first_child_named", *_CS, smt.FieldArr, I, S, Val)
_FCI = z3.Function("first_child_named_index", *_CS, smt.FieldArr, I, S, I)


def FCH(s, n, x):
    x = _sx(x)
    return _FCH(*s.cs, s.arr("F:_name"), n, x)


def FCI(s, n, x):
    """ghost witness: index of the first child of n named x (meaningful when there is one)"""
    return _FCI(*s.cs, s.arr("F:_name"), n, _sx(x))


def fch_def(s, n, x):
    x = _sx(x)
    j = z3.Int("fh_j")
    r = FCH(s, n, x)
    fi = _FCI(*s.cs, s.arr("F:_name"), n, x)
    nm = lambda i: s.name(s.kid(n, i))
    return z3.Or(z3.And(r == Val.none, smt.FA([j], z3.Implies(z3.And(0 <= j, j < s.nkids(n)), nm(j) != x), patterns=[s.at(s.kids(n), j)])),
                 z3.And(0 <= fi, fi < s.nkids(n), r == s.at(s.kids(n), fi), nm(fi) == x,
                        smt.FA([j], z3.Implies(z3.And(0 <= j, j < fi), nm(j) != x), patterns=[s.at(s.kids(n), j)])))


def install_find_child_fn(w):
    """find_child against the function first_child_named (the relational contract of node_ops.install_find_child says the same
    thing with an existential; the path query needs a term to chain)"""
    def axioms(s, self, child_name):
        return {"fch": fch_def(s, self, child_name)}

    def ensures(s0, s, self, child_name, result):
        return {"top:first-child-with-that-name": result == FCH(s0, self, child_name)}

    def inv(s0, s, v):
        j = z3.Int("fc_j")
        kids = s0.kids(v.self)
        return smt.FA([j], z3.Implies(z3.And(0 <= j, j < v._k), s0.name(s0.nat(kids, j)) != v.child_name), patterns=[s0.at(kids, j)])

    con = Contract(Q_FIND_CHILD, params={"self": "Node", "child_name": "str"}, axioms=axioms, ensures=ensures, result_ty="opt:Node",
                   assumptions=("T-unfold(first_child_named)",))
    w.add(con)
    w.loop(Q_FIND_CHILD, 1, inv=inv)
    return con


# ghost: the node reached after following the first k names of a path from a node (None once a name has no match)
_PN = z3.Function("path_node", *_CS, smt.FieldArr, I, I, smt.LElemArr, I, Val)


def PN(s, n, path, k):
    return _PN(*s.cs, s.arr("F:_name"), n, path, s.arr("lelem"), k)


def pn_step(s, n, path, k):
    """T-unfold at k: PN(0) = n; PN(k+1) = first child of PN(k) named path[k]   (when PN(k) is a node)"""
    cur = PN(s, n, path, k)
    return z3.And(PN(s, n, path, 0) == Val.ref(n),
                  z3.Implies(cur != Val.none, PN(s, n, path, k + 1) == FCH(s, Val.r(cur), Val.s(s.at(path, k)))))


def install_find_single_node_by_path(w):
    def requires(s, self, path):
        j = z3.Int("pq_j")
        return {"path-of-names": smt.FA([j], z3.Implies(z3.And(0 <= j, j < s.len(path)), Val.is_strv(s.at(path, j))), patterns=[s.at(path, j)]),
                "path-is-no-child-list": smt.FA([j], z3.Implies(s.is_node(j), s.kids(j) != path), patterns=[s.f("_children", j)])}

    def ensures(s0, s, self, path, result):
        k, j = z3.Ints("ps_k ps_j")
        L = s0.len(path)
        return {"top:empty-path-gives-none": z3.Implies(L == 0, result == Val.none),
                "top:node-iff-every-step-matches": z3.Implies(L > 0, z3.If(
                    result != Val.none,
                    z3.And(result == PN(s0, self, path, L), smt.FA([j], z3.Implies(z3.And(0 <= j, j <= L), PN(s0, self, path, j) != Val.none),
                                                                    patterns=[PN(s0, self, path, j)])),
                    z3.Exists([k], z3.And(0 <= k, k <= L, PN(s0, self, path, k) == Val.none))))}

    def inv(s0, s, v):
        j = z3.Int("pi_j")
        return {"bound": v._k <= s0.len(v.path),
                "current": v.V("current_node") == PN(s0, v.self, v.path, v._k),
                "earlier-steps-matched": smt.FA([j], z3.Implies(z3.And(0 <= j, j < v._k), PN(s0, v.self, v.path, j) != Val.none),
                                                patterns=[PN(s0, v.self, v.path, j)]),
                "typed": z3.Or(v.V("current_node") == Val.none, z3.And(Val.is_ref(v.V("current_node")), s0.is_node(Val.r(v.V("current_node")))))}

    def axioms(s0, s, v):
        return {"pn": pn_step(s0, v.self, v.path, v._k)}

    def entry_axioms(s, self, path):
        return {"pn0": PN(s, self, path, 0) == Val.ref(self)}

    con = Contract(Q_PATH1, params={"self": "Node", "path": "list:val"}, requires=requires, ensures=ensures, axioms=entry_axioms, result_ty="opt:Node",
                   assumptions=("T-unfold(path_node)",))
    w.add(con)
    w.loop(Q_PATH1, 1, inv=inv, axioms=axioms, var_types={"current_node": "opt:Node", "name": "str"})
    return con


# ------------------------------------------------------------------------------------------------ all descendants, document order
Q_FAD = N + "find_all_descendants"
# ghosts (versioned by the children structure and the names):
#   DC(n, x)      number of strict descendants of n named x
#   DCU(n, x, k)  the same, counted in the subtrees of the first k children of n        (DCU(0) = 0; DC(n) = DCU(n, #children))
#   RK(n, x, m)   for a strict descendant m of n: the number of descendants of n named x that precede m in document order
_DC = z3.Function("desc_count", *_CS, smt.FieldArr, I, S, I)
_DCU = z3.Function("desc_count_upto", *_CS, smt.FieldArr, I, S, I, I)
_RK = z3.Function("desc_rank", *_CS, smt.FieldArr, I, S, I, I)


def DC(s, n, x):
    x = _sx(x)
    return _DC(*s.cs, s.arr("F:_name"), n, x)


def DCU(s, n, x, k):
    x = _sx(x)
    return _DCU(*s.cs, s.arr("F:_name"), n, x, k)


def RK(s, n, x, m):
    x = _sx(x)
    return _RK(*s.cs, s.arr("F:_name"), n, x, m)


def hit(s, n, x):
    x = _sx(x)
    return z3.If(s.name(n) == x, 1, 0)


def dcu_step(s, n, x, k):
    """T-unfold at child k: preorder = the child itself, then everything below it"""
    ch = s.kid(n, k)
    return z3.And(DCU(s, n, x, 0) == 0, DC(s, n, x) == DCU(s, n, x, s.nkids(n)), DCU(s, n, x, k + 1) == DCU(s, n, x, k) + hit(s, ch, x) + DC(s, ch, x))


def rk_def(s, n, x):
    """T-unfold of the rank at n, for every strict descendant m: with k the child whose subtree holds m, everything counted in the
    first k subtrees precedes m; if m is not that child itself, the child (when it matches) and what precedes m below it do too"""
    m = z3.Int("rk_m")
    k = W(s, n, m)
    ch = s.kid(n, k)
    return smt.FA([m], z3.Implies(z3.And(SUB(s, n, m), m != n),
                                  RK(s, n, x, m) == DCU(s, n, x, k) + z3.If(m == ch, 0, hit(s, ch, x) + RK(s, ch, x, m))),
                  patterns=[RK(s, n, x, m)])


def desc_frame_steps(s0, s):
    """T-frame of the three ghosts: they read the children structure and the names only"""
    n, m, k = z3.Ints("df_n df_m df_k")
    x = z3.String("df_x")
    d = dict(tree_frame_steps(s0, s))
    d["desc-frame"] = z3.And(smt.FA([n, x], z3.Implies(s0.is_node(n), DC(s, n, x) == DC(s0, n, x)), patterns=[DC(s, n, x), DC(s0, n, x)]),
                             smt.FA([n, x, k], z3.Implies(s0.is_node(n), DCU(s, n, x, k) == DCU(s0, n, x, k)), patterns=[DCU(s, n, x, k), DCU(s0, n, x, k)]),
                             smt.FA([n, x, m], z3.Implies(s0.is_node(n), RK(s, n, x, m) == RK(s0, n, x, m)), patterns=[RK(s, n, x, m), RK(s0, n, x, m)]))
    return d


def install_find_all_descendants(w):
    from .node_ops import kids_typed

    def requires(s, self, child_name, descendants):
        m = z3.Int("rq_m")
        return {"wf": wf_sub(s, self), "kids-typed": kids_typed(s), "tree": TREE(s, self),
                "out-list-is-no-child-list": smt.FA([m], z3.Implies(s.is_node(m), s.kids(m) != descendants), patterns=[s.f("_children", m)])}

    def axioms(s, self, child_name, descendants):
        d = tree_axioms(s, self)
        d["rk"] = rk_def(s, self, child_name)
        d["dcu0"] = z3.And(DCU(s, self, child_name, 0) == 0, DC(s, self, child_name) == DCU(s, self, child_name, s.nkids(self)))
        return d

    def placed(s0, s, n, x, lst, len0, upto, total):
        """every descendant of n named x that lies in one of the first `upto` subtrees sits at its document-order rank"""
        m = z3.Int("pl_m")
        return smt.FA([m], z3.Implies(z3.And(SUB(s0, n, m), m != n, s0.name(m) == x, *([W(s0, n, m) < upto] if upto is not None else [])),
                                      z3.And(0 <= RK(s0, n, x, m), RK(s0, n, x, m) < total, s.at(lst, len0 + RK(s0, n, x, m)) == Val.ref(m))),
                      patterns=[RK(s0, n, x, m)])

    def prefix_kept(s0, s, lst):
        j = z3.Int("pk_j")
        return smt.FA([j], z3.Implies(z3.And(0 <= j, j < s0.len(lst)), s.at(lst, j) == s0.at(lst, j)), patterns=[s.at(lst, j)])

    def appended_nodes(s0, s, lst):
        j = z3.Int("an_j")
        e = s.at(lst, j)
        return smt.FA([j], z3.Implies(z3.And(s0.len(lst) <= j, j < s.len(lst)), z3.And(Val.is_ref(e), s0.is_node(Val.r(e)))), patterns=[s.at(lst, j)])

    def appended_match(s0, s, n, x, lst):
        """soundness direction, stated directly: every appended entry is a strict descendant of n named x"""
        j = z3.Int("am_j")
        e = Val.r(s.at(lst, j))
        return smt.FA([j], z3.Implies(z3.And(s0.len(lst) <= j, j < s.len(lst)), z3.And(SUB(s0, n, e), e != n, s0.name(e) == _sx(x))), patterns=[s.at(lst, j)])

    def ensures(s0, s, self, child_name, descendants, result=None):
        total = DC(s0, self, child_name)
        return {"appended-are-nodes": appended_nodes(s0, s, descendants),
                "top:appended-are-descendants-with-that-name": appended_match(s0, s, self, child_name, descendants),"top:appends-as-many-as-there-are-matching-descendants": z3.And(total >= 0, s.len(descendants) == s0.len(descendants) + total),
                "top:earlier-entries-kept": prefix_kept(s0, s, descendants),
                "top:each-matching-descendant-at-its-document-order-rank": placed(s0, s, self, child_name, descendants, s0.len(descendants),
                                                                                   None, total),
                "no-new-nodes": no_new_nodes(s0, s)}

    def inv(s0, s, v):
        n, x, d = v.self, v.child_name, v.descendants
        sofar = DCU(s0, n, x, v._k)
        return {"bound": v._k <= s0.nkids(n), "count": z3.And(sofar >= 0, s.len(d) == s0.len(d) + sofar), "earlier-entries-kept": prefix_kept(s0, s, d),
                "appended-are-nodes": appended_nodes(s0, s, d), "appended-match": appended_match(s0, s, n, x, d),
                "placed": placed(s0, s, n, x, d, s0.len(d), v._k, sofar), "no-new-nodes": no_new_nodes(s0, s), "top": s.top >= s0.top}

    def loop_axioms(s0, s, v):
        ch = s0.kid(v.self, v._k)
        d = {"kid-refl": SUB(s0, ch, ch), "dcu": dcu_step(s0, v.self, v.child_name, v._k)}
        d.update(desc_frame_steps(s0, s))
        return d

    only_out = {"llen": lambda s0, r, self, child_name, descendants: r == descendants, "lelem": lambda s0, r, self, child_name, descendants: r == descendants}
    con = Contract(Q_FAD, params={"self": "Node", "child_name": "str", "descendants": "list:val"}, requires=requires, axioms=axioms, ensures=ensures,
                   writes=("llen", "lelem"), mods=only_out, mod=lambda s0, r, **kw: z3.BoolVal(False), allocates=True, result_ty="none",
                   decreases=lambda s, self, **kw: H(s, self),
                   assumptions=("T-unfold(desc_count, desc_count_upto, desc_rank)", "T-frame(desc_*)", "T-unfold(Sub,W,Tree)"))
    w.add(con)
    w.call_lemmas[(Q_FAD, Q_FAD)] = lambda s0, s, v: desc_frame_steps(s0, s)
    w.loop(Q_FAD, 1, inv=inv, axioms=loop_axioms, var_types={"child_node": "Node"})
    return con


# ------------------------------------------------------------------------------------------------ all nodes by path (generation by generation)
Q_PATHN = N + "find_all_nodes_by_path"
# ghosts: the k-th generation below a node along a path of names.  G_0 = [node];  G_{k+1} = for every element of G_k in order, its children named
# path[k] in order.  GL(k) its length, GE(k, j) its j-th element, OFF(k, i) how many elements of G_{k+1} come from the first i elements of G_k.
# SI / SC (L-enum): for every position j of G_{k+1}, the index of its parent in G_k and its own index among that parent's children.
_GARGS = (*_CS, smt.FieldArr, I, smt.ElemArr)
_GL = z3.Function("gen_len", *_GARGS, I, I)
_GE = z3.Function("gen_elem", *_GARGS, I, I, Val)
_GOFF = z3.Function("gen_offset", *_GARGS, I, I, I)
_GSI = z3.Function("gen_src_parent", *_GARGS, I, I, I)
_GSC = z3.Function("gen_src_child", *_GARGS, I, I, I)


class Gen:
    def __init__(self, s, node, path):
        self.s, self.node, self.path = s, node, path
        self.a = (*s.cs, s.arr("F:_name"), node, s.elems(path))

    def L(self, k):
        return _GL(*self.a, k)

    def E(self, k, j):
        return _GE(*self.a, k, j)

    def OFF(self, k, i):
        return _GOFF(*self.a, k, i)

    def SI(self, k, j):
        return _GSI(*self.a, k, j)

    def SC(self, k, j):
        return _GSC(*self.a, k, j)

    def x(self, k):
        return Val.s(self.s.at(self.path, k))

    def base(self):
        return z3.And(self.L(0) == 1, self.E(0, 0) == Val.ref(self.node))

    def per_parent(self, k, i):
        p = Val.r(self.E(k, i))
        return CNT(self.s, p, self.x(k), self.s.nkids(p))

    def off_step(self, k, i):
        return z3.And(self.OFF(k, 0) == 0, self.OFF(k, i + 1) == self.OFF(k, i) + self.per_parent(k, i), self.L(k + 1) == self.OFF(k, self.L(k)))

    def elem_def(self, k):
        s = self.s
        i, c = z3.Ints("gd_i gd_c")
        p = Val.r(self.E(k, i))
        return smt.FA([i, c], z3.Implies(z3.And(0 <= i, i < self.L(k), 0 <= c, c < s.nkids(p), s.name(s.kid(p, c)) == self.x(k)),
                                         self.E(k + 1, self.OFF(k, i) + CNT(s, p, self.x(k), c)) == s.at(s.kids(p), c)),
                      patterns=[z3.MultiPattern(self.E(k, i), s.at(s.kids(p), c))])

    def enum(self, k):
        """L-enum: every position of G_{k+1} has a source (proved by induction: enum_lemma below; SI / SC are its skolem witnesses)"""
        s = self.s
        j = z3.Int("ge_j")
        si, sc = self.SI(k + 1, j), self.SC(k + 1, j)
        p = Val.r(self.E(k, si))
        return smt.FA([j], z3.Implies(z3.And(0 <= j, j < self.L(k + 1)),
                                      z3.And(0 <= si, si < self.L(k), 0 <= sc, sc < s.nkids(p), s.name(s.kid(p, sc)) == self.x(k),
                                             j == self.OFF(k, si) + CNT(s, p, self.x(k), sc))),
                      patterns=[self.E(k + 1, j)])


def install_find_all_nodes_by_path(w):
    from .node_ops import kids_typed
    install_find_all_children(w)

    def requires(s, self, path):
        j = z3.Int("pq_j")
        return {"path-of-names": smt.FA([j], z3.Implies(z3.And(0 <= j, j < s.len(path)), Val.is_strv(s.at(path, j))), patterns=[s.at(path, j)]),
                "path-is-no-child-list": smt.FA([j], z3.Implies(s.is_node(j), s.kids(j) != path), patterns=[s.f("_children", j)]),
                "kids-typed": kids_typed(s)}

    def axioms(s, self, path):
        return {"gen0": Gen(s, self, path).base()}

    def is_gen(s0, s, G, lst, k):
        """lst is generation k"""
        j = z3.Int("ig_j")
        return z3.And(s.len(lst) == G.L(k),
                      smt.FA([j], z3.Implies(z3.And(0 <= j, j < s.len(lst)), z3.And(s.at(lst, j) == G.E(k, j), Val.is_ref(s.at(lst, j)), s0.is_node(s.nat(lst, j)))),
                             patterns=[s.at(lst, j)]))

    def ensures(s0, s, self, path, result):
        G = Gen(s0, self, path)
        k = z3.Int("en_k")
        R = Val.r(result)
        L = s0.len(path)
        return {"top:fresh-list": z3.And(Val.is_ref(result), R >= s0.top, R < s.top, kind(R) == KIND_LIST),
                "top:empty-path-gives-empty-list": z3.Implies(L == 0, s.len(R) == 0),
                "top:the-last-generation": z3.Implies(L > 0, is_gen(s0, s, G, R, L))}

    def cur_list(v):
        x = v.raw("current_list")
        return x.ref if isinstance(x, PList) else (x.t if x.t.sort() == I else Val.r(x.t))

    def next_list(v):
        x = v.raw("next_generation")
        return x.ref if isinstance(x, PList) else (x.t if x.t.sort() == I else Val.r(x.t))

    def outer_inv(s0, s, v):
        G = Gen(s0, v.self, v.path)
        C = cur_list(v)
        return {"bound": v._k <= s0.len(v.path), "list": z3.And(C >= s0.top, C < s.top, kind(C) == KIND_LIST, s.len(C) >= 0), "generation": is_gen(s0, s, G, C, v._k),
                "no-new-nodes": no_new_nodes(s0, s), "top": s.top >= s0.top}

    def placed(s0, s, G, k, cur, nxt, upto):
        i, c = z3.Ints("pp_i pp_c")
        p = Val.r(G.E(k, i))        # = cur[i] by the outer invariant; phrased over the ghost so that it chains with elem_def / L-enum
        pos = G.OFF(k, i) + CNT(s0, p, G.x(k), c)
        return smt.FA([i, c], z3.Implies(z3.And(0 <= i, i < upto, 0 <= c, c < s0.nkids(p), s0.name(s0.kid(p, c)) == G.x(k)),
                                         z3.And(0 <= pos, pos < s.len(nxt), s.at(nxt, pos) == s0.at(s0.kids(p), c))),
                      patterns=[z3.MultiPattern(G.E(k, i), s0.at(s0.kids(p), c))])

    def nodes_in(s0, s, lst):
        j = z3.Int("ni_j")
        return smt.FA([j], z3.Implies(z3.And(0 <= j, j < s.len(lst)), z3.And(Val.is_ref(s.at(lst, j)), s0.is_node(s.nat(lst, j)))), patterns=[s.at(lst, j)])

    def inner_inv(s0, s, v):
        G = Gen(s0, v.self, v.path)
        C, X = cur_list(v), next_list(v)
        k = v.k_outer
        return {"bound": v._k <= s.len(C), "lists": z3.And(X >= s0.top, X < s.top, kind(X) == KIND_LIST, X != C, s.len(X) >= 0),
                "current-kept": z3.And(s.len(C) == v.len_C, s.elems(C) == v.elems_C),
                "count": s.len(X) == G.OFF(k, v._k), "placed": placed(s0, s, G, k, C, X, v._k), "next-are-nodes": nodes_in(s0, s, X),
                "no-new-nodes": no_new_nodes(s0, s), "top": s.top >= s0.top}

    def inner_axioms(s0, s, v):
        G = Gen(s0, v.self, v.path)
        return {"off": G.off_step(v.k_outer, v._k)}

    def outer_axioms(s0, s, v):
        G = Gen(s0, v.self, v.path)
        return {"elem-def": G.elem_def(v._k), "L-enum": G.enum(v._k), "off0": z3.And(G.OFF(v._k, 0) == 0, G.L(v._k + 1) == G.OFF(v._k, G.L(v._k))),
                # instance of the lemma empty_generation_lemma() (induction over the generation index): after an empty generation all are empty
                "L-empty-generation": z3.Implies(z3.And(v._k <= s0.len(v.path), G.L(v._k) == 0), G.L(s0.len(v.path)) == 0)}

    def cnt_frame(s0, s, v):
        n, k = z3.Ints("cf_n cf_k")
        x = z3.String("cf_x")
        return {"prove:children-structure-unchanged": cs_same(s0, s),
                "cnt-frame": smt.FA([n, x, k], z3.Implies(s0.is_node(n), CNT(s, n, x, k) == CNT(s0, n, x, k)), patterns=[CNT(s, n, x, k)])}

    con = Contract(Q_PATHN, params={"self": "Node", "path": "list:val"}, requires=requires, axioms=axioms, ensures=ensures, allocates=True, result_ty="list:Node",
                   mod=lambda s0, r, **kw: z3.BoolVal(False),
                   assumptions=("T-unfold(gen_len, gen_elem, gen_offset, count_named)",
                                "L-empty-generation: proved by induction (obligations C09/lemma:empty-generation/*)",
                                "L-enum: every position of a generation has a source position — proved by two nested inductions (obligations C09/lemma:enum/*)"))
    w.add(con)
    vt = {"name": "str", "node": "Node", "current_list": "list:Node", "next_generation": "list:Node"}
    w.loop(Q_PATHN, 1, inv=outer_inv, axioms=outer_axioms, var_types=vt)
    w.loop(Q_PATHN, 2, inv=inner_inv, axioms=inner_axioms, var_types=vt,
           ghost={"k_outer": lambda s, v: v.loop_index(1), "len_C": lambda s, v: s.len(cur_list(v)), "elems_C": lambda s, v: s.elems(cur_list(v))})
    w.call_lemmas[(Q_PATHN, Q_FAC)] = cnt_frame
    return con


def empty_generation_lemma():
    """L-empty-generation, by induction over m >= k:  GL(k) = 0  ==>  GL(m) = 0.  Step: GL(m+1) = OFF(m, GL(m)) = OFF(m, 0) = 0, from the
    unfoldings at m.  Base and step are discharged by z3; the induction principle is applied here.  -> [(name, proved?, seconds)]"""
    import time
    from pyvc.core import Heap, SV
    s = SV(Heap())
    n, p, k, m = z3.Ints("el_n el_p el_k el_m")
    G = Gen(s, n, p)
    defs = [G.OFF(m, 0) == 0, G.L(m + 1) == G.OFF(m, G.L(m))]
    out = []
    for nm, hyps, goal in (("base", [G.L(k) == 0], G.L(k) == 0), ("step", defs + [k <= m, G.L(m) == 0], G.L(m + 1) == 0)):
        t0 = time.time()
        vac = z3.Solver()
        vac.set("timeout", 10000)
        vac.add(*hyps)
        sol = z3.Solver()
        sol.set("timeout", 10000)
        sol.add(*hyps)
        sol.add(z3.Not(goal))
        out.append((nm, vac.check() == z3.sat and sol.check() == z3.unsat, time.time() - t0))      # hypotheses satisfiable (not vacuous) and goal entailed
    return out


def enum_lemma():
    """L-enum by two nested inductions, each step split into its two cases so that every obligation is a ground implication with an explicit
    witness (the induction principle over the naturals is applied here, outside the solver).

    inner (over K <= #children of a node p):   for all t with 0 <= t < CNT(p, x, K) there is c < K with  child c named x  and  CNT(p, x, c) = t
    outer (over I <= GL(k)):                   for all j with 0 <= j < OFF(k, I) there are i < I and c < #children(GE(k, i)) with  child c of GE(k, i) named x
                                               and  j = OFF(k, i) + CNT(GE(k, i), x, c)
    With I = GL(k) and OFF(k, GL(k)) = GL(k+1) the outer statement is Gen.enum(k).   -> [(name, proved?, seconds)]"""
    import time
    from pyvc.core import Heap, SV
    s = SV(Heap())
    p, K, t, n, path, k, I_, j = z3.Ints("le_p le_K le_t le_n le_path le_k le_I le_j")
    x = z3.String("le_x")
    f = z3.Function("le_ih_child", I, I)                 # induction hypothesis of the inner lemma, skolemised: the witness for t
    match = lambda node, c: s.name(s.kid(node, c)) == x
    out = []

    def check(nm, hyps, goal):
        t0 = time.time()
        vac = z3.Solver()
        vac.set("timeout", 10000)
        vac.add(*hyps)
        if vac.check() != z3.sat:           # vacuity guard: contradictory hypotheses would prove anything
            out.append((nm, False, time.time() - t0))
            return
        sol = z3.Solver()
        sol.set("timeout", 10000)
        sol.add(*hyps)
        sol.add(z3.Not(goal))
        out.append((nm, sol.check() == z3.unsat, time.time() - t0))

    cnt_defs = [CNT(s, p, x, 0) == 0, CNT(s, p, x, K + 1) == CNT(s, p, x, K) + z3.If(match(p, K), 1, 0)]
    ih_inner = z3.Implies(z3.And(0 <= t, t < CNT(s, p, x, K)), z3.And(0 <= f(t), f(t) < K, match(p, f(t)), CNT(s, p, x, f(t)) == t))
    good = lambda c, bound: z3.And(0 <= c, c < bound, match(p, c), CNT(s, p, x, c) == t)
    check("inner/base", cnt_defs, z3.Not(z3.And(0 <= t, t < CNT(s, p, x, 0))))
    check("inner/step:witness-from-the-hypothesis", cnt_defs + [K >= 0, ih_inner, 0 <= t, t < CNT(s, p, x, K)], good(f(t), K + 1))
    check("inner/step:the-new-child-is-the-witness", cnt_defs + [K >= 0, CNT(s, p, x, K) >= 0, 0 <= t, t < CNT(s, p, x, K + 1), z3.Not(t < CNT(s, p, x, K))], good(K, K + 1))

    G = Gen(s, n, path)
    xk = G.x(k)
    gi = z3.Function("le_ih_parent", I, I)
    gc = z3.Function("le_ih_child2", I, I)
    inner_w = z3.Function("le_inner_witness", I, I)       # the inner lemma, applied to the parent GE(k, I) with K = its number of children
    par = lambda i: Val.r(G.E(k, i))
    ok = lambda i, c, bound: z3.And(0 <= i, i < bound, 0 <= c, c < s.nkids(par(i)), s.name(s.kid(par(i), c)) == xk, j == G.OFF(k, i) + CNT(s, par(i), xk, c))
    off_defs = [G.OFF(k, 0) == 0, G.OFF(k, I_ + 1) == G.OFF(k, I_) + CNT(s, par(I_), xk, s.nkids(par(I_)))]
    ih_outer = z3.Implies(z3.And(0 <= j, j < G.OFF(k, I_)), ok(gi(j), gc(j), I_))
    tt = j - G.OFF(k, I_)
    inner_inst = z3.Implies(z3.And(0 <= tt, tt < CNT(s, par(I_), xk, s.nkids(par(I_)))),
                            z3.And(0 <= inner_w(tt), inner_w(tt) < s.nkids(par(I_)), s.name(s.kid(par(I_), inner_w(tt))) == xk, CNT(s, par(I_), xk, inner_w(tt)) == tt))
    check("outer/base", off_defs, z3.Not(z3.And(0 <= j, j < G.OFF(k, 0))))
    check("outer/step:witness-from-the-hypothesis", off_defs + [I_ >= 0, ih_outer, 0 <= j, j < G.OFF(k, I_)], ok(gi(j), gc(j), I_ + 1))
    check("outer/step:the-new-parent-holds-the-witness", off_defs + [I_ >= 0, inner_inst, 0 <= j, j < G.OFF(k, I_ + 1), z3.Not(j < G.OFF(k, I_))], ok(I_, inner_w(tt), I_ + 1))
    return out
