"""C11: read-only operations never modify the tree.  Frame-only contracts: nothing is claimed about results; every heap array
the function (or anything it calls) touches must be unchanged for every object allocated before the call, except the explicit
out-parameter list.  The registry Node.store is an ordinary pre-existing dict, so it is covered by the same frames."""
import json
import z3
from xml.sax import saxutils
from pyvc import smt, prims
from pyvc.smt import Val, I, B, S, kind, KIND_NODE, KIND_LIST, KIND_DICT
from pyvc.task import Contract
from pyvc.values import *
from .prelude import *
from .tree import *
from .node_ops import kids_typed

N = "metapype.model.node:Node."
IO = "metapype.model.metapype_io:"
MP = "metapype.model.mp_io:"
EV = "metapype.eml.evaluate:"
EX = "metapype.eml.export:"

U_ESCAPE = z3.Function("saxutils_escape", S, S)
U_DUMPS = z3.Function("json_dumps", I, S)


def install_externals(w):
    def ext_escape(ip, data, entities=None):
        if isinstance(data, str):
            return saxutils.escape(data)
        if isinstance(data, Sym) and data.t.sort() == Val:
            data = ip.resolve(data)
        if data is None:
            ip.py_raise(AttributeError, "'NoneType' object has no attribute 'replace'")
        ip.c.assumptions_used.add("A-escape: xml.sax.saxutils.escape is a pure function of its argument")
        return Sym(U_ESCAPE(data.t), "str")

    def ext_dumps(ip, obj, indent=None, **kw):
        ip.c.assumptions_used.add("A-json: json.dumps reads its argument and returns a new string")
        return Sym(ip.c.fresh("json_text", S), "str")

    w.externals[saxutils.escape] = ext_escape
    w.externals[json.dumps] = ext_dumps


def out_mods(out):
    """only the out-parameter list may be written"""
    if out is None:
        return {}
    return {"llen": lambda s0, r, **kw: r == kw[out], "lelem": lambda s0, r, **kw: r == kw[out]}


def frame_contract(w, qual, params, node_param=None, out=None, recursive=False, result_ty="val", extra_requires=None):
    def requires(s, **kw):
        d = {}
        if recursive and node_param:
            d["wf"] = wf_sub(s, kw[node_param])
            d["kids-typed"] = kids_typed(s)
        if out is not None:
            m = z3.Int("rq_m")
            d["out-list-is-no-child-list"] = smt.FA([m], z3.Implies(s.is_node(m), s.kids(m) != kw[out]), patterns=[s.f("_children", m)])
        if extra_requires:
            d.update(extra_requires(s, **kw))
        return d

    def axioms(s, **kw):
        return tree_axioms(s, kw[node_param]) if node_param else {}

    def ensures(s0, s, result=None, **kw):
        return {"no-new-nodes": no_new_nodes(s0, s)}

    con = Contract(qual, params=params, requires=requires, axioms=axioms, ensures=ensures,
                   writes=("llen", "lelem") if out is not None else (), mods=out_mods(out), mod=lambda s0, r, **kw: z3.BoolVal(False),
                   allocates=True, result_ty=result_ty, modular=recursive,
                   decreases=(lambda s, **kw: H(s, kw[node_param])) if recursive and node_param else None)
    con.ignore_exceptions = True
    if recursive:
        w.add(con)
        w.call_lemmas[(qual, qual)] = lambda s0, s, v: tree_frame_steps(s0, s)
    return con


def loop_frames(out=None, node_var=None, var_types=None, frames=True):
    """invariant for the child loops of recursive readers with an out list: structure unchanged so far"""
    def inv(s0, s, v):
        return {"no-new-nodes": no_new_nodes(s0, s), "top": s.top >= s0.top}

    def axioms(s0, s, v):
        d = {}
        if node_var is not None:
            ch = s0.kid(getattr(v, node_var), v._k)
            d["kid-refl"] = SUB(s0, ch, ch)
        if frames:
            d.update(tree_frame_steps(s0, s))
        return d
    return dict(inv=inv, axioms=axioms, var_types=var_types or {})


def install(w):
    """returns {name: (function, contract)} for every read-only operation that has no functional contract elsewhere"""
    from pyvc.task import LoopC
    w.default_loop = LoopC(inv=lambda s0, s, v: {"no-new-nodes": no_new_nodes(s0, s), "top": s.top >= s0.top})
    from metapype.model.node import Node
    from metapype.model import metapype_io, mp_io
    from metapype.eml import evaluate, export
    install_externals(w)
    out = {}
    # ---- queries
    out["find_all_children"] = (Node.find_all_children, frame_contract(w, N + "find_all_children", {"self": "Node", "child_name": "str"}, result_ty="list:val"))
    c = frame_contract(w, N + "find_all_descendants", {"self": "Node", "child_name": "str", "descendants": "list:val"}, node_param="self",
                       out="descendants", recursive=True, result_ty="none")

    def appended_nodes(s0, s, lst):
        j = z3.Int("an_j")
        e = s.at(lst, j)
        return z3.And(s.len(lst) >= s0.len(lst),
                      smt.FA([j], z3.Implies(z3.And(0 <= j, j < s0.len(lst)), e == s0.at(lst, j)), patterns=[s.at(lst, j)]),
                      smt.FA([j], z3.Implies(z3.And(s0.len(lst) <= j, j < s.len(lst)), z3.And(Val.is_ref(e), s0.is_node(Val.r(e)))), patterns=[s.at(lst, j)]))

    base_ens = c.ensures
    c.ensures = lambda s0, s, result=None, **kw: {**base_ens(s0, s, result=result, **kw), "appended-are-nodes": appended_nodes(s0, s, kw["descendants"])}
    lf = loop_frames(out="descendants", node_var="self")
    base_inv = lf["inv"]
    lf["inv"] = lambda s0, s, v: {**base_inv(s0, s, v), "appended-are-nodes": appended_nodes(s0, s, v.descendants)}
    w.loop(N + "find_all_descendants", 1, **lf)
    out["find_all_descendants"] = (Node.find_all_descendants, c)
    out["find_single_node_by_path"] = (Node.find_single_node_by_path, frame_contract(w, N + "find_single_node_by_path", {"self": "Node", "path": "list:val"}, result_ty="val"))
    w.loop(N + "find_single_node_by_path", 1, **loop_frames(frames=False, var_types={"current_node": "opt:Node", "name": "val"}))
    out["find_all_nodes_by_path"] = (Node.find_all_nodes_by_path, frame_contract(w, N + "find_all_nodes_by_path", {"self": "Node", "path": "list:val"}, result_ty="val"))
    w.loop(N + "find_all_nodes_by_path", 1, **loop_frames(frames=False, var_types={"current_list": "list:Node", "next_generation": "list:Node", "name": "val", "node": "Node"}))
    out["get_ancestry"] = (Node.get_ancestry, frame_contract(w, N + "get_ancestry", {"self": "Node"}, result_ty="val"))
    w.loop(N + "get_ancestry", 1, **loop_frames(frames=False, var_types={"node": "Node"}))
    out["find_child"] = (Node.find_child, frame_contract(w, N + "find_child", {"self": "Node", "child_name": "str"}, result_ty="val"))
    out["child_index"] = (Node.child_index, frame_contract(w, N + "child_index", {"self": "Node", "child": "Node"}, result_ty="val"))
    c = frame_contract(w, N + "find_descendant", {"self": "Node", "descendant_name": "str"}, node_param="self", recursive=True, result_ty="opt:Node")
    w.loop(N + "find_descendant", 1, **loop_frames(node_var="self", var_types={"descendant": "opt:Node"}))
    out["find_descendant"] = (Node.find_descendant, c)
    # ---- small accessors and the printable forms
    out["attribute_value"] = (Node.attribute_value, frame_contract(w, N + "attribute_value", {"self": "Node", "name": "str"}, result_ty="val"))
    out["list_attributes"] = (Node.list_attributes, frame_contract(w, N + "list_attributes", {"self": "Node"}, result_ty="val"))
    out["__str__"] = (Node.__str__, frame_contract(w, N + "__str__", {"self": "Node"}, result_ty="val"))
    out["__repr__"] = (Node.__repr__, frame_contract(w, N + "__repr__", {"self": "Node"}, result_ty="val"))
    # ---- serialisers
    c = frame_contract(w, IO + "_serialize", {"node": "Node"}, node_param="node", recursive=True, result_ty="val")
    w.loop(IO + "_serialize", 1, **loop_frames(node_var="node"))
    out["_serialize"] = (metapype_io._serialize, c)
    out["to_json"] = (metapype_io.to_json, frame_contract(w, IO + "to_json", {"node": "Node", "indent": "opt:int"}, node_param="node",
                                                         extra_requires=lambda s, node, **kw: {"wf": wf_sub(s, node), "kids-typed": kids_typed(s)}, result_ty="val"))
    c = frame_contract(w, IO + "to_xml", {"node": "Node", "parent": "opt:Node", "level": "int", "skip_ns": "bool"}, node_param="node", recursive=True, result_ty="str")
    w.loop(IO + "to_xml", 5, **loop_frames(node_var="node"))
    out["to_xml"] = (metapype_io.to_xml, c)
    c = frame_contract(w, IO + "graph", {"node": "Node", "level": "int"}, node_param="node", recursive=True, result_ty="str")
    w.loop(IO + "graph", 1, **loop_frames(node_var="node"))
    out["graph"] = (metapype_io.graph, c)
    c = frame_contract(w, EX + "to_xml", {"node": "Node", "level": "int"}, node_param="node", recursive=True, result_ty="str")
    w.loop(EX + "to_xml", 3, **loop_frames(node_var="node"))
    out["export.to_xml"] = (export.to_xml, c)
    c = frame_contract(w, MP + "objectify", {"node": "Node"}, node_param="node", recursive=True, result_ty="val")
    w.loop(MP + "objectify", 1, **loop_frames(node_var="node"))
    out["mp_io.objectify"] = (mp_io.objectify, c)
    out["mp_io.to_json"] = (mp_io.to_json, frame_contract(w, MP + "to_json", {"node": "Node"}, node_param="node",
                                                          extra_requires=lambda s, node, **kw: {"wf": wf_sub(s, node), "kids-typed": kids_typed(s)}, result_ty="val"))
    # ---- evaluation
    c = frame_contract(w, EV + "tree", {"root": "Node", "warnings": "list:val"}, node_param="root", out="warnings", recursive=True, result_ty="none")
    w.loop(EV + "tree", 1, **loop_frames(out="warnings", node_var="root"))
    out["evaluate.tree"] = (evaluate.tree, c)
    for caller in ("get_text_content",):
        w.call_lemmas[(EV + caller, N + "find_all_descendants")] = lambda s0, s, v: tree_frame_steps(s0, s)
    # every evaluator is verified on its own and enters evaluate.node by its (frame-only) contract
    sub = lambda s, **kw: {"wf": wf_sub(s, list(kw.values())[0]), "kids-typed": kids_typed(s)}
    for fname in sorted(n for n in dir(evaluate) if n.endswith("_rule") and callable(getattr(evaluate, n))) + ["get_text_content"]:
        f = getattr(evaluate, fname)
        pname = "text_node" if fname == "get_text_content" else "node"
        c = frame_contract(w, EV + fname, {pname: "Node"}, node_param=pname, extra_requires=sub,
                           result_ty="val" if fname == "get_text_content" else "opt:list:val")
        c.modular = True
        w.add(c)
        out["evaluate." + fname] = (f, c)
    out["evaluate.node"] = (evaluate.node, frame_contract(w, EV + "node", {"node": "Node"}, node_param="node",
                                                          extra_requires=lambda s, node, **kw: {"wf": wf_sub(s, node), "kids-typed": kids_typed(s)}, result_ty="opt:list:val"))
    # ---- insertion-index computation, for an arbitrary rule: the Rule instance is built by the real constructor and its flattened
    # child-name list is then replaced by an arbitrary list of strings (the only rule data these two functions read)
    from metapype.eml import rule as rule_mod

    def any_rule(ip):
        r = ip.call(rule_mod.Rule, ["anyNameRule"], {})
        t = z3.Int("a_rule_child_names")
        ip.c.assume(ip.c.ty_fact(Val.ref(t), "list:str"))
        j = z3.Int("rn_j")
        ip.c.assume(smt.FA([j], Val.is_strv(ip.c.heap.get("lelem")[t][j]), patterns=[ip.c.heap.get("lelem")[t][j]]))
        r.fields["_rule_children_names"] = Sym(t, "list:str")
        return r
    R = "metapype.eml.rule:Rule."
    out["Rule.child_insert_index"] = (rule_mod.Rule.child_insert_index, frame_contract(w, R + "child_insert_index", {"self": any_rule, "parent": "Node", "new_child": "Node"}, result_ty="val"))
    w.loop(R + "child_insert_index", 1, **loop_frames(frames=False, var_types={"index": "int", "child": "Node", "parent_child_index": "int"}))
    out["Rule.is_allowed_child"] = (rule_mod.Rule.is_allowed_child, frame_contract(w, R + "is_allowed_child", {"self": any_rule, "child_name": "str"}, result_ty="val"))
    return out
