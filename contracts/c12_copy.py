"""C12: Node.copy is deep, equal and independent (pointwise over the nodes the call allocates, via the ghost origin map)."""
import z3
from pyvc import smt
from pyvc.smt import Val, I, B, kind, KIND_NODE, KIND_LIST, KIND_DICT
from pyvc.task import Contract
from .prelude import *
from .tree import *
from .node_ops import store_map, idkey, kids_typed
from .c13_ns import DICT_ARRS

Q = "metapype.model.node:Node.copy"
SCALARS = ("_name", "_content", "_tail", "_prefix")
DICTS = ("_attributes", "_nsmap", "_extras")


def new_node(s0, s, c):
    return z3.And(s0.top <= c, c < s.top, kind(c) == KIND_NODE)


def sub_height(s):
    n, m = z3.Ints("sh_n sh_m")
    return smt.FA([n, m], z3.Implies(SUB(s, n, m), H(s, m) <= H(s, n)), patterns=[SUB(s, n, m)])


def good_parts(s0, s, c, partial_children=None):
    """node c (allocated by this call) mirrors its origin: scalar fields equal, private containers with equal contents,
    children the copies of the origin's children in order, parent links inside the copy, registered under a fresh id"""
    o = ORIG(c)
    i = z3.Int("gd_i")
    parts = {}
    parts["scalars"] = z3.And(*[s.f(f, c) == s0.f(f, o) for f in SCALARS])
    dl = []
    for f in DICTS:
        d = s.fr(f, c)
        dl.append(z3.And(Val.is_ref(s.f(f, c)), s0.top <= d, d < s.top, kind(d) == KIND_DICT, s.dmap(d) == s0.dmap(s0.fr(f, o)), s.dn(d) == s0.dn(s0.fr(f, o))))
    parts["dicts"] = z3.And(*dl)
    L = s.kids(c)
    n = s0.nkids(o) if partial_children is None else partial_children
    parts["list"] = z3.And(Val.is_ref(s.f("_children", c)), s0.top <= L, L < s.top, kind(L) == KIND_LIST, s.len(L) == n)
    ch = s.nat(L, i)
    parts["children"] = smt.FA([i], z3.Implies(z3.And(0 <= i, i < n), z3.And(Val.is_ref(s.at(L, i)), new_node(s0, s, ch), ORIG(ch) == s0.kid(o, i),
                                                                               s.f("_parent", ch) == Val.ref(c), ch != c)), patterns=[s.at(L, i)])
    parts["id"] = z3.And(Val.is_strv(s.f("_id", c)), store_map(s0)[idkey(s, c)] == smt.absent, store_map(s)[idkey(s, c)] == Val.ref(c))
    return parts


def good(s0, s, c, partial_children=None):
    return z3.And(*good_parts(s0, s, c, partial_children).values())


def install(w):
    def requires(s, self):
        m, i = z3.Ints("rq_m rq_i")
        ch = s.f("_children", m)
        return {"wf": wf_sub(s, self), "tree": TREE(s, self), "store-not-a-node": kind(STORE) == KIND_DICT,
                # T-schema, local to the subtree that is copied
                "subtree-typed": smt.FA([m], z3.Implies(SUB(s, self, m), z3.And(
                    s.is_node(m), Val.is_ref(ch), s.alloc(Val.r(ch)), kind(Val.r(ch)) == KIND_LIST, s.len(Val.r(ch)) >= 0,
                    *[z3.And(s.fr(f, m) != STORE, Val.is_ref(s.f(f, m)), s.alloc(s.fr(f, m)), kind(s.fr(f, m)) == KIND_DICT) for f in DICTS])),
                    patterns=[SUB(s, self, m)]),
                "subtree-kids": smt.FA([m, i], z3.Implies(z3.And(SUB(s, self, m), 0 <= i, i < s.nkids(m)),
                                                          z3.And(Val.is_ref(s.at(s.kids(m), i)), s.is_node(s.kid(m, i)))),
                                       patterns=[z3.MultiPattern(SUB(s, self, m), s.at(s.kids(m), i))])}

    def axioms(s, self):
        d = tree_axioms(s, self)
        d["sub-height"] = sub_height(s)
        return d

    def apart(s, c, cp):
        """c's containers are not cp's (the copy under construction is written while the finished ones must stay as they are)"""
        cl = [s.kids(c) != s.kids(cp)]
        for f in DICTS:
            for g in DICTS:
                cl.append(s.fr(f, c) != s.fr(g, cp))
        return z3.And(*cl)

    def all_good(s0, s, self, except_=None, upto=None):
        return z3.And(*all_good_parts(s0, s, self, except_).values())

    def all_good_parts(s0, s, self, except_=None):
        c = z3.Int("ag_c")
        hyp = [new_node(s0, s, c)]
        parts = {"origin": SUB(s0, self, ORIG(c))}
        parts.update(good_parts(s0, s, c))
        if except_ is not None:
            hyp.append(c != except_)
            parts["apart"] = apart(s, c, except_)
        return {"others-good:" + k: smt.FA([c], z3.Implies(z3.And(*hyp), v), patterns=[kind(c)]) for k, v in parts.items()}

    def pairwise_apart(s0, s, except_=None):
        """containers (child list, the three dicts) of two different nodes allocated by this call are different objects"""
        c1, c2 = z3.Ints("pw_c1 pw_c2")
        hyp = [new_node(s0, s, c1), new_node(s0, s, c2), c1 != c2]
        if except_ is not None:
            hyp += [c1 != except_, c2 != except_]
        return smt.FA([c1, c2], z3.Implies(z3.And(*hyp), apart(s, c1, c2)), patterns=[z3.MultiPattern(kind(c1), kind(c2))])

    def own_dicts_distinct(s0, s):
        c = z3.Int("od_c")
        a, n, e = (s.fr(f, c) for f in DICTS)
        return smt.FA([c], z3.Implies(new_node(s0, s, c), z3.And(a != n, a != e, n != e)), patterns=[kind(c)])

    def store_delta(s0, s):
        k = z3.Const("sd_k", Val)
        st0, st1 = store_map(s0), store_map(s)
        v = st1[k]
        return smt.FA([k], z3.Implies(st1[k] != st0[k], z3.And(st0[k] == smt.absent, Val.is_ref(v), new_node(s0, s, Val.r(v)), idkey(s, Val.r(v)) == k)),
                      patterns=[st1[k]])

    def root_not_child(s0, s, root):
        c, i = z3.Ints("rn_c rn_i")
        return smt.FA([c, i], z3.Implies(z3.And(new_node(s0, s, c), 0 <= i, i < s.nkids(c)), s.kid(c, i) != root), patterns=[s.at(s.kids(c), i)])

    def ensures(s0, s, self, result):
        r = Val.r(result)
        return {"top:fresh-root": z3.And(Val.is_ref(result), new_node(s0, s, r), ORIG(r) == self),
                **{"top:every-new-node-mirrors-its-origin/" + k.split(":")[1]: v for k, v in all_good_parts(s0, s, self).items()},
                "top:registry-delta": store_delta(s0, s),
                "top:containers-of-different-copies-are-different-objects": pairwise_apart(s0, s),
                "top:the-three-dicts-of-a-copy-are-different-objects": own_dicts_distinct(s0, s),
                "root-not-a-child": root_not_child(s0, s, r),
                "top": s.top >= s0.top}

    def registered(s0, s, cp):
        k = z3.Const("rg_k", Val)
        return z3.And(Val.is_strv(s.f("_id", cp)), store_map(s0)[idkey(s, cp)] == smt.absent,
                      smt.FA([k], store_map(s)[k] == z3.If(k == idkey(s, cp), Val.ref(cp), store_map(s0)[k]), patterns=[store_map(s)[k]]))

    def dict_done(s0, s, cp, self, f):
        d = s.fr(f, cp)
        return z3.And(Val.is_ref(s.f(f, cp)), s0.top <= d, d < s.top, kind(d) == KIND_DICT, s.dmap(d) == s0.dmap(s0.fr(f, self)), s.dn(d) == s0.dn(s0.fr(f, self)))

    def dict_other(s0, s, cp, self, f):
        """the order in which copy() rebuilds its three dictionaries is not part of the property: another dictionary is either
        rebuilt already or still the one the shallow copy shares with the original"""
        return z3.Or(dict_done(s0, s, cp, self, f), s.f(f, cp) == s0.f(f, self))

    def dict_inv(field):
        others = [f for f in DICTS if f != field]

        def inv(s0, s, v):
            q = z3.Const("di_q", Val)
            src = s0.fr(field, v.self)
            D = v.D
            m0, pos = s0.dmap(src), s0.dpos(src)
            return {"registered": registered(s0, s, v._copy), "other-dicts": z3.And(*[dict_other(s0, s, v._copy, v.self, f) for f in others]),
                    "distinct": z3.And(*[s.fr(f, v._copy) != D for f in others]),
                    "bound": v._k <= s0.dn(src), "field": s.f(field, v._copy) == Val.ref(D), "fresh": z3.And(D >= s0.top, D < s.top, kind(D) == KIND_DICT),
                    "contents": smt.FA([q], s.dmap(D)[q] == z3.If(z3.And(0 <= pos[q], pos[q] < v._k, m0[q] != smt.absent), m0[q], smt.absent),
                                       patterns=[s.dmap(D)[q]]),
                    "size": s.dn(D) == v._k}
        return inv

    def child_inv(s0, s, v):
        self, cp = v.self, v._copy
        return {"bound": v._k <= s0.nkids(self), "copy-new": z3.And(new_node(s0, s, cp), ORIG(cp) == self),
                **all_good_parts(s0, s, self, except_=cp),
                "copy-partial": good(s0, s, cp, partial_children=v._k),
                "pairwise-apart": pairwise_apart(s0, s, except_=cp), "own-dicts-distinct": own_dicts_distinct(s0, s),
                "registry-delta": store_delta(s0, s), "root-not-a-child": root_not_child(s0, s, cp), "top": s.top >= s0.top}

    def child_axioms(s0, s, v):
        ch = s0.kid(v.self, v._k)
        d = {"kid-refl": SUB(s0, ch, ch)}
        d.update(subtree_frame_steps(s0, s, v.self))
        return d

    con = Contract(Q, params={"self": "Node"}, requires=requires, axioms=axioms, ensures=ensures,
                   writes=tuple("F:" + f for f in NODE_FIELDS) + ("llen", "lelem") + DICT_ARRS,
                   mods={a: (lambda s0, r, self: r == STORE) for a in DICT_ARRS}, mod=lambda s0, r, **kw: z3.BoolVal(False),
                   allocates=True, result_ty="Node", decreases=lambda s, self: H(s, self),
                   assumptions=("A-uuid", "A-copy.copy(shallow)", "T-unfold(Sub,W,Tree)", "ghost copy_origin defined at allocation"))
    w.add(con)
    w.call_lemmas[(Q, Q)] = lambda s0, s, v: subtree_frame_steps(s0, s, v.self)
    w.loop(Q, 1, inv=dict_inv("_attributes"), ghost={"D": lambda s, v: s.fr("_attributes", v._copy)}, arrays=DICT_ARRS)
    w.loop(Q, 2, inv=dict_inv("_nsmap"), ghost={"D": lambda s, v: s.fr("_nsmap", v._copy)}, arrays=DICT_ARRS)
    w.loop(Q, 3, inv=dict_inv("_extras"), ghost={"D": lambda s, v: s.fr("_extras", v._copy)}, arrays=DICT_ARRS)
    w.loop(Q, 4, inv=child_inv, axioms=child_axioms, arrays=tuple("F:" + f for f in NODE_FIELDS) + ("llen", "lelem", "top") + DICT_ARRS)
    return con
