"""C13: namespace operations stay inside the subtree they are applied to."""
import z3
from pyvc.smt import Val, I, B, kind, KIND_NODE, KIND_LIST, KIND_DICT
from pyvc import smt
from pyvc.task import Contract
from .prelude import *
from .tree import *

QA = "metapype.model.node:Node.add_namespace"
QR = "metapype.model.node:Node.remove_namespace"
QC = "metapype.model.node:Node.add_child"

DICT_ARRS = ("dmap", "dn", "dkey", "dpos")


def nsd(s, m):
    """the namespace dict object of node m"""
    return s.fr("_nsmap", m)


def nsmap_of(s, m):
    """the bindings seen on node m"""
    return s.dmap(nsd(s, m))


def schema_ns(s):
    """T-schema, quantified: every node's _nsmap is an allocated dict"""
    m = z3.Int("sc_m")
    v = s.f("_nsmap", m)
    return smt.FA([m], z3.Implies(s.is_node(m), z3.And(Val.is_ref(v), s.alloc(Val.r(v)), kind(Val.r(v)) == KIND_DICT)),
                     patterns=[s.f("_nsmap", m)])


def upd(op, old, p, u):
    if op == "add":
        return z3.Store(old, Val.strv(p), Val.strv(u))
    return z3.Store(old, Val.strv(p), smt.absent)


def make(op):
    def requires(s, self, prefix, nsmap_id, namespace=None):
        cl = {"wf": wf_sub(s, self), "tree": TREE(s, self), "schema": schema_ns(s)}
        if nsmap_id is not None:
            # continuation form: the caller has just pointed self at its own, already updated map
            # (nsmap_id is the identity of the map self shared with its parent before the operation)
            cl["updated"] = nsmap_of(s, self) == upd(op, s.dmap(nsmap_id), prefix, namespace)
        return cl

    def axioms(s, self, prefix, nsmap_id, namespace=None):
        return tree_axioms(s, self)

    def ensures(s0, s, self, prefix, nsmap_id, namespace=None, result=None):
        m = z3.Int("en_m")
        cl = {}
        if nsmap_id is None:
            inside = smt.FA([m], z3.Implies(SUB(s0, self, m), nsmap_of(s, m) == upd(op, nsmap_of(s0, m), prefix, namespace)),
                               patterns=[SUB(s0, self, m)])
        else:
            inside = z3.And(
                smt.FA([m], z3.Implies(z3.And(SUB(s0, self, m), m != self),
                                          nsmap_of(s, m) == upd(op, nsmap_of(s0, m), prefix, namespace)), patterns=[SUB(s0, self, m)]),
                nsd(s, self) == nsd(s0, self))
        cl["top:inside"] = inside
        cl["top:outside"] = smt.FA([m], z3.Implies(z3.And(s0.is_node(m), z3.Not(SUB(s0, self, m))), nsmap_of(s, m) == nsmap_of(s0, m)),
                                      patterns=[s.f("_nsmap", m)])
        cl["schema"] = schema_ns(s)
        cl["no-new-nodes"] = no_new_nodes(s0, s)
        return cl

    def mod_ns(s0, r, self, **kw):
        return SUB(s0, self, r)

    def mod_none(s0, r, **kw):
        return z3.BoolVal(False)

    def loop_inv(s0, s, v):
        m = z3.Int("li_m")
        self = v.self
        p = v.prefix
        u = v.namespace if op == "add" else None
        cl = {
            "bound": v._k <= s0.nkids(self),
            "done": smt.FA([m], z3.Implies(below_first(s0, self, v._k, m), nsmap_of(s, m) == upd(op, nsmap_of(s0, m), p, u)),
                              patterns=[SUB(s0, self, m)]),
            "todo": smt.FA([m], z3.Implies(z3.And(s0.is_node(m), z3.Not(below_first(s0, self, v._k, m)), m != self),
                                              s.f("_nsmap", m) == s0.f("_nsmap", m)), patterns=[s.f("_nsmap", m)]),
            "schema": schema_ns(s),
            "self-map": nsmap_of(s, self) == upd(op, s0.dmap(v.nsmap_id), p, u),
            "self-field": s.f("_nsmap", self) == v.self_ns,
            "top": s.top >= s0.top,
            "no-new-nodes": no_new_nodes(s0, s),
        }
        if v.raw("nsmap_id") is None or True:
            pass
        # the dictionary self points at no longer changes, and no pre-existing dict object is written
        return cl

    def loop_axioms(s0, s, v):
        self = v.self
        ch = s0.kid(self, v._k)
        return {"kid-refl": SUB(s0, ch, ch)}

    return requires, axioms, ensures, mod_ns, mod_none, loop_inv, loop_axioms


def install(w):
    out = {}
    for op, q in (("add", QA), ("remove", QR)):
        requires, axioms, ensures, mod_ns, mod_none, loop_inv, loop_axioms = make(op)
        params = {"self": "Node", "prefix": "str"}
        if op == "add":
            params["namespace"] = "str"
        con = Contract(q, params=params, requires=requires, axioms=axioms, ensures=ensures,
                       writes=("F:_nsmap",) + DICT_ARRS, mods={"F:_nsmap": mod_ns}, mod=mod_none, allocates=True,
                       result_ty="none", decreases=lambda s, self, **kw: H(s, self),
                       assumptions=("A-id", "A-deepcopy(str->str dict)", "T-unfold(Sub,SubPre,Tree)"))
        w.add(con)
        w.loop(q, 1, inv=loop_inv, axioms=loop_axioms, ghost={"self_ns": lambda s, v: s.f("_nsmap", v.self)})
        out[op] = con
    return out


# ------------------------------------------------------------------------------------------------ bulk helpers
QS = "metapype.model.node:Node.set_nsmap"
QF = "metapype.model.node:Node.fix_nsmap"


def outside_unchanged(s0, s, root):
    m = z3.Int("ou_m")
    return smt.FA([m], z3.Implies(z3.And(s0.is_node(m), z3.Not(SUB(s0, root, m))), nsmap_of(s, m) == nsmap_of(s0, m)),
                  patterns=[s.f("_nsmap", m)])


def install_bulk(w, cons):
    # ---- set_nsmap: points the whole subtree (or just the node) at the given dict object
    def sn_requires(s, self, nsmap, children):
        return {"wf": wf_sub(s, self), "tree": TREE(s, self), "schema": schema_ns(s)}

    def sn_axioms(s, self, nsmap, children):
        return tree_axioms(s, self)

    def sn_ensures(s0, s, self, nsmap, children, result=None):
        m = z3.Int("sn_m")
        return {
            "inside": smt.FA([m], z3.Implies(z3.And(SUB(s0, self, m), z3.Or(children, m == self)), nsd(s, m) == nsmap),
                             patterns=[SUB(s0, self, m)]),
            "top:outside": outside_unchanged(s0, s, self),
            "schema": schema_ns(s),
        }

    def sn_inv(s0, s, v):
        m = z3.Int("si_m")
        self = v.self
        return {
            "bound": v._k <= s0.nkids(self),
            "done": smt.FA([m], z3.Implies(below_first(s0, self, v._k, m), nsd(s, m) == v.nsmap), patterns=[SUB(s0, self, m)]),
            "todo": smt.FA([m], z3.Implies(z3.And(s0.is_node(m), z3.Not(below_first(s0, self, v._k, m)), m != self),
                                           s.f("_nsmap", m) == s0.f("_nsmap", m)), patterns=[s.f("_nsmap", m)]),
            "self": nsd(s, self) == v.nsmap,
            "schema": schema_ns(s),
        }

    def kid_refl(s0, s, v):
        n = v.self if v.has("self") else v.node
        ch = s0.kid(n, v._k)
        return {"kid-refl": SUB(s0, ch, ch)}

    con = Contract(QS, params={"self": "Node", "nsmap": "dict:str", "children": "bool"}, requires=sn_requires, axioms=sn_axioms,
                   ensures=sn_ensures, writes=("F:_nsmap",), mods={"F:_nsmap": lambda s0, r, self, **kw: SUB(s0, self, r)},
                   mod=lambda s0, r, **kw: z3.BoolVal(False), result_ty="none", decreases=lambda s, self, **kw: H(s, self),
                   assumptions=("T-unfold(Sub,W,Tree)",))
    w.add(con)
    w.loop(QS, 1, inv=sn_inv, axioms=kid_refl)
    cons["set_nsmap"] = con

    # ---- fix_nsmap: only the frame is claimed (what it does inside the subtree is not part of C13)
    def fx_requires(s, cls, node, nsmap, nsmap_id):
        return {"wf": wf_sub(s, node), "tree": TREE(s, node), "schema": schema_ns(s)}

    def fx_axioms(s, cls, node, nsmap, nsmap_id):
        return tree_axioms(s, node)

    def fx_ensures(s0, s, cls, node, nsmap, nsmap_id, result=None):
        return {"top:outside": outside_unchanged(s0, s, node), "schema": schema_ns(s), "no-new-nodes": no_new_nodes(s0, s)}

    def fx_inv1(s0, s, v):
        # the loop over the parent's prefixes writes only the private copy made just before it
        return {"own-map": z3.And(nsd(s, v.node) == v.own, v.own >= s0.top), "schema": schema_ns(s),
                "no-new-nodes": no_new_nodes(s0, s), "top": s.top >= s0.top}

    def fx_inv2(s0, s, v):
        return {"schema": schema_ns(s), "no-new-nodes": no_new_nodes(s0, s), "top": s.top >= s0.top}

    conf = Contract(QF, params={"cls": ("const", Node), "node": "Node"}, requires=fx_requires, axioms=fx_axioms, ensures=fx_ensures,
                    writes=("F:_nsmap",) + DICT_ARRS, mods={"F:_nsmap": lambda s0, r, node, **kw: SUB(s0, node, r)},
                    mod=lambda s0, r, **kw: z3.BoolVal(False), allocates=True, result_ty="none",
                    decreases=lambda s, node, **kw: H(s, node), assumptions=("A-id", "A-deepcopy(str->str dict)", "T-unfold(Sub,W,Tree)"))
    w.add(conf)
    w.loop(QF, 1, inv=fx_inv1, ghost={"own": lambda s, v: nsd(s, v.node)})
    w.loop(QF, 2, inv=fx_inv2, axioms=kid_refl)
    cons["fix_nsmap"] = conf
