"""C14: the node registry tracks exactly the live nodes (constructor, get/set, delete; copy/replace deltas are in C12/C09)."""
import z3
from pyvc import smt
from pyvc.smt import Val, I, B, kind, KIND_NODE, KIND_LIST, KIND_DICT
from pyvc.task import Contract
from .prelude import *
from .node_ops import store_map, idkey
from .c13_ns import DICT_ARRS

Q_INIT = "metapype.model.node:Node.__init__"
Q_GET = "metapype.model.node:Node.get_node_instance"
Q_SET = "metapype.model.node:Node.set_node_instance"


def install(w):
    # ---- constructor
    def init_requires(s, self, name, id, parent, content):
        return {"registry-is-a-dict": z3.And(kind(STORE) == KIND_DICT, STORE != self)}

    def init_ensures(s0, s, self, name, id, parent, content, result=None):
        k = z3.Const("in_k", Val)
        st0, st1 = store_map(s0), store_map(s)
        key = idkey(s, self)
        cl = {
            "top:fields": z3.And(s.f("_name", self) == Val.strv(name), s.f("_parent", self) == parent, s.f("_tail", self) == Val.none,
                                 s.f("_prefix", self) == Val.none,
                                 z3.If(content == Val.none, s.f("_content", self) == Val.none, z3.Implies(Val.is_strv(content), s.f("_content", self) == content))),
            "top:id": z3.And(Val.is_strv(key), z3.If(id == Val.none, st0[key] == smt.absent, key == id)),
            "top:registered-exactly-this": smt.FA([k], st1[k] == z3.If(k == key, Val.ref(self), st0[k]), patterns=[st1[k]]),
        }
        fresh = []
        for f, kd in (("_attributes", KIND_DICT), ("_nsmap", KIND_DICT), ("_extras", KIND_DICT), ("_children", KIND_LIST)):
            r = s.fr(f, self)
            fresh.append(z3.And(Val.is_ref(s.f(f, self)), r >= s0.top, r < s.top, kind(r) == kd,
                                (s.dn(r) == 0) if kd == KIND_DICT else (s.len(r) == 0)))
        cl["top:private-empty-containers"] = z3.And(*fresh)
        refs = [s.fr(f, self) for f in ("_attributes", "_nsmap", "_extras")]
        cl["top:containers-distinct"] = z3.And(refs[0] != refs[1], refs[0] != refs[2], refs[1] != refs[2])
        return cl

    con_init = Contract(Q_INIT, params={"self": "RawNode", "name": "str", "id": "opt:str", "parent": "opt:Node", "content": "opt:str"},
                        requires=init_requires, ensures=init_ensures,
                        writes=tuple("F:" + f for f in NODE_FIELDS) + ("llen", "lelem") + DICT_ARRS,
                        mods={**{"F:" + f: (lambda s0, r, self, **kw: r == self) for f in NODE_FIELDS}, **{a: (lambda s0, r, **kw: r == STORE) for a in DICT_ARRS}},
                        mod=lambda s0, r, **kw: z3.BoolVal(False), allocates=True, result_ty="none", modular=False, assumptions=("A-uuid",))

    # ---- get / set
    def get_ensures(s0, s, cls, id, result):
        v = store_map(s0)[Val.strv(id)]
        return {"top:lookup": result == z3.If(v == smt.absent, Val.none, v)}

    con_get = Contract(Q_GET, params={"cls": ("const", Node), "id": "str"}, ensures=get_ensures, result_ty="opt:Node", modular=False)

    def set_ensures(s0, s, cls, node, result=None):
        k = z3.Const("se_k", Val)
        st0, st1 = store_map(s0), store_map(s)
        return {"top:registered-exactly-this": smt.FA([k], st1[k] == z3.If(k == idkey(s0, node), Val.ref(node), st0[k]), patterns=[st1[k]])}

    con_set = Contract(Q_SET, params={"cls": ("const", Node), "node": "Node"}, ensures=set_ensures, writes=DICT_ARRS,
                       mod=lambda s0, r, **kw: r == STORE, result_ty="none", modular=False)
    return con_init, con_get, con_set
