"""C15: validate.prune.  Deductive core: the two loop-free cases (a metadata node is left alone; a node with an unknown element
name is detached, unregistered with its whole subtree and reported) against the contracts of remove_child (C09) and
delete_node_instance (C14).  The recursive case over known elements is covered by the bounded pass (labelled bounded)."""
import z3
from pyvc import smt
from pyvc.smt import Val, I, B, kind, KIND_NODE, KIND_LIST, KIND_DICT
from pyvc.task import Contract
from .prelude import *
from .prelude import _CS
from .tree import *
from . import node_ops
from .node_ops import store_map, idkey, reg_sub, deleted_key, shape_inv, IDX, idx_def, others_lists_unchanged
from .c13_ns import DICT_ARRS

Q = "metapype.eml.validate:prune"


def install(w, case):
    import metapype.eml.rule as rule_mod
    known = list(rule_mod.node_mappings)
    node_ops.install_remove_child(w)
    node_ops.install_delete(w)

    def is_known(s, n):
        return smt.disj([s.name(n) == z3.StringVal(x) for x in known])

    def requires(s, n, strict):
        d = {}
        if case == "metadata":
            d["case"] = s.name(n) == z3.StringVal("metadata")
            return d
        d["case"] = z3.And(z3.Not(is_known(s, n)), s.name(n) != z3.StringVal("metadata"))
        d.update(shape_inv(s))
        p = s.f("_parent", n)
        pl = s.kids(Val.r(p))
        d["listed-by-its-parent"] = z3.Implies(p != Val.none, z3.And(Val.is_ref(p), s.is_node(Val.r(p)), IDX(s.elems(pl), s.len(pl), Val.ref(n)) != -1))
        d["registered"] = z3.And(store_map(s)[idkey(s, n)] == Val.ref(n), reg_sub(s, n), Val.is_strv(s.f("_id", n)))
        d["tree"] = z3.And(TREE(s, n), wf_sub(s, n))
        d["not-above-its-parent"] = z3.Implies(p != Val.none, z3.Not(SUB(s, n, Val.r(p))))
        return d

    def axioms(s, n, strict):
        d = tree_axioms(s, n)
        p = s.f("_parent", n)
        pl = s.kids(Val.r(p))
        d["idx"] = idx_def(s.elems(pl), s.len(pl), Val.ref(n))
        return d

    def ensures(s0, s, n, strict, result):
        L = Val.r(result)
        if case == "metadata":
            return {"top:nothing-removed": z3.And(Val.is_ref(result), s.len(L) == 0)}
        k = z3.Const("pr_k", Val)
        j = z3.Int("pr_j")
        p = s0.f("_parent", n)
        pr = Val.r(p)
        pl = s0.kids(pr)
        idx = IDX(s0.elems(pl), s0.len(pl), Val.ref(n))
        e = s.at(L, 0)
        st0, st1 = store_map(s0), store_map(s)
        return {
            "top:reports-exactly-the-node": z3.And(Val.is_ref(result), s.len(L) == 1, Val.is_tupv(e), smt.TLEN(Val.tid(e)) == 2,
                                                    smt.TITEM(Val.tid(e), 0) == Val.ref(n), Val.is_strv(smt.TITEM(Val.tid(e), 1))),
            "top:detached": z3.Implies(p != Val.none, z3.And(
                s.len(pl) == s0.len(pl) - 1,
                smt.FA([j], z3.Implies(z3.And(0 <= j, j < s0.len(pl) - 1), s.elems(pl)[j] == z3.If(j < idx, s0.elems(pl)[j], s0.elems(pl)[j + 1])),
                       patterns=[s.elems(pl)[j]]))),
            "top:unregistered-with-its-subtree": smt.FA([k], st1[k] == z3.If(deleted_key(s0, n, k), smt.absent, st0[k]), patterns=[st1[k]]),
            "top:other-lists-unchanged": others_lists_unchanged(s0, s, z3.If(p == Val.none, -1, pr)),
        }

    con = Contract(Q, params={"n": "Node", "strict": "bool"}, requires=requires, axioms=axioms, ensures=ensures,
                   writes=("llen", "lelem", "F:_parent") + DICT_ARRS,
                   mods={"llen": lambda s0, r, n, strict: r == s0.kids(s0.fr("_parent", n)), "lelem": lambda s0, r, n, strict: r == s0.kids(s0.fr("_parent", n)),
                         "F:_parent": lambda s0, r, n, strict: r == n},
                   mod=lambda s0, r, **kw: r == STORE, allocates=True, result_ty="list:val", modular=False,
                   assumptions=("T-unfold(Sub,W,Tree,first_index)", "T-frame(subtree)"))
    w.call_lemmas[(Q, node_ops.Q_DELETE)] = lambda s0, s, v: subtree_frame_steps(s0, s, v.n)
    return con


# ------------------------------------------------------------------------------------------------ pruning a clean tree is a no-op
_VALIDN = z3.Function("node_valid", *_CS, I, B)                      # ghost (shared with C04/C05): validate.node(n) succeeds
_CLEAN = z3.Function("prune_clean", *_CS, smt.FieldArr, I, B, B)    # ghost: nothing below n (outside metadata content) would be pruned
_RN = z3.Function("rule_child_names_of", z3.StringSort(), I)        # ghost: the list of child names the rule of an element name permits


def VALIDN(s, n):
    return _VALIDN(*s.cs, n)


def CLEAN(s, n, strict):
    return _CLEAN(*s.cs, s.arr("F:_name"), n, strict)


def install_clean(w):
    """prune on a tree that is already clean (every node outside metadata content has a known name and only children its rule permits; in
    strict mode every non-root node passes single-node validation): returns an empty list, writes nothing, raises nothing.  Together with
    what the first pruning establishes (bounded pass) this is 'pruning a second time removes nothing'.  validate.node and the rule table
    enter abstractly: node_valid (what C04 proves of validate.node: only the rule-error family, UnknownNodeError exactly for unknown names)
    and rule_child_names_of (C17 proves is_allowed_child is membership in that list)."""
    import metapype.eml.rule as rule_mod
    from metapype.eml import validate
    from metapype.eml.exceptions import MetapypeRuleError, UnknownNodeError
    from pyvc.values import Sym
    from .node_ops import kids_typed
    known = list(rule_mod.node_mappings)
    node_ops.install_remove_child(w)
    node_ops.install_delete(w)
    MD = z3.StringVal("metadata")

    def is_known(s, n):
        return smt.disj([s.name(n) == z3.StringVal(x) for x in known])

    def allowed(s, pname, cname_val):
        """cname_val: the child's name as the Val stored in its _name field (no constructor/accessor round trip: the executor compares that Val)"""
        j = z3.Int("al_j")
        L = _RN(pname)
        return z3.Exists([j], z3.And(0 <= j, j < s.len(L), s.at(L, j) == cname_val))

    def clean_def(s, n, strict):
        i = z3.Int("cd_i")
        ch = s.kid(n, i)
        return CLEAN(s, n, strict) == z3.Or(s.name(n) == MD, z3.And(is_known(s, n), smt.FA([i], z3.Implies(
            z3.And(0 <= i, i < s.nkids(n)), z3.And(allowed(s, s.name(n), s.f("_name", ch)), CLEAN(s, ch, strict), z3.Implies(strict, VALIDN(s, ch)))),
            patterns=[s.at(s.kids(n), i)])))

    # ---- abstract callees
    node_con = Contract("metapype.eml.validate:node", params={"n": "Node"}, ensures=lambda s0, s, n, errs=None, result=None: {"no-new-nodes": no_new_nodes(s0, s)},
                        raises=[(UnknownNodeError, lambda s, n, errs=None: z3.Not(is_known(s, n)), None),
                                (MetapypeRuleError, lambda s, n, errs=None: z3.And(is_known(s, n), z3.Not(VALIDN(s, n))), None)],
                        writes=(), mod=lambda s0, r, **kw: z3.BoolVal(False), allocates=True, result_ty="none", modular=True, trusted=True,
                        assumptions=("validate.node by contract (C04): raises UnknownNodeError exactly for unknown element names, otherwise a rule error "
                                     "exactly when the node is not valid, and writes nothing in fail-fast mode",))
    w.add(node_con)

    def ext_get_rule(ip, node_name):
        c = ip.c
        r = ip.call(rule_mod.Rule, ["anyNameRule"], {})
        nm = z3.StringVal(node_name) if isinstance(node_name, str) else node_name.t
        t = _RN(nm)
        c.assume(c.ty_fact(Val.ref(t), "list:str"))
        j = z3.Int("rn_j")
        e = c.heap.get("lelem")[t]
        c.assume(smt.FA([j], Val.is_strv(e[j]), patterns=[e[j]]))
        c.assume(t < c.heap0.top)
        r.fields["_rule_children_names"] = Sym(t, "list:str")
        c.assumptions_used.add("rule.get_rule by name: the rule object's child-name list is the ghost rule_child_names_of(element name), a list that exists "
                               "before the call (the rule tables are module data)")
        return r
    w.externals[rule_mod.get_rule] = ext_get_rule

    def requires(s, n, strict):
        sb = strict if z3.is_expr(strict) else z3.BoolVal(bool(strict))
        m = z3.Int("rq_m")
        return {"clean": CLEAN(s, n, sb), "wf": wf_sub(s, n), "kids-typed": kids_typed(s), "tree": TREE(s, n),
                "rule-lists-are-no-child-lists": smt.FA([m], z3.Implies(s.is_node(m), z3.And(*[s.kids(m) != _RN(z3.StringVal(x)) for x in known])), patterns=[s.f("_children", m)])}

    def axioms(s, n, strict):
        sb = strict if z3.is_expr(strict) else z3.BoolVal(bool(strict))
        d = tree_axioms(s, n)
        d["clean-def"] = clean_def(s, n, sb)
        return d

    def ensures(s0, s, n, strict, result):
        L = Val.r(result)
        return {"top:nothing-reported": z3.And(Val.is_ref(result), L >= s0.top, kind(L) == KIND_LIST, s.len(L) == 0), "no-new-nodes": no_new_nodes(s0, s)}

    def pruned_list(v):
        x = v.raw("pruned")
        return x.ref if isinstance(x, PList) else x.t

    def inv(s0, s, v):
        P = pruned_list(v)
        j = z3.Int("cp_j")
        x = v.raw("children")
        C = x.ref if isinstance(x, PList) else x.t
        return {"bound": v._k >= 0, "still-empty": z3.And(P >= s0.top, P < s.top, kind(P) == KIND_LIST, s.len(P) == 0),
                # the loop runs over a snapshot of the children, which is (still) the children
                "snapshot": z3.And(C != P, s.len(C) == s0.nkids(v.n), smt.FA([j], z3.Implies(z3.And(0 <= j, j < s.len(C)), s.at(C, j) == s0.at(s0.kids(v.n), j)),
                                                                             patterns=[s.at(C, j)])),
                "no-new-nodes": no_new_nodes(s0, s), "top": s.top >= s0.top}

    def loop_axioms(s0, s, v):
        ch = s0.kid(v.n, v._k)
        sb = v.strict if z3.is_expr(v.strict) else z3.BoolVal(bool(v.strict))
        d = {"kid-refl": SUB(s0, ch, ch), "clean-kid": clean_def(s0, ch, sb)}
        d.update(clean_frame_steps(s0, s))
        # what the unfolding of prune_clean at n says about this child, as explicit (proved) steps
        inside = z3.And(v._k < s0.nkids(v.n), s0.name(v.n) != MD)
        d["prove:this-child-is-permitted"] = z3.Implies(inside, allowed(s0, s0.name(v.n), s0.f("_name", ch)))
        d["prove:this-child-is-clean"] = z3.Implies(inside, z3.And(CLEAN(s0, ch, sb), z3.Implies(sb, VALIDN(s0, ch))))
        return d

    def clean_frame_steps(s0, s):
        m = z3.Int("cf_m")
        b = z3.Bool("cf_b")
        d = dict(tree_frame_steps(s0, s))
        d["clean-frame"] = z3.And(smt.FA([m, b], z3.Implies(s0.is_node(m), CLEAN(s, m, b) == CLEAN(s0, m, b)), patterns=[CLEAN(s, m, b)]),
                                  smt.FA([m], z3.Implies(s0.is_node(m), VALIDN(s, m) == VALIDN(s0, m)), patterns=[VALIDN(s, m)]))
        return d

    con = Contract(Q, params={"n": "Node", "strict": "bool"}, requires=requires, axioms=axioms, ensures=ensures, writes=(), mod=lambda s0, r, **kw: z3.BoolVal(False),
                   allocates=True, result_ty="list:val", decreases=lambda s, n, strict: H(s, n), modular=True,
                   assumptions=("T-unfold(prune_clean, Sub, W, Tree)", "T-frame(prune_clean, node_valid)"))
    w.add(con)
    vt = {"child": "Node", "children": "list:Node"}
    w.loop(Q, 1, inv=inv, axioms=loop_axioms, var_types=vt)
    w.loop(Q, 2, inv=inv, axioms=loop_axioms, var_types=vt)
    w.call_lemmas[(Q, Q)] = lambda s0, s, v: clean_frame_steps(s0, s)
    w.call_lemmas[(Q, "metapype.eml.validate:node")] = lambda s0, s, v: clean_frame_steps(s0, s)
    return con


# ------------------------------------------------------------------------------------------------ the first loop: children the rule does not permit
def install_first_loop(w):
    """prune on a known, non-metadata node whose own validation fails, up to the loop that recurses into the children (LoopC(stop=...)): the loop
    over the snapshot of the children removes the ones the node's rule does not permit.  Proved: nothing is raised; every child left in the list is
    permitted; the children that are still to be looked at are still there, in order; the other nodes' child lists are untouched; the
    Forest/Linked/own-lists invariants hold again; every node of a subtree that was kept is still registered.  (Which ones are reported, and the exact
    registry delta, are left to the bounded pass.)"""
    import metapype.eml.rule as rule_mod
    from metapype.eml import validate
    from metapype.eml.exceptions import MetapypeRuleError, UnknownNodeError
    from pyvc.values import Sym
    from .node_ops import kids_typed
    known = list(rule_mod.node_mappings)
    node_ops.install_remove_child(w)
    node_ops.install_delete(w)
    MD = z3.StringVal("metadata")

    def is_known(s, n):
        return smt.disj([s.name(n) == z3.StringVal(x) for x in known])

    def allowed(s, pname, cname_val):
        j = z3.Int("fa_j")
        L = _RN(pname)
        return z3.Exists([j], z3.And(0 <= j, j < s.len(L), s.at(L, j) == cname_val))

    node_con = Contract("metapype.eml.validate:node", params={"n": "Node"}, ensures=lambda s0, s, n, errs=None, result=None: {"no-new-nodes": no_new_nodes(s0, s)},
                        raises=[(UnknownNodeError, lambda s, n, errs=None: z3.Not(is_known(s, n)), None),
                                (MetapypeRuleError, lambda s, n, errs=None: z3.And(is_known(s, n), z3.Not(VALIDN(s, n))), None)],
                        writes=(), mod=lambda s0, r, **kw: z3.BoolVal(False), allocates=True, result_ty="none", modular=True, trusted=True,
                        assumptions=("validate.node by contract (C04): UnknownNodeError exactly for unknown names, otherwise a rule error exactly when the node is not valid",))
    w.add(node_con)

    def ext_get_rule(ip, node_name):
        c = ip.c
        r = ip.call(rule_mod.Rule, ["anyNameRule"], {})
        nm = z3.StringVal(node_name) if isinstance(node_name, str) else node_name.t
        t = _RN(nm)
        c.assume(c.ty_fact(Val.ref(t), "list:str"))
        j = z3.Int("rn_j")
        e = c.heap.get("lelem")[t]
        c.assume(smt.FA([j], Val.is_strv(e[j]), patterns=[e[j]]))
        c.assume(t < c.heap0.top)
        r.fields["_rule_children_names"] = Sym(t, "list:str")
        c.assumptions_used.add("rule.get_rule by name: the rule object's child-name list is the ghost rule_child_names_of(element name)")
        return r
    w.externals[rule_mod.get_rule] = ext_get_rule

    def requires(s, n, strict):
        m = z3.Int("fq_m")
        d = {"case": z3.And(is_known(s, n), s.name(n) != MD, z3.Not(VALIDN(s, n)))}
        d.update(shape_inv(s))
        d["tree"] = z3.And(TREE(s, n), wf_sub(s, n))
        d["registered"] = z3.And(reg_sub(s, n), kind(STORE) == KIND_DICT)
        d["rule-lists-are-no-child-lists"] = smt.FA([m], z3.Implies(s.is_node(m), s.kids(m) != _RN(s.name(n))), patterns=[s.f("_children", m)])
        d["ids-are-strings"] = smt.FA([m], z3.Implies(SUB(s, n, m), Val.is_strv(s.f("_id", m))), patterns=[SUB(s, n, m)])
        return d

    def axioms(s, n, strict):
        return tree_axioms(s, n)

    def live(s0, s, v):
        return s0.kids(v.n)          # the list object of n never changes (remove_child keeps it)

    def inv(s0, s, v):
        n, k = v.n, v._k
        L = live(s0, s, v)
        n0 = s0.nkids(n)
        P = s.len(L) - (n0 - k)
        t, i, m, j = z3.Ints("fi_t fi_i fi_m fi_j")
        x = v.raw("children")
        C = x.ref if isinstance(x, PList) else x.t
        cl = {"bound": z3.And(0 <= k, k <= n0), "same-list-object": s.f("_children", n) == s0.f("_children", n),
              "snapshot": z3.And(C >= s0.top, s.len(C) == n0, smt.FA([j], z3.Implies(z3.And(0 <= j, j < n0), s.at(C, j) == s0.at(L, j)), patterns=[s.at(C, j)])),
              "prefix-size": z3.And(0 <= P, P <= k),
              # u: absolute index into the children as they were (patterns cannot match modulo arithmetic)
              "still-to-look-at": smt.FA([t], z3.Implies(z3.And(k <= t, t < n0), s.at(L, P + (t - k)) == s0.at(L, t)), patterns=[s0.at(L, t)]),
              "kept-are-permitted": smt.FA([i], z3.Implies(z3.And(0 <= i, i < P), allowed(s0, s0.name(n), s0.f("_name", s.nat(L, i)))), patterns=[s.at(L, i)]),
              "kept-are-old-children": smt.FA([i], z3.Implies(z3.And(0 <= i, i < P), z3.And(Val.is_ref(s.at(L, i)), SUB(s0, n, s.nat(L, i)), s.nat(L, i) != n,
                                                                                   W(s0, n, s.nat(L, i)) < k)), patterns=[s.at(L, i)]),
              "others-untouched": others_lists_unchanged(s0, s, n),
              "unprocessed-still-registered": smt.FA([m], z3.Implies(z3.And(SUB(s0, n, m), m != n, W(s0, n, m) >= k), store_map(s)[s0.f("_id", m)] == Val.ref(m)),
                                                     patterns=[SUB(s0, n, m)]),
              "no-new-nodes": no_new_nodes(s0, s), "top": s.top >= s0.top}
        cl.update({"shape:" + a: b for a, b in shape_inv(s).items()})
        cl.update(reported(s0, s, v, k))
        return cl

    def reported(s0, s, v, k):
        """the list prune returns so far: one (node, reason) pair per removed child — as many as were removed, each about an old child that the
        rule does not permit; and the registry has only lost entries, among them every node of a removed child's subtree"""
        n = v.n
        L = s0.kids(n)
        x = v.raw("pruned")
        R = x.ref if isinstance(x, PList) else x.t
        i, m = z3.Ints("rp_i rp_m")
        key = z3.Const("rp_key", Val)
        e = s.at(R, i)
        who = Val.r(smt.TITEM(Val.tid(e), 0))
        removed = lambda mm: z3.And(SUB(s0, n, mm), mm != n, W(s0, n, mm) < k, z3.Not(allowed(s0, s0.name(n), s0.f("_name", s0.kid(n, W(s0, n, mm))))))
        return {"reported-list": z3.And(R >= s0.top, R < s.top, kind(R) == KIND_LIST, R != L),
                "reported-count": s.len(R) + s.len(L) == s0.nkids(n) - 0 + (k - k),
                "reported-entries": smt.FA([i], z3.Implies(z3.And(0 <= i, i < s.len(R)), z3.And(
                    Val.is_tupv(e), smt.TLEN(Val.tid(e)) == 2, Val.is_ref(smt.TITEM(Val.tid(e), 0)), Val.is_strv(smt.TITEM(Val.tid(e), 1)),
                    SUB(s0, n, who), who != n, W(s0, n, who) < k, s0.at(L, W(s0, n, who)) == Val.ref(who),
                    z3.Not(allowed(s0, s0.name(n), s0.f("_name", who))))), patterns=[s.at(R, i)]),
                "registry-only-loses-entries": smt.FA([key], z3.Or(store_map(s)[key] == store_map(s0)[key], store_map(s)[key] == smt.absent), patterns=[store_map(s)[key]]),
                "removed-subtrees-unregistered": smt.FA([m], z3.Implies(removed(m), store_map(s)[s0.f("_id", m)] == smt.absent), patterns=[SUB(s0, n, m)])}

    def loop_axioms(s0, s, v):
        n, k = v.n, v._k
        ch = s0.kid(n, k)
        L = s0.kids(n)
        inside = k < s0.nkids(n)
        P = s.len(L) - (s0.nkids(n) - k)
        d = {"kid-refl": SUB(s0, ch, ch)}
        # explicit steps (each proved, then used): where this child sits, which subtree it heads, and that nothing below it has been touched
        d["prove:this-child-heads-subtree-k"] = z3.Implies(inside, z3.And(SUB(s0, n, ch), ch != n, W(s0, n, ch) == k))
        d["prove:this-child-sits-right-after-the-kept-ones"] = z3.Implies(inside, s.at(L, P) == s0.at(L, k))
        for nm, f in subtree_frame_steps(s0, s, ch).items():
            d[nm] = z3.Implies(inside, f)
        return d

    def at_removal(s0, s, v):
        """call lemma for remove_child(n, child): the child's first occurrence in the live list is right after the kept ones"""
        n = v.n
        L = s0.kids(n)
        k = v.loop_index(1)
        P = s.len(L) - (s0.nkids(n) - k)
        ch = Val.r(v.V("child"))
        return {"idx": idx_def(s.elems(L), s.len(L), Val.ref(ch)), "prove:position-of-the-child": IDX(s.elems(L), s.len(L), Val.ref(ch)) == P}

    def stop(s0, s, v):
        n = v.n
        L = s0.kids(n)
        i = z3.Int("fs_i")
        return {"top:every-child-left-is-permitted": smt.FA([i], z3.Implies(z3.And(0 <= i, i < s.len(L)), allowed(s0, s0.name(n), s0.f("_name", s.nat(L, i)))), patterns=[s.at(L, i)]),
                "top:children-left-are-old-children": smt.FA([i], z3.Implies(z3.And(0 <= i, i < s.len(L)), z3.And(SUB(s0, n, s.nat(L, i)), s.nat(L, i) != n)), patterns=[s.at(L, i)]),
                "top:other-lists-untouched": others_lists_unchanged(s0, s, n), **{"top:" + a: b for a, b in shape_inv(s).items()},
                **{"top:" + a: b for a, b in reported(s0, s, v, s0.nkids(n)).items()}}

    con = Contract(Q, params={"n": "Node", "strict": "bool"}, requires=requires, axioms=axioms, ensures=lambda s0, s, result=None, **kw: {},
                   writes=("llen", "lelem", "F:_parent") + DICT_ARRS,
                   mods={"llen": lambda s0, r, n, strict: r == s0.kids(n), "lelem": lambda s0, r, n, strict: r == s0.kids(n),
                         "F:_parent": lambda s0, r, n, strict: z3.And(SUB(s0, n, r), r != n)},
                   mod=lambda s0, r, **kw: r == STORE, allocates=True, result_ty="list:val", modular=False,
                   assumptions=("T-unfold(Sub,W,Tree,first_index)", "T-frame(subtree)"))
    w.loop(Q, 1, inv=inv, axioms=loop_axioms, var_types={"child": "Node", "children": "list:Node"})
    w.loop(Q, 2, stop=stop, stop_unchanged=False)
    w.call_lemmas[(Q, node_ops.Q_REMOVE_CHILD)] = at_removal
    w.call_lemmas[(Q, node_ops.Q_DELETE)] = lambda s0, s, v: subtree_frame_steps(s0, s, Val.r(v.V("child")))
    return con
