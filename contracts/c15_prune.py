"""C15: validate.prune.  Deductive core: the two loop-free cases (a metadata node is left alone; a node with an unknown element
name is detached, unregistered with its whole subtree and reported) against the contracts of remove_child (C09) and
delete_node_instance (C14).  The recursive case over known elements is covered by the bounded pass (labelled bounded)."""
import z3
from pyvc import smt
from pyvc.smt import Val, I, B, kind, KIND_NODE, KIND_LIST, KIND_DICT
from pyvc.task import Contract
from .prelude import *
from .tree import *
from . import node_ops
from .node_ops import store_map, idkey, reg_sub, deleted_key, shape_inv, IDX, idx_def, others_lists_unchanged
from .c13_ns import DICT_ARRS

Q = "metapype.eml.validate:prune"


def install(w, case):
    import metapype.eml.rule as rule_mod
    known = list(rule_mod.node_mappings)
    node_ops.install_remove_child(w)
    node_ops.install_delete(w)

    def is_known(s, n):
        return smt.disj([s.name(n) == z3.StringVal(x) for x in known])

    def requires(s, n, strict):
        d = {}
        if case == "metadata":
            d["case"] = s.name(n) == z3.StringVal("metadata")
            return d
        d["case"] = z3.And(z3.Not(is_known(s, n)), s.name(n) != z3.StringVal("metadata"))
        d.update(shape_inv(s))
        p = s.f("_parent", n)
        pl = s.kids(Val.r(p))
        d["listed-by-its-parent"] = z3.Implies(p != Val.none, z3.And(Val.is_ref(p), s.is_node(Val.r(p)), IDX(s.elems(pl), s.len(pl), Val.ref(n)) != -1))
        d["registered"] = z3.And(store_map(s)[idkey(s, n)] == Val.ref(n), reg_sub(s, n), Val.is_strv(s.f("_id", n)))
        d["tree"] = z3.And(TREE(s, n), wf_sub(s, n))
        d["not-above-its-parent"] = z3.Implies(p != Val.none, z3.Not(SUB(s, n, Val.r(p))))
        return d

    def axioms(s, n, strict):
        d = tree_axioms(s, n)
        p = s.f("_parent", n)
        pl = s.kids(Val.r(p))
        d["idx"] = idx_def(s.elems(pl), s.len(pl), Val.ref(n))
        return d

    def ensures(s0, s, n, strict, result):
        L = Val.r(result)
        if case == "metadata":
            return {"top:nothing-removed": z3.And(Val.is_ref(result), s.len(L) == 0)}
        k = z3.Const("pr_k", Val)
        j = z3.Int("pr_j")
        p = s0.f("_parent", n)
        pr = Val.r(p)
        pl = s0.kids(pr)
        idx = IDX(s0.elems(pl), s0.len(pl), Val.ref(n))
        e = s.at(L, 0)
        st0, st1 = store_map(s0), store_map(s)
        return {
            "top:reports-exactly-the-node": z3.And(Val.is_ref(result), s.len(L) == 1, Val.is_tupv(e), smt.TLEN(Val.tid(e)) == 2,
                                                    smt.TITEM(Val.tid(e), 0) == Val.ref(n), Val.is_strv(smt.TITEM(Val.tid(e), 1))),
            "top:detached": z3.Implies(p != Val.none, z3.And(
                s.len(pl) == s0.len(pl) - 1,
                smt.FA([j], z3.Implies(z3.And(0 <= j, j < s0.len(pl) - 1), s.elems(pl)[j] == z3.If(j < idx, s0.elems(pl)[j], s0.elems(pl)[j + 1])),
                       patterns=[s.elems(pl)[j]]))),
            "top:unregistered-with-its-subtree": smt.FA([k], st1[k] == z3.If(deleted_key(s0, n, k), smt.absent, st0[k]), patterns=[st1[k]]),
            "top:other-lists-unchanged": others_lists_unchanged(s0, s, z3.If(p == Val.none, -1, pr)),
        }

    con = Contract(Q, params={"n": "Node", "strict": "bool"}, requires=requires, axioms=axioms, ensures=ensures,
                   writes=("llen", "lelem", "F:_parent") + DICT_ARRS,
                   mods={"llen": lambda s0, r, n, strict: r == s0.kids(s0.fr("_parent", n)), "lelem": lambda s0, r, n, strict: r == s0.kids(s0.fr("_parent", n)),
                         "F:_parent": lambda s0, r, n, strict: r == n},
                   mod=lambda s0, r, **kw: r == STORE, allocates=True, result_ty="list:val", modular=False,
                   assumptions=("T-unfold(Sub,W,Tree,first_index)", "T-frame(subtree)"))
    w.call_lemmas[(Q, node_ops.Q_DELETE)] = lambda s0, s, v: subtree_frame_steps(s0, s, v.n)
    return con
