"""C15: validate.prune.  Deductive core: the two loop-free cases (a metadata node is left alone; a node with an unknown element
name is detached, unregistered with its whole subtree and reported) against the contracts of remove_child (C09) and
delete_node_instance (C14).  The recursive case over known elements is covered by the bounded pass (labelled bounded)."""
import z3
from pyvc import smt
from pyvc.smt import Val, I, B, kind, KIND_NODE, KIND_LIST, KIND_DICT
from pyvc.task import Contract
from .prelude import *
from .prelude import _CS
from .tree import *
from . import node_ops
from .node_ops import store_map, idkey, reg_sub, deleted_key, shape_inv, IDX, idx_def, others_lists_unchanged
from .c13_ns import DICT_ARRS

Q = "metapype.eml.validate:prune"


def install(w, case):
    import metapype.eml.rule as rule_mod
    known = list(rule_mod.node_mappings)
    node_ops.install_remove_child(w)
    node_ops.install_delete(w)

    def is_known(s, n):
        return smt.disj([s.name(n) == z3.StringVal(x) for x in known])

    def requires(s, n, strict):
        d = {}
        if case == "metadata":
            d["case"] = s.name(n) == z3.StringVal("metadata")
            return d
        d["case"] = z3.And(z3.Not(is_known(s, n)), s.name(n) != z3.StringVal("metadata"))
        d.update(shape_inv(s))
        p = s.f("_parent", n)
        pl = s.kids(Val.r(p))
        d["listed-by-its-parent"] = z3.Implies(p != Val.none, z3.And(Val.is_ref(p), s.is_node(Val.r(p)), IDX(s.elems(pl), s.len(pl), Val.ref(n)) != -1))
        d["registered"] = z3.And(store_map(s)[idkey(s, n)] == Val.ref(n), reg_sub(s, n), Val.is_strv(s.f("_id", n)))
        d["tree"] = z3.And(TREE(s, n), wf_sub(s, n))
        d["not-above-its-parent"] = z3.Implies(p != Val.none, z3.Not(SUB(s, n, Val.r(p))))
        return d

    def axioms(s, n, strict):
        d = tree_axioms(s, n)
        p = s.f("_parent", n)
        pl = s.kids(Val.r(p))
        d["idx"] = idx_def(s.elems(pl), s.len(pl), Val.ref(n))
        return d

    def ensures(s0, s, n, strict, result):
        L = Val.r(result)
        if case == "metadata":
            return {"top:nothing-removed": z3.And(Val.is_ref(result), s.len(L) == 0)}
        k = z3.Const("pr_k", Val)
        j = z3.Int("pr_j")
        p = s0.f("_parent", n)
        pr = Val.r(p)
        pl = s0.kids(pr)
        idx = IDX(s0.elems(pl), s0.len(pl), Val.ref(n))
        e = s.at(L, 0)
        st0, st1 = store_map(s0), store_map(s)
        return {
            "top:reports-exactly-the-node": z3.And(Val.is_ref(result), s.len(L) == 1, Val.is_tupv(e), smt.TLEN(Val.tid(e)) == 2,
                                                    smt.TITEM(Val.tid(e), 0) == Val.ref(n), Val.is_strv(smt.TITEM(Val.tid(e), 1))),
            "top:detached": z3.Implies(p != Val.none, z3.And(
                s.len(pl) == s0.len(pl) - 1,
                smt.FA([j], z3.Implies(z3.And(0 <= j, j < s0.len(pl) - 1), s.elems(pl)[j] == z3.If(j < idx, s0.elems(pl)[j], s0.elems(pl)[j + 1])),
                       patterns=[s.elems(pl)[j]]))),
            "top:unregistered-with-its-subtree": smt.FA([k], st1[k] == z3.If(deleted_key(s0, n, k), smt.absent, st0[k]), patterns=[st1[k]]),
            "top:other-lists-unchanged": others_lists_unchanged(s0, s, z3.If(p == Val.none, -1, pr)),
        }

    con = Contract(Q, params={"n": "Node", "strict": "bool"}, requires=requires, axioms=axioms, ensures=ensures,
                   writes=("llen", "lelem", "F:_parent") + DICT_ARRS,
                   mods={"llen": lambda s0, r, n, strict: r == s0.kids(s0.fr("_parent", n)), "lelem": lambda s0, r, n, strict: r == s0.kids(s0.fr("_parent", n)),
                         "F:_parent": lambda s0, r, n, strict: r == n},
                   mod=lambda s0, r, **kw: r == STORE, allocates=True, result_ty="list:val", modular=False,
                   assumptions=("T-unfold(Sub,W,Tree,first_index)", "T-frame(subtree)"))
    w.call_lemmas[(Q, node_ops.Q_DELETE)] = lambda s0, s, v: subtree_frame_steps(s0, s, v.n)
    return con


# ------------------------------------------------------------------------------------------------ pruning a clean tree is a no-op
_VALIDN = z3.Function("node_valid", *_CS, I, B)                      # ghost (shared with C04/C05): validate.node(n) succeeds
_CLEAN = z3.Function("prune_clean", *_CS, smt.FieldArr, I, B, B)    # ghost: nothing below n (outside metadata content) would be pruned
_RN = z3.Function("rule_child_names_of", z3.StringSort(), I)        # ghost: the list of child names the rule of an element name permits


def VALIDN(s, n):
    return _VALIDN(*s.cs, n)


def CLEAN(s, n, strict):
    return _CLEAN(*s.cs, s.arr("F:_name"), n, strict)


def install_clean(w):
    """prune on a tree that is already clean (every node outside metadata content has a known name and only children its rule permits; in
    strict mode every non-root node passes single-node validation): returns an empty list, writes nothing, raises nothing.  Together with
    what the first pruning establishes (bounded pass) this is 'pruning a second time removes nothing'.  validate.node and the rule table
    enter abstractly: node_valid (what C04 proves of validate.node: only the rule-error family, UnknownNodeError exactly for unknown names)
    and rule_child_names_of (C17 proves is_allowed_child is membership in that list)."""
    import metapype.eml.rule as rule_mod
    from metapype.eml import validate
    from metapype.eml.exceptions import MetapypeRuleError, UnknownNodeError
    from pyvc.values import Sym
    from .node_ops import kids_typed
    known = list(rule_mod.node_mappings)
    node_ops.install_remove_child(w)
    node_ops.install_delete(w)
    MD = z3.StringVal("metadata")

    def is_known(s, n):
        return smt.disj([s.name(n) == z3.StringVal(x) for x in known])

    def allowed(s, pname, cname_val):
        """cname_val: the child's name as the Val stored in its _name field (no constructor/accessor round trip: the executor compares that Val)"""
        j = z3.Int("al_j")
        L = _RN(pname)
        return z3.Exists([j], z3.And(0 <= j, j < s.len(L), s.at(L, j) == cname_val))

    def clean_def(s, n, strict):
        i = z3.Int("cd_i")
        ch = s.kid(n, i)
        return CLEAN(s, n, strict) == z3.Or(s.name(n) == MD, z3.And(is_known(s, n), smt.FA([i], z3.Implies(
            z3.And(0 <= i, i < s.nkids(n)), z3.And(allowed(s, s.name(n), s.f("_name", ch)), CLEAN(s, ch, strict), z3.Implies(strict, VALIDN(s, ch)))),
            patterns=[s.at(s.kids(n), i)])))

    # ---- abstract callees
    node_con = Contract("metapype.eml.validate:node", params={"n": "Node"}, ensures=lambda s0, s, n, errs=None, result=None: {"no-new-nodes": no_new_nodes(s0, s)},
                        raises=[(UnknownNodeError, lambda s, n, errs=None: z3.Not(is_known(s, n)), None),
                                (MetapypeRuleError, lambda s, n, errs=None: z3.And(is_known(s, n), z3.Not(VALIDN(s, n))), None)],
                        writes=(), mod=lambda s0, r, **kw: z3.BoolVal(False), allocates=True, result_ty="none", modular=True, trusted=True,
                        assumptions=("validate.node by contract (C04): raises UnknownNodeError exactly for unknown element names, otherwise a rule error "
                                     "exactly when the node is not valid, and writes nothing in fail-fast mode",))
    w.add(node_con)

    def ext_get_rule(ip, node_name):
        c = ip.c
        r = ip.call(rule_mod.Rule, ["anyNameRule"], {})
        nm = z3.StringVal(node_name) if isinstance(node_name, str) else node_name.t
        t = _RN(nm)
        c.assume(c.ty_fact(Val.ref(t), "list:str"))
        j = z3.Int("rn_j")
        e = c.heap.get("lelem")[t]
        c.assume(smt.FA([j], Val.is_strv(e[j]), patterns=[e[j]]))
        c.assume(t < c.heap0.top)
        r.fields["_rule_children_names"] = Sym(t, "list:str")
        c.assumptions_used.add("rule.get_rule by name: the rule object's child-name list is the ghost rule_child_names_of(element name), a list that exists "
                               "before the call (the rule tables are module data)")
        return r
    w.externals[rule_mod.get_rule] = ext_get_rule

    def requires(s, n, strict):
        sb = strict if z3.is_expr(strict) else z3.BoolVal(bool(strict))
        m = z3.Int("rq_m")
        return {"clean": CLEAN(s, n, sb), "wf": wf_sub(s, n), "kids-typed": kids_typed(s), "tree": TREE(s, n),
                "rule-lists-are-no-child-lists": smt.FA([m], z3.Implies(s.is_node(m), z3.And(*[s.kids(m) != _RN(z3.StringVal(x)) for x in known])), patterns=[s.f("_children", m)])}

    def axioms(s, n, strict):
        sb = strict if z3.is_expr(strict) else z3.BoolVal(bool(strict))
        d = tree_axioms(s, n)
        d["clean-def"] = clean_def(s, n, sb)
        return d

    def ensures(s0, s, n, strict, result):
        L = Val.r(result)
        return {"top:nothing-reported": z3.And(Val.is_ref(result), L >= s0.top, kind(L) == KIND_LIST, s.len(L) == 0), "no-new-nodes": no_new_nodes(s0, s)}

    def pruned_list(v):
        x = v.raw("pruned")
        return x.ref if isinstance(x, PList) else x.t

    def inv(s0, s, v):
        P = pruned_list(v)
        j = z3.Int("cp_j")
        x = v.raw("children")
        C = x.ref if isinstance(x, PList) else x.t
        return {"bound": v._k >= 0, "still-empty": z3.And(P >= s0.top, P < s.top, kind(P) == KIND_LIST, s.len(P) == 0),
                # the loop runs over a snapshot of the children, which is (still) the children
                "snapshot": z3.And(C != P, s.len(C) == s0.nkids(v.n), smt.FA([j], z3.Implies(z3.And(0 <= j, j < s.len(C)), s.at(C, j) == s0.at(s0.kids(v.n), j)),
                                                                             patterns=[s.at(C, j)])),
                "no-new-nodes": no_new_nodes(s0, s), "top": s.top >= s0.top}

    def loop_axioms(s0, s, v):
        ch = s0.kid(v.n, v._k)
        sb = v.strict if z3.is_expr(v.strict) else z3.BoolVal(bool(v.strict))
        d = {"kid-refl": SUB(s0, ch, ch), "clean-kid": clean_def(s0, ch, sb)}
        d.update(clean_frame_steps(s0, s))
        # what the unfolding of prune_clean at n says about this child, as explicit (proved) steps
        inside = z3.And(v._k < s0.nkids(v.n), s0.name(v.n) != MD)
        d["prove:this-child-is-permitted"] = z3.Implies(inside, allowed(s0, s0.name(v.n), s0.f("_name", ch)))
        d["prove:this-child-is-clean"] = z3.Implies(inside, z3.And(CLEAN(s0, ch, sb), z3.Implies(sb, VALIDN(s0, ch))))
        return d

    def clean_frame_steps(s0, s):
        m = z3.Int("cf_m")
        b = z3.Bool("cf_b")
        d = dict(tree_frame_steps(s0, s))
        d["clean-frame"] = z3.And(smt.FA([m, b], z3.Implies(s0.is_node(m), CLEAN(s, m, b) == CLEAN(s0, m, b)), patterns=[CLEAN(s, m, b)]),
                                  smt.FA([m], z3.Implies(s0.is_node(m), VALIDN(s, m) == VALIDN(s0, m)), patterns=[VALIDN(s, m)]))
        return d

    con = Contract(Q, params={"n": "Node", "strict": "bool"}, requires=requires, axioms=axioms, ensures=ensures, writes=(), mod=lambda s0, r, **kw: z3.BoolVal(False),
                   allocates=True, result_ty="list:val", decreases=lambda s, n, strict: H(s, n), modular=True,
                   assumptions=("T-unfold(prune_clean, Sub, W, Tree)", "T-frame(prune_clean, node_valid)"))
    w.add(con)
    vt = {"child": "Node", "children": "list:Node"}
    w.loop(Q, 1, inv=inv, axioms=loop_axioms, var_types=vt)
    w.loop(Q, 2, inv=inv, axioms=loop_axioms, var_types=vt)
    w.call_lemmas[(Q, Q)] = lambda s0, s, v: clean_frame_steps(s0, s)
    w.call_lemmas[(Q, "metapype.eml.validate:node")] = lambda s0, s, v: clean_frame_steps(s0, s)
    return con
