"""C16: reference expansion.  _register_ids is verified functionally; expand itself rests on the proved contracts of its callees
(copy C12, add_child / remove_child C09, delete_node_instance C14) and is otherwise covered by the bounded pass."""
import z3
from pyvc import smt
from pyvc.smt import Val, I, B, kind, KIND_NODE, KIND_LIST, KIND_DICT
from pyvc.task import Contract
from .prelude import *
from .tree import *
from .node_ops import kids_typed
from .c13_ns import DICT_ARRS

Q_REG = "metapype.eml.references:_register_ids"
IDK = Val.strv(z3.StringVal("id"))


def idval(s, m):
    """the value of m's `id` attribute (absent when it has none)"""
    return s.dmap(s.fr("_attributes", m))[IDK]


def uniq(s, root):
    m, m2 = z3.Ints("uq_m uq_m2")
    return smt.FA([m, m2], z3.Implies(z3.And(SUB(s, root, m), SUB(s, root, m2), idval(s, m) != smt.absent, idval(s, m) == idval(s, m2)), m == m2),
                  patterns=[z3.MultiPattern(SUB(s, root, m), SUB(s, root, m2))])


def install(w, assume_unique):
    def requires(s, node):
        m = z3.Int("rq_m")
        d = {"wf": wf_sub(s, node), "tree": TREE(s, node), "kids-typed": kids_typed(s),
             "attribute-dicts": smt.FA([m], z3.Implies(SUB(s, node, m), z3.And(Val.is_ref(s.f("_attributes", m)), s.alloc(s.fr("_attributes", m)),
                                                                                 kind(s.fr("_attributes", m)) == KIND_DICT, s.dict_wf(s.fr("_attributes", m)))),
                                       patterns=[SUB(s, node, m)])}
        if assume_unique:
            d["ids-unique"] = uniq(s, node)
        return d

    def axioms(s, node):
        return tree_axioms(s, node)

    def exact(s0, s, R, root, upto=None, with_root=True):
        """R maps exactly the id values of the nodes of the subtree (restricted to the first `upto` child subtrees) to those nodes"""
        m = z3.Int("ex_m")
        k = z3.Const("ex_k", Val)
        inside = (lambda x: SUB(s0, root, x)) if upto is None else (lambda x: z3.Or(z3.And(with_root, x == root), below_first(s0, root, upto, x)))
        rm = s.dmap(R)
        return z3.And(
            smt.FA([m], z3.Implies(z3.And(SUB(s0, root, m), inside(m), idval(s0, m) != smt.absent), rm[idval(s0, m)] == Val.ref(m)), patterns=[SUB(s0, root, m)]),
            smt.FA([k], z3.Implies(rm[k] != smt.absent, z3.And(Val.is_ref(rm[k]), SUB(s0, root, Val.r(rm[k])), inside(Val.r(rm[k])), idval(s0, Val.r(rm[k])) == k)),
                   patterns=[rm[k]]))

    def ensures(s0, s, node, result):
        R = Val.r(result)
        return {"top:maps-exactly-the-ids-of-the-subtree": exact(s0, s, R, node), "fresh": z3.And(Val.is_ref(result), R >= s0.top, kind(R) == KIND_DICT),
                "wf": s.dict_wf(R), "no-new-nodes": no_new_nodes(s0, s)}

    def inv_attrs(s0, s, v):
        R = v.id_register
        rm = s.dmap(R)
        k = z3.Const("ia_k", Val)
        node = v.node
        d = s0.fr("_attributes", node)
        pos = s0.dpos(d)
        seen = z3.And(idval(s0, node) != smt.absent, pos[IDK] < v._k)
        return {"fresh": z3.And(R >= s0.top, R < s.top, kind(R) == KIND_DICT), "wf": s.dict_wf(R),
                "content": smt.FA([k], rm[k] == z3.If(z3.And(seen, k == idval(s0, node)), Val.ref(node), smt.absent), patterns=[rm[k]])}

    def inv_children(s0, s, v):
        R = v.id_register
        return {"bound": v._k <= s0.nkids(v.node), "fresh": z3.And(R >= s0.top, R < s.top, kind(R) == KIND_DICT), "wf": s.dict_wf(R),
                "exact-so-far": exact(s0, s, R, v.node, upto=v._k), "no-new-nodes": no_new_nodes(s0, s), "top": s.top >= s0.top}

    def ax_children(s0, s, v):
        ch = s0.kid(v.node, v._k)
        d = {"kid-refl": SUB(s0, ch, ch)}
        d.update(subtree_frame_steps(s0, s, v.node))
        return d

    def inv_keys(s0, s, v):
        j = z3.Int("ik_j")
        R, C = v.id_register, Val.r(v.V("_"))
        return {"none-shared-so-far": smt.FA([j], z3.Implies(z3.And(0 <= j, j < v._k), s.dmap(R)[s.dkey(C)[j]] == smt.absent), patterns=[s.dkey(C)[j]])}

    con = Contract(Q_REG, params={"node": "Node"}, requires=requires, axioms=axioms, ensures=ensures,
                   raises=[] if assume_unique else [(ValueError, None, None)],
                   writes=DICT_ARRS, mod=lambda s0, r, **kw: z3.BoolVal(False), allocates=True, result_ty="dict:Node",
                   decreases=lambda s, node: H(s, node), assumptions=("T-unfold(Sub,W,Tree)",))
    w.add(con)
    w.loop(Q_REG, 1, inv=inv_attrs, arrays=DICT_ARRS)
    w.loop(Q_REG, 2, inv=inv_children, axioms=ax_children, arrays=DICT_ARRS + ("top",), var_types={"id_register": "dict:Node", "_": "dict:Node"})
    w.loop(Q_REG, 3, inv=inv_keys)
    w.call_lemmas[(Q_REG, Q_REG)] = lambda s0, s, v: subtree_frame_steps(s0, s, v.node)
    return con


# ------------------------------------------------------------------------------------------------ expand: the part before the first write
Q_EXPAND = "metapype.eml.references:expand"


def install_expand(w):
    """references.expand up to its second loop (where the substitution starts): collecting the references nodes, building the id
    register and checking every reference change nothing; a ValueError (duplicate id, dangling reference) leaves the heap as it was;
    and the substitution loop is reached only if no references node of the subtree is dangling.  The substitution itself is not
    verified here (bounded pass)."""
    from . import c09_queries as Q9
    Q9.install_find_all_descendants(w)
    reg = install(w, assume_unique=False)
    REFS = z3.StringVal("references")

    def requires(s, node):
        d = dict(reg.requires(s, node))
        return d

    def axioms(s, node):
        return tree_axioms(s, node)

    def resolvable_upto(s0, s, refs, ids, k):
        j = z3.Int("ru_j")
        return smt.FA([j], z3.Implies(z3.And(0 <= j, j < k), s.dmap(ids)[s0.f("_content", s.nat(refs, j))] != smt.absent), patterns=[s.at(refs, j)])

    def inv_check(s0, s, v):
        refs, ids = Val.r(v.V("references")), Val.r(v.V("ids"))
        j = z3.Int("ic_j")
        return {"bound": v._k <= s.len(refs), "resolvable-so-far": resolvable_upto(s0, s, refs, ids, v._k), "top": s.top >= s0.top}

    def stop(s0, s, v):
        m = z3.Int("st_m")
        ids = Val.r(v.V("ids"))
        rm = s.dmap(ids)
        c = s0.f("_content", m)
        return {"every-references-node-of-the-subtree-names-a-registered-id":
                smt.FA([m], z3.Implies(z3.And(SUB(s0, v.node, m), m != v.node, s0.name(m) == REFS),
                                       z3.And(rm[c] != smt.absent, Val.is_ref(rm[c]), SUB(s0, v.node, Val.r(rm[c])), idval(s0, Val.r(rm[c])) == c)),
                       patterns=[Q9.RK(s0, v.node, REFS, m)])}

    con = Contract(Q_EXPAND, params={"node": "Node"}, requires=requires, axioms=axioms, ensures=lambda s0, s, node, result=None: {},
                   raises=[(ValueError, None, None)], writes=(), mod=lambda s0, r, **kw: z3.BoolVal(False), allocates=True, result_ty="none",
                   modular=False, assumptions=("T-unfold(Sub,W,Tree,desc_count,desc_rank)",))
    w.call_lemmas[(Q_EXPAND, Q9.Q_FAD)] = lambda s0, s, v: Q9.desc_frame_steps(s0, s)
    w.call_lemmas[(Q_EXPAND, Q_REG)] = lambda s0, s, v: tree_frame_steps(s0, s)
    w.loop(Q_EXPAND, 1, inv=inv_check, var_types={"reference": "Node"})
    w.loop(Q_EXPAND, 2, stop=stop)
    return con
