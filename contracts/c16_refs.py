"""C16: reference expansion.  _register_ids is verified functionally; expand itself rests on the proved contracts of its callees
(copy C12, add_child / remove_child C09, delete_node_instance C14) and is otherwise covered by the bounded pass."""
import z3
from pyvc import smt
from pyvc.smt import Val, I, B, kind, KIND_NODE, KIND_LIST, KIND_DICT
from pyvc.task import Contract
from .prelude import *
from .tree import *
from .node_ops import kids_typed
from .c13_ns import DICT_ARRS

Q_REG = "metapype.eml.references:_register_ids"
IDK = Val.strv(z3.StringVal("id"))


def idval(s, m):
    """the value of m's `id` attribute (absent when it has none)"""
    return s.dmap(s.fr("_attributes", m))[IDK]


def uniq(s, root):
    m, m2 = z3.Ints("uq_m uq_m2")
    return smt.FA([m, m2], z3.Implies(z3.And(SUB(s, root, m), SUB(s, root, m2), idval(s, m) != smt.absent, idval(s, m) == idval(s, m2)), m == m2),
                  patterns=[z3.MultiPattern(SUB(s, root, m), SUB(s, root, m2))])


def install(w, assume_unique):
    def requires(s, node):
        m = z3.Int("rq_m")
        d = {"wf": wf_sub(s, node), "tree": TREE(s, node), "kids-typed": kids_typed(s),
             "attribute-dicts": smt.FA([m], z3.Implies(SUB(s, node, m), z3.And(Val.is_ref(s.f("_attributes", m)), s.alloc(s.fr("_attributes", m)),
                                                                                 kind(s.fr("_attributes", m)) == KIND_DICT, s.dict_wf(s.fr("_attributes", m)))),
                                       patterns=[SUB(s, node, m)])}
        if assume_unique:
            d["ids-unique"] = uniq(s, node)
        return d

    def axioms(s, node):
        return tree_axioms(s, node)

    def exact(s0, s, R, root, upto=None, with_root=True):
        """R maps exactly the id values of the nodes of the subtree (restricted to the first `upto` child subtrees) to those nodes"""
        m = z3.Int("ex_m")
        k = z3.Const("ex_k", Val)
        inside = (lambda x: SUB(s0, root, x)) if upto is None else (lambda x: z3.Or(z3.And(with_root, x == root), below_first(s0, root, upto, x)))
        rm = s.dmap(R)
        return z3.And(
            smt.FA([m], z3.Implies(z3.And(SUB(s0, root, m), inside(m), idval(s0, m) != smt.absent), rm[idval(s0, m)] == Val.ref(m)), patterns=[SUB(s0, root, m)]),
            smt.FA([k], z3.Implies(rm[k] != smt.absent, z3.And(Val.is_ref(rm[k]), SUB(s0, root, Val.r(rm[k])), inside(Val.r(rm[k])), idval(s0, Val.r(rm[k])) == k)),
                   patterns=[rm[k]]))

    def ensures(s0, s, node, result):
        R = Val.r(result)
        return {"top:maps-exactly-the-ids-of-the-subtree": exact(s0, s, R, node), "fresh": z3.And(Val.is_ref(result), R >= s0.top, kind(R) == KIND_DICT),
                "wf": s.dict_wf(R), "no-new-nodes": no_new_nodes(s0, s)}

    def inv_attrs(s0, s, v):
        R = v.id_register
        rm = s.dmap(R)
        k = z3.Const("ia_k", Val)
        node = v.node
        d = s0.fr("_attributes", node)
        pos = s0.dpos(d)
        seen = z3.And(idval(s0, node) != smt.absent, pos[IDK] < v._k)
        return {"fresh": z3.And(R >= s0.top, R < s.top, kind(R) == KIND_DICT), "wf": s.dict_wf(R),
                "content": smt.FA([k], rm[k] == z3.If(z3.And(seen, k == idval(s0, node)), Val.ref(node), smt.absent), patterns=[rm[k]])}

    def inv_children(s0, s, v):
        R = v.id_register
        return {"bound": v._k <= s0.nkids(v.node), "fresh": z3.And(R >= s0.top, R < s.top, kind(R) == KIND_DICT), "wf": s.dict_wf(R),
                "exact-so-far": exact(s0, s, R, v.node, upto=v._k), "no-new-nodes": no_new_nodes(s0, s), "top": s.top >= s0.top}

    def ax_children(s0, s, v):
        ch = s0.kid(v.node, v._k)
        d = {"kid-refl": SUB(s0, ch, ch)}
        d.update(subtree_frame_steps(s0, s, v.node))
        return d

    def inv_keys(s0, s, v):
        j = z3.Int("ik_j")
        R, C = v.id_register, Val.r(v.V("_"))
        return {"none-shared-so-far": smt.FA([j], z3.Implies(z3.And(0 <= j, j < v._k), s.dmap(R)[s.dkey(C)[j]] == smt.absent), patterns=[s.dkey(C)[j]])}

    con = Contract(Q_REG, params={"node": "Node"}, requires=requires, axioms=axioms, ensures=ensures,
                   raises=[] if assume_unique else [(ValueError, None, None)],
                   writes=DICT_ARRS, mod=lambda s0, r, **kw: z3.BoolVal(False), allocates=True, result_ty="dict:Node",
                   decreases=lambda s, node: H(s, node), assumptions=("T-unfold(Sub,W,Tree)",))
    w.add(con)
    w.loop(Q_REG, 1, inv=inv_attrs, arrays=DICT_ARRS)
    w.loop(Q_REG, 2, inv=inv_children, axioms=ax_children, arrays=DICT_ARRS + ("top",), var_types={"id_register": "dict:Node", "_": "dict:Node"})
    w.loop(Q_REG, 3, inv=inv_keys)
    w.call_lemmas[(Q_REG, Q_REG)] = lambda s0, s, v: subtree_frame_steps(s0, s, v.node)
    return con
