"""C17: suggested insertion index is schema-legal (per concrete rule; existing child sequence symbolic)."""
import z3
from pyvc import smt
from pyvc.smt import Val, I, B
from pyvc.task import Contract
from .prelude import *
from .rules_common import *
from . import rulelang as RL

Q_CII = "metapype.eml.rule:Rule.child_insert_index"
Q_IAC = "metapype.eml.rule:Rule.is_allowed_child"


def install(w, rule_name, children, mixed):
    from metapype.eml.exceptions import ChildNotAllowedError
    ast = RL.parse(children, mixed)
    names = RL.names_of(ast)            # declared order (independent flattening)
    rank_of = {}
    for i, a in enumerate(names):
        rank_of.setdefault(a, i)        # first occurrence, as list.index does

    def rank(nm):
        """z3 Int: declared position of a child name (-1 for a name the rule does not list)"""
        t = z3.IntVal(-1)
        for a, i in rank_of.items():
            t = z3.If(nm == z3.StringVal(a), i, t)
        return t

    def wname(s, parent, j):
        return s.name(s.kid(parent, j))

    def requires(s, self, parent, new_child):
        j = z3.Int("ci_j")
        return {"existing-children-are-rule-names": smt.FA([j], z3.Implies(z3.And(0 <= j, j < s.nkids(parent)), rank(wname(s, parent, j)) >= 0),
                                                          patterns=[s.at(s.kids(parent), j)])}

    def ensures(s0, s, self, parent, new_child, result):
        j = z3.Int("ce_j")
        r = Val.i(result)
        n = s0.nkids(parent)
        rc = rank(s0.name(new_child))
        return {"top:int": Val.is_intv(result),
                "top:in-bounds": z3.And(0 <= r, r <= n),
                "top:everything-before-ranks-no-higher": smt.FA([j], z3.Implies(z3.And(0 <= j, j < r), rank(wname(s0, parent, j)) <= rc),
                                                                patterns=[s0.at(s0.kids(parent), j)]),
                "top:next-ranks-higher": z3.Implies(r < n, rank(wname(s0, parent, r)) > rc)}

    def not_allowed(s, self, parent, new_child):
        return rank(s.name(new_child)) < 0

    def inv(s0, s, v):
        j = z3.Int("cv_j")
        rc = rank(s0.name(v.new_child))
        return {"bound": v._k <= s0.nkids(v.parent), "rank": v.new_child_index == rc,
                "before": smt.FA([j], z3.Implies(z3.And(0 <= j, j < v._k), rank(wname(s0, v.parent, j)) <= rc), patterns=[s0.at(s0.kids(v.parent), j)])}

    con = Contract(Q_CII, params={"self": make_rule(rule_name), "parent": "Node", "new_child": "Node"}, requires=requires, ensures=ensures,
                   raises=[(ChildNotAllowedError, not_allowed, None)], result_ty="int", modular=False)
    w.loop(Q_CII, 1, inv=inv, var_types={"index": "int", "child": "Node", "parent_child_index": "int"})

    def iac_ensures(s0, s, self, child_name, result):
        return {"top:true-exactly-for-listed-names": Val.b(result) == (rank(child_name) >= 0), "bool": Val.is_boolv(result)}

    con2 = Contract(Q_IAC, params={"self": make_rule(rule_name), "child_name": "str"}, ensures=iac_ensures, result_ty="bool", modular=False)
    return con, con2, names, rank_of


# ------------------------------------------------------------------------------------------------ spec-level lemmas (automata)
def insertion_lemma(ast, names, rank_of):
    """decides exactly: for every sequence w over the rule's names and every listed name c, if some insertion position puts w+c
    into L_lo then the suggested position (before the first child ranking higher than c) puts it into L_hi.
    Returns None or a counterexample (w, c)."""
    dlo, dhi = RL.to_dfa(ast, False), RL.to_dfa(ast, True)
    alpha = [a for a in dlo.alphabet if a != RL.OTHER]
    for c in alpha:
        rc = rank_of[c]
        # state: (frozenset of (qlo, inserted)), (qhi, inserted_hi)
        start = (frozenset({(dlo.init, False), (dlo.delta[dlo.init][c], True)}), (dhi.init, False))
        seen = {start: None}
        queue = [start]
        while queue:
            st = queue.pop(0)
            S, (qh, ins) = st
            # end of word
            qh_end = qh if ins else dhi.delta[qh][c]
            some_lo = any(i and q in dlo.accepting for q, i in S)
            if some_lo and qh_end not in dhi.accepting:
                w = []
                cur = st
                while seen[cur] is not None:
                    cur, a = seen[cur]
                    w.append(a)
                return (list(reversed(w)), c)
            for a in alpha:
                S2 = set()
                for q, i in S:
                    q2 = dlo.delta[q][a]
                    S2.add((q2, i))
                    if not i:
                        S2.add((dlo.delta[q2][c], True))
                if ins or rank_of[a] <= rc:
                    nh = (dhi.delta[qh][a], ins)
                else:
                    nh = (dhi.delta[dhi.delta[qh][c]][a], True)
                nxt = (frozenset(S2), nh)
                if nxt not in seen:
                    seen[nxt] = (st, a)
                    queue.append(nxt)
    return None


def occurs_in_some_word(ast, a):
    dhi = RL.to_dfa(ast, True)
    reach = {dhi.init}
    stack = [dhi.init]
    while stack:
        q = stack.pop()
        for b in dhi.alphabet:
            t = dhi.delta[q][b]
            if t not in reach:
                reach.add(t)
                stack.append(t)
    co = set(dhi.accepting)
    changed = True
    while changed:
        changed = False
        for q in range(dhi.n):
            if q not in co and any(dhi.delta[q][b] in co for b in dhi.alphabet):
                co.add(q)
                changed = True
    return a in dhi.alphabet and any(q in reach and dhi.delta[q][a] in co for q in range(dhi.n))
