"""C18: Node.is_equal decides structural equality of whole trees."""
import z3
from pyvc.smt import Val, I, B
from pyvc import smt
from pyvc.task import Contract
from .prelude import *

Q = "metapype.model.node:Node.is_equal"

# ghost predicates over the (unmodified) entry heap; defined by their one-level unfolding (T-unfold)
EQ = z3.Function("Eq", I, I, B)      # structural equality of the subtrees at two nodes
PD = z3.Function("PD", I, I, B)      # "pairwise distinct": positionally corresponding nodes are different objects

DICT_FIELDS = ("_attributes", "_nsmap", "_extras")
SCALAR_FIELDS = ("_name", "_content", "_tail", "_prefix")


def eq_def(s, a, b):
    i = z3.Int("eq_i")
    return z3.And(
        *[s.f(f, a) == s.f(f, b) for f in SCALAR_FIELDS],
        *[s.dmap(s.fr(f, a)) == s.dmap(s.fr(f, b)) for f in DICT_FIELDS],
        s.nkids(a) == s.nkids(b),
        smt.FA([i], z3.Implies(z3.And(0 <= i, i < s.nkids(a)), EQ(s.kid(a, i), s.kid(b, i))),
                  patterns=[EQ(s.kid(a, i), s.kid(b, i))]),
    )


def pd_def(s, a, b):
    i = z3.Int("pd_i")
    return z3.And(a != b, smt.FA([i], z3.Implies(z3.And(0 <= i, i < s.nkids(a), i < s.nkids(b)),
                                                     PD(s.kid(a, i), s.kid(b, i))),
                                    patterns=[PD(s.kid(a, i), s.kid(b, i))]))


def lcard(s, d1, d2):
    """L-card (finite cardinality): two well-formed dicts of equal size, one key set included in the other,
    have the same key set.  Used as an instance here; proved in Lean 4 + Mathlib (lemmas/LCard.lean, compiled by the C18 check on every run)."""
    k = z3.Const("lc_k", Val)
    m1, m2 = s.dmap(d1), s.dmap(d2)
    sub = smt.FA([k], z3.Implies(m1[k] != smt.absent, m2[k] != smt.absent), patterns=[m1[k]])
    return z3.And(
        z3.Implies(sub, s.dn(d1) <= s.dn(d2)),
        z3.Implies(z3.And(s.dn(d1) == s.dn(d2), sub),
                   smt.FA([k], z3.Implies(m2[k] != smt.absent, m1[k] != smt.absent), patterns=[m2[k]])))


def requires(s, node1, node2):
    return {"wf": wf_children(s), "pd": PD(node1, node2)}


def axioms(s, node1, node2):
    cl = {
        "pd-unfold": PD(node1, node2) == pd_def(s, node1, node2),
        "eq-unfold": EQ(node1, node2) == eq_def(s, node1, node2),
    }
    for f in DICT_FIELDS:
        d1, d2 = s.fr(f, node1), s.fr(f, node2)
        cl["wf1" + f] = s.dict_wf(d1)
        cl["wf2" + f] = s.dict_wf(d2)
        cl["lcard" + f] = lcard(s, d1, d2)
        cl["lcard'" + f] = lcard(s, d2, d1)
    return cl


def ensures(s0, s, node1, node2, result):
    return {"eq": Val.b(result) == EQ(node1, node2), "bool": Val.is_boolv(result)}


def dict_loop_inv(field):
    def inv(s0, s, v):
        j = z3.Int("dl_j")
        d1, d2 = s0.fr(field, v.node1), s0.fr(field, v.node2)
        m1, m2, k1 = s0.dmap(d1), s0.dmap(d2), s0.dkey(d1)
        return smt.FA([j], z3.Implies(z3.And(0 <= j, j < v._k), m2[k1[j]] == m1[k1[j]]), patterns=[k1[j]])
    return inv


def child_loop_inv(s0, s, v):
    j = z3.Int("cl_j")
    return z3.And(v._k <= s0.nkids(v.node1),
                  smt.FA([j], z3.Implies(z3.And(0 <= j, j < v._k), EQ(s0.kid(v.node1, j), s0.kid(v.node2, j))),
                            patterns=[EQ(s0.kid(v.node1, j), s0.kid(v.node2, j))]))


def install(w):
    con = Contract(Q, params={"node1": "Node", "node2": "Node"}, requires=requires, axioms=axioms, ensures=ensures, result_ty="bool",
                   decreases=lambda s, node1, node2: H(s, node1), assumptions=("L-card (instances; the lemma itself is machine-checked in Lean, see the obligation C18/lemma:L-card/lean-proof)", "T-unfold(Eq,PD)"))
    w.add(con)
    w.loop(Q, 1, inv=dict_loop_inv("_attributes"))
    w.loop(Q, 2, inv=dict_loop_inv("_nsmap"))
    w.loop(Q, 3, inv=dict_loop_inv("_extras"))
    w.loop(Q, 4, inv=child_loop_inv)
    return con
