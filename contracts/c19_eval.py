"""C19: evaluation is total and reports exactly the documented recommendations (per evaluator; dataset/datatable bounded)."""
import z3
from pyvc import smt, strings
from pyvc.smt import Val, I, B, S, kind, KIND_NODE, KIND_LIST, KIND_DICT
from pyvc.task import Contract
from pyvc.core import obj_term
from pyvc.values import *
from .prelude import *
from .prelude import _CS
from .tree import *
from .node_ops import kids_typed

EV = "metapype.eml.evaluate:"
U_NORM = z3.Function("normalize_text", S, S)
_GTC = z3.Function("text_content_of", *_CS, smt.FieldArr, smt.FieldArr, I, S)   # ghost: get_text_content(node) (reads names, contents, structure)


def GTC(s, n):
    return _GTC(*s.cs, s.arr("F:_name"), s.arr("F:_content"), n)


# ghost: the last child of n named x among the first k (None when there is none)   LCHU(0) = None; LCHU(k+1) = kid k if it is named x else LCHU(k)
_LCHU = z3.Function("last_child_named_upto", *_CS, smt.FieldArr, I, S, I, Val)
_LCH = z3.Function("last_child_named", *_CS, smt.FieldArr, I, S, Val)


def LCHU(s, n, x, k):
    return _LCHU(*s.cs, s.arr("F:_name"), n, z3.StringVal(x) if isinstance(x, str) else x, k)


def LCH(s, n, x):
    return _LCH(*s.cs, s.arr("F:_name"), n, z3.StringVal(x) if isinstance(x, str) else x)


def lchu_step(s, n, x, k):
    xs = z3.StringVal(x) if isinstance(x, str) else x
    return z3.And(LCHU(s, n, x, 0) == Val.none, LCH(s, n, x) == LCHU(s, n, x, s.nkids(n)),
                  LCHU(s, n, x, k + 1) == z3.If(s.name(s.kid(n, k)) == xs, s.at(s.kids(n), k), LCHU(s, n, x, k)))


def truthy_content(s, m):
    c = s.f("_content", m)
    return z3.And(Val.is_strv(c), z3.Length(Val.s(c)) > 0)


def child_is(s, n, j, name, with_content=True):
    ch = s.kid(n, j)
    cl = [s.name(ch) == z3.StringVal(name)]
    if with_content:
        cl.append(truthy_content(s, ch))
    return z3.And(*cl)


def exists_child(s, n, pred, upto=None, tag="ec"):
    j = z3.Int(tag + "_j")
    lim = s.nkids(n) if upto is None else upto
    return z3.Exists([j], z3.And(0 <= j, j < lim, pred(j)))


def warn_list(s, L, node, items):
    """L is exactly the sub-sequence of `items` = [(condition, warning code)] whose condition holds, each as (code, message, node)"""
    cl = []
    pos = z3.IntVal(0)
    for cond, code in items:
        e = s.at(L, pos)
        cl.append(z3.Implies(cond, z3.And(Val.is_tupv(e), smt.TLEN(Val.tid(e)) == 3, smt.TITEM(Val.tid(e), 0) == obj_term(code),
                                          Val.is_strv(smt.TITEM(Val.tid(e), 1)), smt.TITEM(Val.tid(e), 2) == Val.ref(node))))
        pos = pos + z3.If(cond, 1, 0)
    cl.append(s.len(L) == pos)
    return z3.And(*cl)


def warn_parts(s, L, node, items):
    pos = z3.IntVal(0)
    out = {}
    for i, (cond, code) in enumerate(items):
        e = s.at(L, pos)
        out[f"top:entry-{code.name}"] = z3.Implies(cond, z3.And(Val.is_tupv(e), smt.TLEN(Val.tid(e)) == 3, smt.TITEM(Val.tid(e), 0) == obj_term(code),
                                                                Val.is_strv(smt.TITEM(Val.tid(e), 1)), smt.TITEM(Val.tid(e), 2) == Val.ref(node)))
        pos = pos + z3.If(cond, 1, 0)
    out["top:exactly-these"] = s.len(L) == pos
    return out


def install(w):
    from metapype.eml import evaluate, names
    from metapype.eml.evaluation_warnings import EvaluationWarning as EW
    from metapype.model import normalize as norm_mod

    def ext_normalize(ip, content, is_xml=False):
        if is_xml is not False:
            raise Unsupported("normalize(xml) inside evaluation")
        ip.c.assumptions_used.add("normalize() enters evaluation by name only (uninterpreted normalize_text; its own properties are C20)")
        if isinstance(content, Sym) and content.t.sort() == Val:
            content = ip.resolve(content)
        if content is None:
            ip.py_raise(AttributeError, "'NoneType' object has no attribute 'replace'")
        if isinstance(content, str):
            content = Sym(z3.StringVal(content), "str")
        return Sym(U_NORM(content.t), "str")
    w.externals[norm_mod.normalize] = ext_normalize
    w.externals[evaluate.normalize] = ext_normalize
    out = {}
    base_req = lambda s, node: {"kids-typed": kids_typed(s), "schema": node_schema(s, node)}

    # ---- responsible parties
    def rp_ensures(s0, s, node, result):
        L = Val.r(result)
        userid = exists_child(s0, node, lambda j: child_is(s0, node, j, names.USERID), tag="u")
        orcid = exists_child(s0, node, lambda j: z3.And(child_is(s0, node, j, names.USERID),
                                                        s0.dmap(s0.fr("_attributes", s0.kid(node, j)))[Val.strv(z3.StringVal("directory"))] == Val.strv(z3.StringVal("https://orcid.org"))), tag="o")
        email = exists_child(s0, node, lambda j: child_is(s0, node, j, names.ELECTRONICMAILADDRESS), tag="e")
        return {"top:warnings": z3.And(Val.is_ref(result), warn_list(s, L, node, [(z3.Not(orcid), EW.ORCID_ID_MISSING), (z3.Not(userid), EW.USER_ID_MISSING),
                                                                                   (z3.Not(email), EW.EMAIL_MISSING)]))}

    def rp_inv(s0, s, v):
        n = v.node
        k = v._k
        userid = exists_child(s0, n, lambda j: child_is(s0, n, j, names.USERID), upto=k, tag="u")
        orcid = exists_child(s0, n, lambda j: z3.And(child_is(s0, n, j, names.USERID),
                                                     s0.dmap(s0.fr("_attributes", s0.kid(n, j)))[Val.strv(z3.StringVal("directory"))] == Val.strv(z3.StringVal("https://orcid.org"))), upto=k, tag="o")
        email = exists_child(s0, n, lambda j: child_is(s0, n, j, names.ELECTRONICMAILADDRESS), upto=k, tag="e")
        b = lambda x: x if z3.is_expr(x) else z3.BoolVal(bool(x))
        return {"bound": k <= s0.nkids(n), "userid": b(v.userid) == userid, "orcid": b(v.orcid) == orcid, "email": b(v.email) == email}

    con = Contract(EV + "_responsible_party_rule", params={"node": "Node"}, requires=base_req, ensures=rp_ensures, allocates=True, result_ty="list:val", modular=False)
    w.loop(EV + "_responsible_party_rule", 1, inv=rp_inv)
    out["_responsible_party_rule"] = (evaluate._responsible_party_rule, con)
    for alias in ("_associated_responsible_party_rule", "_contact_rule", "_creator_rule", "_metadata_provider_rule", "_personnel_rule"):
        c2 = Contract(EV + alias, params={"node": "Node"}, requires=base_req, ensures=rp_ensures, allocates=True, result_ty="list:val", modular=False)
        out[alias] = (getattr(evaluate, alias), c2)

    # ---- individual name
    def in_ensures(s0, s, node, result):
        g = exists_child(s0, node, lambda j: child_is(s0, node, j, names.GIVENNAME), tag="g")
        sn = exists_child(s0, node, lambda j: child_is(s0, node, j, names.SURNAME), tag="s")
        L = Val.r(result)
        return {"top:warnings": z3.If(z3.And(g, sn), result == Val.none,
                                      z3.And(Val.is_ref(result), warn_list(s, L, node, [(z3.BoolVal(True), EW.INDIVIDUAL_NAME_INCOMPLETE)])))}

    def in_inv(s0, s, v):
        n, k = v.node, v._k
        b = lambda x: x if z3.is_expr(x) else z3.BoolVal(bool(x))
        return {"bound": k <= s0.nkids(n),
                "given": b(v.givename) == exists_child(s0, n, lambda j: child_is(s0, n, j, names.GIVENNAME), upto=k, tag="g"),
                "sur": b(v.surname) == exists_child(s0, n, lambda j: child_is(s0, n, j, names.SURNAME), upto=k, tag="s")}

    con = Contract(EV + "_individual_name_rule", params={"node": "Node"}, requires=base_req, ensures=in_ensures, allocates=True, result_ty="opt:list:val", modular=False)
    w.loop(EV + "_individual_name_rule", 1, inv=in_inv)
    out["_individual_name_rule"] = (evaluate._individual_name_rule, con)

    # ---- other entity
    def oe_ensures(s0, s, node, result):
        d = exists_child(s0, node, lambda j: child_is(s0, node, j, names.ENTITYDESCRIPTION), tag="d")
        return {"top:warnings": z3.And(Val.is_ref(result), warn_list(s, Val.r(result), node, [(z3.Not(d), EW.OTHER_ENTITY_DESCRIPTION_MISSING)]))}

    def oe_inv(s0, s, v):
        n, k = v.node, v._k
        fl = v.raw("__comp1")
        flt = fl.t if isinstance(fl, Sym) else z3.BoolVal(bool(fl))
        return {"bound": k <= s0.nkids(n), "none-yet": z3.And(flt == z3.BoolVal(False), z3.Not(exists_child(s0, n, lambda j: child_is(s0, n, j, names.ENTITYDESCRIPTION), upto=k, tag="d")))}

    con = Contract(EV + "_other_entity_rule", params={"node": "Node"}, requires=base_req, ensures=oe_ensures, allocates=True, result_ty="list:val", modular=False)
    w.loop(EV + "_other_entity_rule", 1, inv=oe_inv)
    out["_other_entity_rule"] = (evaluate._other_entity_rule, con)

    # ---- title
    def ti_ensures(s0, s, node, result):
        c = s0.f("_content", node)
        p = s0.f("_parent", node)
        short = z3.And(c != Val.none, p != Val.none, s0.name(Val.r(p)) == z3.StringVal(names.DATASET),
                       strings.U_NSPLIT(U_NORM(Val.s(c)), z3.StringVal(" ")) < 5)
        return {"ref": Val.is_ref(result), **warn_parts(s, Val.r(result), node, [(short, EW.TITLE_TOO_SHORT)])}

    con = Contract(EV + "_title_rule", params={"node": "Node"}, requires=base_req, ensures=ti_ensures, allocates=True, result_ty="list:val", modular=False)
    out["_title_rule"] = (evaluate._title_rule, con)

    # ---- description (get_text_content by name)
    gtc = Contract(EV + "get_text_content", params={"text_node": "Node"}, ensures=lambda s0, s, text_node, result: {"named": Val.s(result) == GTC(s0, text_node), "str": Val.is_strv(result)},
                   allocates=True, result_ty="str", modular=True, trusted=True,
                   assumptions=("get_text_content enters _description_rule by name (ghost text_content_of); its frame is proved in C11; the collected text itself is not specified",))
    gtc.writes = ()

    PARENTS = [("connectionDefinition", EW.CONNECTION_DEFINITION_DESCRIPTION_MISSING), ("designDescription", EW.DESIGN_DESCRIPTION_DESCRIPTION_MISSING),
               ("maintenance", EW.MAINTENANCE_DESCRIPTION_MISSING), ("methodStep", EW.METHOD_STEP_DESCRIPTION_MISSING),
               ("procedureStep", EW.PROCEDURE_STEP_DESCRIPTION_MISSING), ("qualityControl", EW.QUALITY_CONTROL_DESCRIPTION_MISSING),
               ("samplingDescription", EW.SAMPLING_DESCRIPTION_DESCRIPTION_MISSING), ("studyExtent", EW.STUDY_EXTENT_DESCRIPTION_MISSING)]

    def de_ensures(s0, s, node, result):
        empty = z3.Length(GTC(s0, node)) == 0
        p = s0.f("_parent", node)
        items = [(z3.And(empty, p != Val.none, s0.name(Val.r(p)) == z3.StringVal(nm)), code) for nm, code in PARENTS]
        return {"top:warnings": z3.And(Val.is_ref(result), warn_list(s, Val.r(result), node, items))}

    con = Contract(EV + "_description_rule", params={"node": "Node"}, requires=base_req, ensures=de_ensures, allocates=True, result_ty="list:val", modular=False)
    out["_description_rule"] = (evaluate._description_rule, con)
    out["__gtc"] = gtc

    # ---- data table: which of its descendants the five checks look at is part of the specification (first / last child by name)
    from . import c09_queries as Q9
    FCH = Q9.FCH

    def ok(s, v):
        return z3.And(v != Val.none, truthy_content(s, Val.r(v)))

    def dt_terms(s, node):
        phys = FCH(s, node, names.PHYSICAL)
        P = Val.r(phys)
        pick = lambda nm: z3.If(phys == Val.none, Val.none, LCH(s, P, nm))
        size, auth, rd1, df = pick(names.SIZE), pick(names.AUTHENTICATION), pick(names.RECORDDELIMITER), pick(names.DATAFORMAT)
        tf = z3.If(df == Val.none, Val.none, FCH(s, Val.r(df), names.TEXTFORMAT))
        rd2 = z3.If(tf == Val.none, Val.none, FCH(s, Val.r(tf), names.RECORDDELIMITER))
        rd = z3.If(rd2 != Val.none, rd2, rd1)
        nrec = FCH(s, node, names.NUMBEROFRECORDS)
        return dict(phys=phys, size=size, auth=auth, rd1=rd1, df=df, tf=tf, rd2=rd2, rd=rd, nrec=nrec)

    def dt_axioms(s, node):
        t = dt_terms(s, node)
        P = Val.r(t["phys"])
        d = {"fch-physical": Q9.fch_def(s, node, names.PHYSICAL), "fch-nrec": Q9.fch_def(s, node, names.NUMBEROFRECORDS),
             "fch-tf": Q9.fch_def(s, Val.r(LCH(s, P, names.DATAFORMAT)), names.TEXTFORMAT),
             "fch-rd": Q9.fch_def(s, Val.r(FCH(s, Val.r(LCH(s, P, names.DATAFORMAT)), names.TEXTFORMAT)), names.RECORDDELIMITER)}
        for nm in (names.SIZE, names.AUTHENTICATION, names.RECORDDELIMITER, names.DATAFORMAT):
            d["lch-" + nm] = z3.And(LCHU(s, P, nm, 0) == Val.none, LCH(s, P, nm) == LCHU(s, P, nm, s.nkids(P)))
        return d

    def dt_ensures(s0, s, node, result):
        t = dt_terms(s0, node)
        desc = exists_child(s0, node, lambda j: child_is(s0, node, j, names.ENTITYDESCRIPTION), tag="d")
        return {"ref": Val.is_ref(result),
                **warn_parts(s, Val.r(result), node, [(z3.Not(desc), EW.DATATABLE_DESCRIPTION_MISSING), (z3.Not(ok(s0, t["size"])), EW.DATATABLE_SIZE_MISSING),
                                                      (z3.Not(ok(s0, t["auth"])), EW.DATATABLE_MD5_CHECKSUM_MISSING),
                                                      (z3.Not(ok(s0, t["nrec"])), EW.DATATABLE_NUMBER_OF_RECORDS_MISSING),
                                                      (z3.Not(ok(s0, t["rd"])), EW.DATATABLE_RECORD_DELIMITER_MISSING)])}

    def none_named_before(s0, n, nm, k, tag):
        j = z3.Int(tag + "_j")
        return smt.FA([j], z3.Implies(z3.And(0 <= j, j < k), s0.name(s0.kid(n, j)) != z3.StringVal(nm)), patterns=[s0.at(s0.kids(n), j)])

    def dt_inv_any(s0, s, v):
        fl = v.raw("__comp1")
        flt = fl.t if isinstance(fl, Sym) else z3.BoolVal(bool(fl))
        return {"bound": v._k <= s0.nkids(v.node),
                "none-yet": z3.And(flt == z3.BoolVal(False), z3.Not(exists_child(s0, v.node, lambda j: child_is(s0, v.node, j, names.ENTITYDESCRIPTION), upto=v._k, tag="d")))}

    def first_inv(var, parent_of, nm, keep=()):
        def inv(s0, s, v):
            n = parent_of(v)
            return {"bound": v._k <= s0.nkids(n), "not-found-yet": v.V(var) == Val.none, "none-before": none_named_before(s0, n, nm, v._k, "fb")}
        return inv

    def dt_inv_phys_children(s0, s, v):
        P = Val.r(v.V("physical_node"))
        return {"bound": v._k <= s0.nkids(P), "auth": v.V("authentication_node") == LCHU(s0, P, names.AUTHENTICATION, v._k),
                "rd": v.V("record_delimiter_node") == LCHU(s0, P, names.RECORDDELIMITER, v._k), "size": v.V("size_node") == LCHU(s0, P, names.SIZE, v._k),
                "df": v.V("data_format_node") == LCHU(s0, P, names.DATAFORMAT, v._k)}

    def dt_ax_phys_children(s0, s, v):
        P = Val.r(v.V("physical_node"))
        return {nm: lchu_step(s0, P, nm, v._k) for nm in (names.SIZE, names.AUTHENTICATION, names.RECORDDELIMITER, names.DATAFORMAT)}

    NT = "opt:Node"
    vt = {"child": "Node", "physical_node": NT, "authentication_node": NT, "number_of_records_node": NT, "size_node": NT, "data_format_node": NT,
          "text_format_node": NT, "record_delimiter_node": NT}
    q = EV + "_datatable_rule"
    con = Contract(q, params={"node": "Node"}, requires=base_req, axioms=dt_axioms, ensures=dt_ensures, allocates=True, result_ty="list:val", modular=False,
                   assumptions=("T-unfold(first_child_named, last_child_named)",))
    w.loop(q, 1, inv=dt_inv_any, var_types=vt)
    w.loop(q, 2, inv=first_inv("physical_node", lambda v: v.node, names.PHYSICAL), var_types=vt)
    w.loop(q, 3, inv=dt_inv_phys_children, axioms=dt_ax_phys_children, var_types=vt)
    w.loop(q, 4, inv=first_inv("text_format_node", lambda v: Val.r(v.V("data_format_node")), names.TEXTFORMAT), var_types=vt)
    def dt_inv_rd(s0, s, v):
        T = Val.r(v.V("text_format_node"))
        return {"bound": v._k <= s0.nkids(T), "kept-so-far": v.V("record_delimiter_node") == v.V("old_rd"), "none-before": none_named_before(s0, T, names.RECORDDELIMITER, v._k, "fr")}
    w.loop(q, 5, inv=dt_inv_rd, ghost={"old_rd": lambda s, v: v.V("record_delimiter_node")}, var_types=vt)
    w.loop(q, 6, inv=first_inv("number_of_records_node", lambda v: v.node, names.NUMBEROFRECORDS), var_types=vt)
    # the paths through the six loops are joined before the five independent checks (keeps the number of paths additive)
    from pyvc.task import MergeC
    from pyvc.loops import NS, havoc_like
    from pyvc.core import arr_sort
    DT_LOCALS = {"size_node": "size", "authentication_node": "auth", "number_of_records_node": "nrec", "record_delimiter_node": "rd"}

    def dt_merge_inv(s0, s, ip):
        fr = ip.frames[-1]
        ev = fr.locals["evaluation"]
        if isinstance(ev, PList) and ev.ref is None:
            ip.c.promote(ev)
        v = NS(ip, dict(fr.locals))
        node = v.node
        t = dt_terms(s0, node)
        L = ev.ref if isinstance(ev, PList) else ev.t
        desc = exists_child(s0, node, lambda j: child_is(s0, node, j, names.ENTITYDESCRIPTION), tag="d")
        d = {"list": z3.And(L >= s0.top, L < s.top, kind(L) == KIND_LIST)}
        d.update({k.replace("top:", "so-far:"): x for k, x in warn_parts(s, L, node, [(z3.Not(desc), EW.DATATABLE_DESCRIPTION_MISSING)]).items()})
        for loc, key in DT_LOCALS.items():
            x = v.V(loc)
            d["is:" + key] = x == t[key]
            d["typed:" + key] = z3.Or(x == Val.none, z3.And(Val.is_ref(x), s0.is_node(Val.r(x))))
        return d

    def dt_merge_havoc(ip):
        c = ip.c
        fr = ip.frames[-1]
        for loc in DT_LOCALS:
            fr.locals[loc] = havoc_like(ip, None, NT, loc)
        for a in ("llen", "lelem"):
            c.heap.set(a, c.fresh("mg_" + a, arr_sort(a)))
        nt = c.fresh("top", I)
        c.assume(nt >= c.heap.top)
        c.heap.top = nt

    w.after_loop[(q, 6)] = MergeC(dt_merge_inv, dt_merge_havoc)
    out["_datatable_rule"] = (evaluate._datatable_rule, con)
    return out
