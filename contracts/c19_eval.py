"""C19: evaluation is total and reports exactly the documented recommendations (per evaluator; dataset/datatable bounded)."""
import z3
from pyvc import smt, strings
from pyvc.smt import Val, I, B, S, kind, KIND_NODE, KIND_LIST, KIND_DICT
from pyvc.task import Contract
from pyvc.core import obj_term
from pyvc.values import *
from .prelude import *
from .prelude import _CS
from .tree import *
from .node_ops import kids_typed

EV = "metapype.eml.evaluate:"
U_NORM = z3.Function("normalize_text", S, S)
_GTC = z3.Function("text_content_of", *_CS, smt.FieldArr, smt.FieldArr, I, S)   # ghost: get_text_content(node) (reads names, contents, structure)


def GTC(s, n):
    return _GTC(*s.cs, s.arr("F:_name"), s.arr("F:_content"), n)


def truthy_content(s, m):
    c = s.f("_content", m)
    return z3.And(Val.is_strv(c), z3.Length(Val.s(c)) > 0)


def child_is(s, n, j, name, with_content=True):
    ch = s.kid(n, j)
    cl = [s.name(ch) == z3.StringVal(name)]
    if with_content:
        cl.append(truthy_content(s, ch))
    return z3.And(*cl)


def exists_child(s, n, pred, upto=None, tag="ec"):
    j = z3.Int(tag + "_j")
    lim = s.nkids(n) if upto is None else upto
    return z3.Exists([j], z3.And(0 <= j, j < lim, pred(j)))


def warn_list(s, L, node, items):
    """L is exactly the sub-sequence of `items` = [(condition, warning code)] whose condition holds, each as (code, message, node)"""
    cl = []
    pos = z3.IntVal(0)
    for cond, code in items:
        e = s.at(L, pos)
        cl.append(z3.Implies(cond, z3.And(Val.is_tupv(e), smt.TLEN(Val.tid(e)) == 3, smt.TITEM(Val.tid(e), 0) == obj_term(code),
                                          Val.is_strv(smt.TITEM(Val.tid(e), 1)), smt.TITEM(Val.tid(e), 2) == Val.ref(node))))
        pos = pos + z3.If(cond, 1, 0)
    cl.append(s.len(L) == pos)
    return z3.And(*cl)


def warn_parts(s, L, node, items):
    pos = z3.IntVal(0)
    out = {}
    for i, (cond, code) in enumerate(items):
        e = s.at(L, pos)
        out[f"top:entry-{code.name}"] = z3.Implies(cond, z3.And(Val.is_tupv(e), smt.TLEN(Val.tid(e)) == 3, smt.TITEM(Val.tid(e), 0) == obj_term(code),
                                                                Val.is_strv(smt.TITEM(Val.tid(e), 1)), smt.TITEM(Val.tid(e), 2) == Val.ref(node)))
        pos = pos + z3.If(cond, 1, 0)
    out["top:exactly-these"] = s.len(L) == pos
    return out


def install(w):
    from metapype.eml import evaluate, names
    from metapype.eml.evaluation_warnings import EvaluationWarning as EW
    from metapype.model import normalize as norm_mod

    def ext_normalize(ip, content, is_xml=False):
        if is_xml is not False:
            raise Unsupported("normalize(xml) inside evaluation")
        ip.c.assumptions_used.add("normalize() enters evaluation by name only (uninterpreted normalize_text; its own properties are C20)")
        if isinstance(content, Sym) and content.t.sort() == Val:
            content = ip.resolve(content)
        if content is None:
            ip.py_raise(AttributeError, "'NoneType' object has no attribute 'replace'")
        if isinstance(content, str):
            content = Sym(z3.StringVal(content), "str")
        return Sym(U_NORM(content.t), "str")
    w.externals[norm_mod.normalize] = ext_normalize
    w.externals[evaluate.normalize] = ext_normalize
    out = {}
    base_req = lambda s, node: {"kids-typed": kids_typed(s), "schema": node_schema(s, node)}

    # ---- responsible parties
    def rp_ensures(s0, s, node, result):
        L = Val.r(result)
        userid = exists_child(s0, node, lambda j: child_is(s0, node, j, names.USERID), tag="u")
        orcid = exists_child(s0, node, lambda j: z3.And(child_is(s0, node, j, names.USERID),
                                                        s0.dmap(s0.fr("_attributes", s0.kid(node, j)))[Val.strv(z3.StringVal("directory"))] == Val.strv(z3.StringVal("https://orcid.org"))), tag="o")
        email = exists_child(s0, node, lambda j: child_is(s0, node, j, names.ELECTRONICMAILADDRESS), tag="e")
        return {"top:warnings": z3.And(Val.is_ref(result), warn_list(s, L, node, [(z3.Not(orcid), EW.ORCID_ID_MISSING), (z3.Not(userid), EW.USER_ID_MISSING),
                                                                                   (z3.Not(email), EW.EMAIL_MISSING)]))}

    def rp_inv(s0, s, v):
        n = v.node
        k = v._k
        userid = exists_child(s0, n, lambda j: child_is(s0, n, j, names.USERID), upto=k, tag="u")
        orcid = exists_child(s0, n, lambda j: z3.And(child_is(s0, n, j, names.USERID),
                                                     s0.dmap(s0.fr("_attributes", s0.kid(n, j)))[Val.strv(z3.StringVal("directory"))] == Val.strv(z3.StringVal("https://orcid.org"))), upto=k, tag="o")
        email = exists_child(s0, n, lambda j: child_is(s0, n, j, names.ELECTRONICMAILADDRESS), upto=k, tag="e")
        b = lambda x: x if z3.is_expr(x) else z3.BoolVal(bool(x))
        return {"bound": k <= s0.nkids(n), "userid": b(v.userid) == userid, "orcid": b(v.orcid) == orcid, "email": b(v.email) == email}

    con = Contract(EV + "_responsible_party_rule", params={"node": "Node"}, requires=base_req, ensures=rp_ensures, allocates=True, result_ty="list:val", modular=False)
    w.loop(EV + "_responsible_party_rule", 1, inv=rp_inv)
    out["_responsible_party_rule"] = (evaluate._responsible_party_rule, con)
    for alias in ("_associated_responsible_party_rule", "_contact_rule", "_creator_rule", "_metadata_provider_rule", "_personnel_rule"):
        c2 = Contract(EV + alias, params={"node": "Node"}, requires=base_req, ensures=rp_ensures, allocates=True, result_ty="list:val", modular=False)
        out[alias] = (getattr(evaluate, alias), c2)

    # ---- individual name
    def in_ensures(s0, s, node, result):
        g = exists_child(s0, node, lambda j: child_is(s0, node, j, names.GIVENNAME), tag="g")
        sn = exists_child(s0, node, lambda j: child_is(s0, node, j, names.SURNAME), tag="s")
        L = Val.r(result)
        return {"top:warnings": z3.If(z3.And(g, sn), result == Val.none,
                                      z3.And(Val.is_ref(result), warn_list(s, L, node, [(z3.BoolVal(True), EW.INDIVIDUAL_NAME_INCOMPLETE)])))}

    def in_inv(s0, s, v):
        n, k = v.node, v._k
        b = lambda x: x if z3.is_expr(x) else z3.BoolVal(bool(x))
        return {"bound": k <= s0.nkids(n),
                "given": b(v.givename) == exists_child(s0, n, lambda j: child_is(s0, n, j, names.GIVENNAME), upto=k, tag="g"),
                "sur": b(v.surname) == exists_child(s0, n, lambda j: child_is(s0, n, j, names.SURNAME), upto=k, tag="s")}

    con = Contract(EV + "_individual_name_rule", params={"node": "Node"}, requires=base_req, ensures=in_ensures, allocates=True, result_ty="opt:list:val", modular=False)
    w.loop(EV + "_individual_name_rule", 1, inv=in_inv)
    out["_individual_name_rule"] = (evaluate._individual_name_rule, con)

    # ---- other entity
    def oe_ensures(s0, s, node, result):
        d = exists_child(s0, node, lambda j: child_is(s0, node, j, names.ENTITYDESCRIPTION), tag="d")
        return {"top:warnings": z3.And(Val.is_ref(result), warn_list(s, Val.r(result), node, [(z3.Not(d), EW.OTHER_ENTITY_DESCRIPTION_MISSING)]))}

    def oe_inv(s0, s, v):
        n, k = v.node, v._k
        fl = v.raw("__comp1")
        flt = fl.t if isinstance(fl, Sym) else z3.BoolVal(bool(fl))
        return {"bound": k <= s0.nkids(n), "none-yet": z3.And(flt == z3.BoolVal(False), z3.Not(exists_child(s0, n, lambda j: child_is(s0, n, j, names.ENTITYDESCRIPTION), upto=k, tag="d")))}

    con = Contract(EV + "_other_entity_rule", params={"node": "Node"}, requires=base_req, ensures=oe_ensures, allocates=True, result_ty="list:val", modular=False)
    w.loop(EV + "_other_entity_rule", 1, inv=oe_inv)
    out["_other_entity_rule"] = (evaluate._other_entity_rule, con)

    # ---- title
    def ti_ensures(s0, s, node, result):
        c = s0.f("_content", node)
        p = s0.f("_parent", node)
        short = z3.And(c != Val.none, p != Val.none, s0.name(Val.r(p)) == z3.StringVal(names.DATASET),
                       strings.U_NSPLIT(U_NORM(Val.s(c)), z3.StringVal(" ")) < 5)
        return {"ref": Val.is_ref(result), **warn_parts(s, Val.r(result), node, [(short, EW.TITLE_TOO_SHORT)])}

    con = Contract(EV + "_title_rule", params={"node": "Node"}, requires=base_req, ensures=ti_ensures, allocates=True, result_ty="list:val", modular=False)
    out["_title_rule"] = (evaluate._title_rule, con)

    # ---- description (get_text_content by name)
    gtc = Contract(EV + "get_text_content", params={"text_node": "Node"}, ensures=lambda s0, s, text_node, result: {"named": Val.s(result) == GTC(s0, text_node), "str": Val.is_strv(result)},
                   allocates=True, result_ty="str", modular=True, trusted=True,
                   assumptions=("get_text_content enters _description_rule by name (ghost text_content_of); its frame is proved in C11; the collected text itself is not specified",))
    gtc.writes = ()

    PARENTS = [("connectionDefinition", EW.CONNECTION_DEFINITION_DESCRIPTION_MISSING), ("designDescription", EW.DESIGN_DESCRIPTION_DESCRIPTION_MISSING),
               ("maintenance", EW.MAINTENANCE_DESCRIPTION_MISSING), ("methodStep", EW.METHOD_STEP_DESCRIPTION_MISSING),
               ("procedureStep", EW.PROCEDURE_STEP_DESCRIPTION_MISSING), ("qualityControl", EW.QUALITY_CONTROL_DESCRIPTION_MISSING),
               ("samplingDescription", EW.SAMPLING_DESCRIPTION_DESCRIPTION_MISSING), ("studyExtent", EW.STUDY_EXTENT_DESCRIPTION_MISSING)]

    def de_ensures(s0, s, node, result):
        empty = z3.Length(GTC(s0, node)) == 0
        p = s0.f("_parent", node)
        items = [(z3.And(empty, p != Val.none, s0.name(Val.r(p)) == z3.StringVal(nm)), code) for nm, code in PARENTS]
        return {"top:warnings": z3.And(Val.is_ref(result), warn_list(s, Val.r(result), node, items))}

    con = Contract(EV + "_description_rule", params={"node": "Node"}, requires=base_req, ensures=de_ensures, allocates=True, result_ty="list:val", modular=False)
    out["_description_rule"] = (evaluate._description_rule, con)
    out["__gtc"] = gtc
    return out
