"""C19: evaluation is total and reports exactly the documented recommendations (per evaluator; dataset/datatable bounded)."""
import z3
from pyvc import smt, strings
from pyvc.smt import Val, I, B, S, kind, KIND_NODE, KIND_LIST, KIND_DICT
from pyvc.task import Contract
from pyvc.core import obj_term
from pyvc.values import *
from .prelude import *
from .prelude import _CS
from .tree import *
from .node_ops import kids_typed

EV = "metapype.eml.evaluate:"
U_NORM = z3.Function("normalize_text", S, S)
_GTC = z3.Function("text_content_of", *_CS, smt.FieldArr, smt.FieldArr, I, S)   # ghost: get_text_content(node) (reads names, contents, structure)


def GTC(s, n):
    return _GTC(*s.cs, s.arr("F:_name"), s.arr("F:_content"), n)


# ghost: the last child of n named x among the first k (None when there is none)   LCHU(0) = None; LCHU(k+1) = kid k if it is named x else LCHU(k)
_LCHU = z3.Function("last_child_named_upto", *_CS, smt.FieldArr, I, S, I, Val)
_LCH = z3.Function("last_child_named", *_CS, smt.FieldArr, I, S, Val)


def LCHU(s, n, x, k):
    return _LCHU(*s.cs, s.arr("F:_name"), n, z3.StringVal(x) if isinstance(x, str) else x, k)


def LCH(s, n, x):
    return _LCH(*s.cs, s.arr("F:_name"), n, z3.StringVal(x) if isinstance(x, str) else x)


def lchu_step(s, n, x, k):
    xs = z3.StringVal(x) if isinstance(x, str) else x
    return z3.And(LCHU(s, n, x, 0) == Val.none, LCH(s, n, x) == LCHU(s, n, x, s.nkids(n)),
                  LCHU(s, n, x, k + 1) == z3.If(s.name(s.kid(n, k)) == xs, s.at(s.kids(n), k), LCHU(s, n, x, k)))


# ghosts: keyword totals.  KWS(n, k): keywords in the keywordSet children among the first k children of n;  KWL(elems, i): keywords in the first i
# nodes of a list.  Both by one-level unfolding.
_KWS = z3.Function("keywords_in_sets_upto", *_CS, smt.FieldArr, I, I, I)
_KWL = z3.Function("keywords_in_listed_sets_upto", *_CS, smt.FieldArr, smt.ElemArr, I, I)


def KWS(s, n, k):
    return _KWS(*s.cs, s.arr("F:_name"), n, k)


def KWL(s, elems, i):
    return _KWL(*s.cs, s.arr("F:_name"), elems, i)


def truthy_content(s, m):
    c = s.f("_content", m)
    return z3.And(Val.is_strv(c), z3.Length(Val.s(c)) > 0)


def child_is(s, n, j, name, with_content=True):
    ch = s.kid(n, j)
    cl = [s.name(ch) == z3.StringVal(name)]
    if with_content:
        cl.append(truthy_content(s, ch))
    return z3.And(*cl)


def exists_child(s, n, pred, upto=None, tag="ec"):
    j = z3.Int(tag + "_j")
    lim = s.nkids(n) if upto is None else upto
    return z3.Exists([j], z3.And(0 <= j, j < lim, pred(j)))


def warn_list(s, L, node, items):
    """L is exactly the sub-sequence of `items` = [(condition, warning code)] whose condition holds, each as (code, message, node)"""
    cl = []
    pos = z3.IntVal(0)
    for cond, code in items:
        e = s.at(L, pos)
        cl.append(z3.Implies(cond, z3.And(Val.is_tupv(e), smt.TLEN(Val.tid(e)) == 3, smt.TITEM(Val.tid(e), 0) == obj_term(code),
                                          Val.is_strv(smt.TITEM(Val.tid(e), 1)), smt.TITEM(Val.tid(e), 2) == Val.ref(node))))
        pos = pos + z3.If(cond, 1, 0)
    cl.append(s.len(L) == pos)
    return z3.And(*cl)


def warn_parts(s, L, node, items):
    pos = z3.IntVal(0)
    out = {}
    for i, (cond, code) in enumerate(items):
        e = s.at(L, pos)
        out[f"top:entry-{code.name}"] = z3.Implies(cond, z3.And(Val.is_tupv(e), smt.TLEN(Val.tid(e)) == 3, smt.TITEM(Val.tid(e), 0) == obj_term(code),
                                                                Val.is_strv(smt.TITEM(Val.tid(e), 1)), smt.TITEM(Val.tid(e), 2) == Val.ref(node)))
        pos = pos + z3.If(cond, 1, 0)
    out["top:exactly-these"] = s.len(L) == pos
    return out


def install(w):
    from metapype.eml import evaluate, names
    from metapype.eml.evaluation_warnings import EvaluationWarning as EW
    from metapype.model import normalize as norm_mod

    def ext_normalize(ip, content, is_xml=False):
        if is_xml is not False:
            raise Unsupported("normalize(xml) inside evaluation")
        ip.c.assumptions_used.add("normalize() enters evaluation by name only (uninterpreted normalize_text; its own properties are C20)")
        if isinstance(content, Sym) and content.t.sort() == Val:
            content = ip.resolve(content)
        if content is None:
            ip.py_raise(AttributeError, "'NoneType' object has no attribute 'replace'")
        if isinstance(content, str):
            content = Sym(z3.StringVal(content), "str")
        return Sym(U_NORM(content.t), "str")
    w.externals[norm_mod.normalize] = ext_normalize
    w.externals[evaluate.normalize] = ext_normalize
    out = {}
    base_req = lambda s, node: {"kids-typed": kids_typed(s), "schema": node_schema(s, node)}

    # ---- responsible parties
    def rp_ensures(s0, s, node, result):
        L = Val.r(result)
        userid = exists_child(s0, node, lambda j: child_is(s0, node, j, names.USERID), tag="u")
        orcid = exists_child(s0, node, lambda j: z3.And(child_is(s0, node, j, names.USERID),
                                                        s0.dmap(s0.fr("_attributes", s0.kid(node, j)))[Val.strv(z3.StringVal("directory"))] == Val.strv(z3.StringVal("https://orcid.org"))), tag="o")
        email = exists_child(s0, node, lambda j: child_is(s0, node, j, names.ELECTRONICMAILADDRESS), tag="e")
        return {"top:warnings": z3.And(Val.is_ref(result), warn_list(s, L, node, [(z3.Not(orcid), EW.ORCID_ID_MISSING), (z3.Not(userid), EW.USER_ID_MISSING),
                                                                                   (z3.Not(email), EW.EMAIL_MISSING)]))}

    def rp_inv(s0, s, v):
        n = v.node
        k = v._k
        userid = exists_child(s0, n, lambda j: child_is(s0, n, j, names.USERID), upto=k, tag="u")
        orcid = exists_child(s0, n, lambda j: z3.And(child_is(s0, n, j, names.USERID),
                                                     s0.dmap(s0.fr("_attributes", s0.kid(n, j)))[Val.strv(z3.StringVal("directory"))] == Val.strv(z3.StringVal("https://orcid.org"))), upto=k, tag="o")
        email = exists_child(s0, n, lambda j: child_is(s0, n, j, names.ELECTRONICMAILADDRESS), upto=k, tag="e")
        b = lambda x: x if z3.is_expr(x) else z3.BoolVal(bool(x))
        return {"bound": k <= s0.nkids(n), "userid": b(v.userid) == userid, "orcid": b(v.orcid) == orcid, "email": b(v.email) == email}

    con = Contract(EV + "_responsible_party_rule", params={"node": "Node"}, requires=base_req, ensures=rp_ensures, allocates=True, result_ty="list:val", modular=False)
    w.loop(EV + "_responsible_party_rule", 1, inv=rp_inv)
    out["_responsible_party_rule"] = (evaluate._responsible_party_rule, con)
    for alias in ("_associated_responsible_party_rule", "_contact_rule", "_creator_rule", "_metadata_provider_rule", "_personnel_rule"):
        c2 = Contract(EV + alias, params={"node": "Node"}, requires=base_req, ensures=rp_ensures, allocates=True, result_ty="list:val", modular=False)
        out[alias] = (getattr(evaluate, alias), c2)

    # ---- individual name
    def in_ensures(s0, s, node, result):
        g = exists_child(s0, node, lambda j: child_is(s0, node, j, names.GIVENNAME), tag="g")
        sn = exists_child(s0, node, lambda j: child_is(s0, node, j, names.SURNAME), tag="s")
        L = Val.r(result)
        return {"top:warnings": z3.If(z3.And(g, sn), result == Val.none,
                                      z3.And(Val.is_ref(result), warn_list(s, L, node, [(z3.BoolVal(True), EW.INDIVIDUAL_NAME_INCOMPLETE)])))}

    def in_inv(s0, s, v):
        n, k = v.node, v._k
        b = lambda x: x if z3.is_expr(x) else z3.BoolVal(bool(x))
        return {"bound": k <= s0.nkids(n),
                "given": b(v.givename) == exists_child(s0, n, lambda j: child_is(s0, n, j, names.GIVENNAME), upto=k, tag="g"),
                "sur": b(v.surname) == exists_child(s0, n, lambda j: child_is(s0, n, j, names.SURNAME), upto=k, tag="s")}

    con = Contract(EV + "_individual_name_rule", params={"node": "Node"}, requires=base_req, ensures=in_ensures, allocates=True, result_ty="opt:list:val", modular=False)
    w.loop(EV + "_individual_name_rule", 1, inv=in_inv)
    out["_individual_name_rule"] = (evaluate._individual_name_rule, con)

    # ---- other entity
    def oe_ensures(s0, s, node, result):
        d = exists_child(s0, node, lambda j: child_is(s0, node, j, names.ENTITYDESCRIPTION), tag="d")
        return {"top:warnings": z3.And(Val.is_ref(result), warn_list(s, Val.r(result), node, [(z3.Not(d), EW.OTHER_ENTITY_DESCRIPTION_MISSING)]))}

    def oe_inv(s0, s, v):
        n, k = v.node, v._k
        fl = v.raw("__comp1")
        flt = fl.t if isinstance(fl, Sym) else z3.BoolVal(bool(fl))
        return {"bound": k <= s0.nkids(n), "none-yet": z3.And(flt == z3.BoolVal(False), z3.Not(exists_child(s0, n, lambda j: child_is(s0, n, j, names.ENTITYDESCRIPTION), upto=k, tag="d")))}

    con = Contract(EV + "_other_entity_rule", params={"node": "Node"}, requires=base_req, ensures=oe_ensures, allocates=True, result_ty="list:val", modular=False)
    w.loop(EV + "_other_entity_rule", 1, inv=oe_inv)
    out["_other_entity_rule"] = (evaluate._other_entity_rule, con)

    # ---- title
    def ti_ensures(s0, s, node, result):
        c = s0.f("_content", node)
        p = s0.f("_parent", node)
        short = z3.And(c != Val.none, p != Val.none, s0.name(Val.r(p)) == z3.StringVal(names.DATASET),
                       strings.U_NSPLIT(U_NORM(Val.s(c)), z3.StringVal(" ")) < 5)
        return {"ref": Val.is_ref(result), **warn_parts(s, Val.r(result), node, [(short, EW.TITLE_TOO_SHORT)])}

    con = Contract(EV + "_title_rule", params={"node": "Node"}, requires=base_req, ensures=ti_ensures, allocates=True, result_ty="list:val", modular=False)
    out["_title_rule"] = (evaluate._title_rule, con)

    # ---- description (get_text_content by name)
    gtc = Contract(EV + "get_text_content", params={"text_node": "Node"}, ensures=lambda s0, s, text_node, result: {"named": Val.s(result) == GTC(s0, text_node), "str": Val.is_strv(result)},
                   allocates=True, result_ty="str", modular=True, trusted=True,
                   assumptions=("get_text_content enters its callers by name (ghost text_content_of: the function is deterministic); its frame is proved in C11 and "
                                "'empty exactly when there is no text anywhere' by the task C19/get_text_content[emptiness]; which text is collected is not specified",))
    gtc.writes = ()

    PARENTS = [("connectionDefinition", EW.CONNECTION_DEFINITION_DESCRIPTION_MISSING), ("designDescription", EW.DESIGN_DESCRIPTION_DESCRIPTION_MISSING),
               ("maintenance", EW.MAINTENANCE_DESCRIPTION_MISSING), ("methodStep", EW.METHOD_STEP_DESCRIPTION_MISSING),
               ("procedureStep", EW.PROCEDURE_STEP_DESCRIPTION_MISSING), ("qualityControl", EW.QUALITY_CONTROL_DESCRIPTION_MISSING),
               ("samplingDescription", EW.SAMPLING_DESCRIPTION_DESCRIPTION_MISSING), ("studyExtent", EW.STUDY_EXTENT_DESCRIPTION_MISSING)]

    def de_ensures(s0, s, node, result):
        empty = z3.Length(GTC(s0, node)) == 0
        p = s0.f("_parent", node)
        items = [(z3.And(empty, p != Val.none, s0.name(Val.r(p)) == z3.StringVal(nm)), code) for nm, code in PARENTS]
        return {"top:warnings": z3.And(Val.is_ref(result), warn_list(s, Val.r(result), node, items))}

    con = Contract(EV + "_description_rule", params={"node": "Node"}, requires=base_req, ensures=de_ensures, allocates=True, result_ty="list:val", modular=False)
    out["_description_rule"] = (evaluate._description_rule, con)
    out["__gtc"] = gtc
    from pyvc.task import MergeC
    from pyvc.loops import NS, havoc_like
    from pyvc.core import arr_sort
    from . import c09_queries as Q9
    NT = "opt:Node"

    def ok(s, v):
        return z3.And(v != Val.none, truthy_content(s, Val.r(v)))


    # ---- data table: which of its descendants the five checks look at is part of the specification (first / last child by name)
    FCH = Q9.FCH

    def dt_terms(s, node):
        phys = FCH(s, node, names.PHYSICAL)
        P = Val.r(phys)
        pick = lambda nm: z3.If(phys == Val.none, Val.none, LCH(s, P, nm))
        size, auth, rd1, df = pick(names.SIZE), pick(names.AUTHENTICATION), pick(names.RECORDDELIMITER), pick(names.DATAFORMAT)
        tf = z3.If(df == Val.none, Val.none, FCH(s, Val.r(df), names.TEXTFORMAT))
        rd2 = z3.If(tf == Val.none, Val.none, FCH(s, Val.r(tf), names.RECORDDELIMITER))
        rd = z3.If(rd2 != Val.none, rd2, rd1)
        nrec = FCH(s, node, names.NUMBEROFRECORDS)
        return dict(phys=phys, size=size, auth=auth, rd1=rd1, df=df, tf=tf, rd2=rd2, rd=rd, nrec=nrec)

    def dt_axioms(s, node):
        t = dt_terms(s, node)
        P = Val.r(t["phys"])
        d = {"fch-physical": Q9.fch_def(s, node, names.PHYSICAL), "fch-nrec": Q9.fch_def(s, node, names.NUMBEROFRECORDS),
             "fch-tf": Q9.fch_def(s, Val.r(LCH(s, P, names.DATAFORMAT)), names.TEXTFORMAT),
             "fch-rd": Q9.fch_def(s, Val.r(FCH(s, Val.r(LCH(s, P, names.DATAFORMAT)), names.TEXTFORMAT)), names.RECORDDELIMITER)}
        for nm in (names.SIZE, names.AUTHENTICATION, names.RECORDDELIMITER, names.DATAFORMAT):
            d["lch-" + nm] = z3.And(LCHU(s, P, nm, 0) == Val.none, LCH(s, P, nm) == LCHU(s, P, nm, s.nkids(P)))
        return d

    def dt_ensures(s0, s, node, result):
        t = dt_terms(s0, node)
        desc = exists_child(s0, node, lambda j: child_is(s0, node, j, names.ENTITYDESCRIPTION), tag="d")
        return {"ref": Val.is_ref(result),
                **warn_parts(s, Val.r(result), node, [(z3.Not(desc), EW.DATATABLE_DESCRIPTION_MISSING), (z3.Not(ok(s0, t["size"])), EW.DATATABLE_SIZE_MISSING),
                                                      (z3.Not(ok(s0, t["auth"])), EW.DATATABLE_MD5_CHECKSUM_MISSING),
                                                      (z3.Not(ok(s0, t["nrec"])), EW.DATATABLE_NUMBER_OF_RECORDS_MISSING),
                                                      (z3.Not(ok(s0, t["rd"])), EW.DATATABLE_RECORD_DELIMITER_MISSING)])}

    def none_named_before(s0, n, nm, k, tag):
        j = z3.Int(tag + "_j")
        return smt.FA([j], z3.Implies(z3.And(0 <= j, j < k), s0.name(s0.kid(n, j)) != z3.StringVal(nm)), patterns=[s0.at(s0.kids(n), j)])

    def dt_inv_any(s0, s, v):
        fl = v.raw("__comp1")
        flt = fl.t if isinstance(fl, Sym) else z3.BoolVal(bool(fl))
        return {"bound": v._k <= s0.nkids(v.node),
                "none-yet": z3.And(flt == z3.BoolVal(False), z3.Not(exists_child(s0, v.node, lambda j: child_is(s0, v.node, j, names.ENTITYDESCRIPTION), upto=v._k, tag="d")))}

    def first_inv(var, parent_of, nm, keep=()):
        def inv(s0, s, v):
            n = parent_of(v)
            # the last clause ties the scan to the ghost: the first child with that name, if any, has not been passed
            return {"bound": v._k <= s0.nkids(n), "not-found-yet": v.V(var) == Val.none, "none-before": none_named_before(s0, n, nm, v._k, "fb"),
                    "first-not-passed": z3.Or(FCH(s0, n, nm) == Val.none, Q9.FCI(s0, n, nm) >= v._k)}
        return inv

    def dt_inv_phys_children(s0, s, v):
        P = Val.r(v.V("physical_node"))
        return {"bound": v._k <= s0.nkids(P), "auth": v.V("authentication_node") == LCHU(s0, P, names.AUTHENTICATION, v._k),
                "rd": v.V("record_delimiter_node") == LCHU(s0, P, names.RECORDDELIMITER, v._k), "size": v.V("size_node") == LCHU(s0, P, names.SIZE, v._k),
                "df": v.V("data_format_node") == LCHU(s0, P, names.DATAFORMAT, v._k)}

    def dt_ax_phys_children(s0, s, v):
        P = Val.r(v.V("physical_node"))
        return {nm: lchu_step(s0, P, nm, v._k) for nm in (names.SIZE, names.AUTHENTICATION, names.RECORDDELIMITER, names.DATAFORMAT)}

    vt = {"child": "Node", "physical_node": NT, "authentication_node": NT, "number_of_records_node": NT, "size_node": NT, "data_format_node": NT,
          "text_format_node": NT, "record_delimiter_node": NT}
    q = EV + "_datatable_rule"
    con = Contract(q, params={"node": "Node"}, requires=base_req, axioms=dt_axioms, ensures=dt_ensures, allocates=True, result_ty="list:val", modular=False,
                   mod=lambda s0, r, **kw: z3.BoolVal(False), assumptions=("T-unfold(first_child_named, last_child_named)",))
    w.loop(q, 1, inv=dt_inv_any, var_types=vt)
    w.loop(q, 2, inv=first_inv("physical_node", lambda v: v.node, names.PHYSICAL), var_types=vt)
    w.loop(q, 3, inv=dt_inv_phys_children, axioms=dt_ax_phys_children, var_types=vt)
    w.loop(q, 4, inv=first_inv("text_format_node", lambda v: Val.r(v.V("data_format_node")), names.TEXTFORMAT), var_types=vt)
    def dt_inv_rd(s0, s, v):
        T = Val.r(v.V("text_format_node"))
        return {"bound": v._k <= s0.nkids(T), "kept-so-far": v.V("record_delimiter_node") == v.V("old_rd"), "none-before": none_named_before(s0, T, names.RECORDDELIMITER, v._k, "fr"),
                "first-not-passed": z3.Or(FCH(s0, T, names.RECORDDELIMITER) == Val.none, Q9.FCI(s0, T, names.RECORDDELIMITER) >= v._k)}
    w.loop(q, 5, inv=dt_inv_rd, ghost={"old_rd": lambda s, v: v.V("record_delimiter_node")}, var_types=vt)
    w.loop(q, 6, inv=first_inv("number_of_records_node", lambda v: v.node, names.NUMBEROFRECORDS), var_types=vt)

    # ---- dataset
    # ghosts for the keyword total: over the list of keywordSet children (what the code folds over) and over the children themselves (what
    # the specification says); the lemma fold_filter_lemma() relates them by induction over the child index
    qd = EV + "_dataset_rule"
    DS_LAST = {"abstract_node": names.ABSTRACT, "coverage_node": names.COVERAGE, "datatable_node": names.DATATABLE,
               "intellectual_rights_node": names.INTELLECTUALRIGHTS, "methods_node": names.METHODS, "project_node": names.PROJECT}

    def ds_conditions(s, node):
        last = {loc: LCH(s, node, nm) for loc, nm in DS_LAST.items()}
        a, cov, dt, ir, me, pj = (last[k] for k in ("abstract_node", "coverage_node", "datatable_node", "intellectual_rights_node", "methods_node", "project_node"))
        text = GTC(s, Val.r(a))
        has_text = z3.And(a != Val.none, z3.Length(text) > 0)
        n_sets = Q9.CNT(s, node, names.KEYWORDSET, s.nkids(node))
        return [(z3.And(has_text, strings.U_NWORDS(text) < 20), EW.DATASET_ABSTRACT_TOO_SHORT),
                (z3.Not(has_text), EW.DATASET_ABSTRACT_MISSING),
                (z3.Or(cov == Val.none, s.nkids(Val.r(cov)) == 0), EW.DATASET_COVERAGE_MISSING),
                (dt == Val.none, EW.DATATABLE_MISSING),
                (z3.Not(ok(s, ir)), EW.INTELLECTUAL_RIGHTS_MISSING),
                (n_sets == 0, EW.KEYWORDS_MISSING),
                (z3.And(n_sets > 0, KWS(s, node, s.nkids(node)) < 5), EW.KEYWORDS_INSUFFICIENT),
                (me == Val.none, EW.DATASET_METHOD_STEPS_MISSING),
                (pj == Val.none, EW.DATASET_PROJECT_MISSING)]

    def ds_axioms(s, node):
        E = z3.Const("ka_E", smt.ElemArr)
        d = {"cnt0": Q9.CNT(s, node, names.KEYWORDSET, 0) == 0, "kws0": KWS(s, node, 0) == 0,
             "kwl0": smt.FA([E], KWL(s, E, 0) == 0, patterns=[KWL(s, E, 0)])}
        for loc, nm in DS_LAST.items():
            d["lch-" + nm] = z3.And(LCHU(s, node, nm, 0) == Val.none, LCH(s, node, nm) == LCHU(s, node, nm, s.nkids(node)))
        return d

    def ds_ensures(s0, s, node, result):
        return {"top:warnings": z3.And(Val.is_ref(result), warn_list(s, Val.r(result), node, ds_conditions(s0, node)))}

    def ks_list(v):
        x = v.raw("keywordset_nodes")
        return x.ref if isinstance(x, PList) else x.t

    def sets_are_nodes(s0, s, K):
        j = z3.Int("sn_j")
        return smt.FA([j], z3.Implies(z3.And(0 <= j, j < s.len(K)), z3.And(Val.is_ref(s.at(K, j)), s0.is_node(s.nat(K, j)))), patterns=[s.at(K, j)])

    def ev_list(v):
        x = v.raw("evaluation")
        return x.ref if isinstance(x, PList) else x.t

    def ds_inv1(s0, s, v):
        n, k = v.node, v._k
        K = ks_list(v)
        E = ev_list(v)
        d = {"bound": k <= s0.nkids(n), "sets-list": z3.And(K >= s0.top, K < s.top, kind(K) == KIND_LIST, s.len(K) >= 0),
             "no-warning-yet": z3.And(E >= s0.top, E < s.top, kind(E) == KIND_LIST, s.len(E) == 0, E != K)}
        d.update(Q9.filtered(s0, s, n, names.KEYWORDSET, K, k, "sets"))
        d["sets-are-nodes"] = sets_are_nodes(s0, s, K)
        for loc, nm in DS_LAST.items():
            d["last:" + nm] = v.V(loc) == LCHU(s0, n, nm, k)
        return d

    def ds_ax1(s0, s, v):
        d = {"cnt": Q9.cnt_step(s0, v.node, z3.StringVal(names.KEYWORDSET), v._k)}
        for loc, nm in DS_LAST.items():
            d["lchu:" + nm] = lchu_step(s0, v.node, nm, v._k)
        return d

    def ds_inv2(s0, s, v):
        K = ks_list(v)
        return {"bound": v._k <= s.len(K), "total-so-far": v.V("num_keywords") == Val.intv(KWL(s0, s.elems(K), v._k)), "sets-are-nodes": sets_are_nodes(s0, s, K),
                "sets-list-kept": z3.And(s.len(K) == v.len_K, s.elems(K) == v.elems_K),
                "warnings-kept": z3.And(s.len(ev_list(v)) == v.len_E, s.elems(ev_list(v)) == v.elems_E)}

    def ds_ax2(s0, s, v):
        K = ks_list(v)
        e = s.elems(K)
        ks = Val.r(e[v._k])
        flt = Q9.filtered(s0, s, v.node, names.KEYWORDSET, K, s0.nkids(v.node), "f")
        return {"kwl": z3.And(KWL(s0, e, 0) == 0, KWL(s0, e, v._k + 1) == KWL(s0, e, v._k) + Q9.CNT(s0, ks, names.KEYWORD, s0.nkids(ks))),
                # instance of the lemma fold_filter_lemma() (proved by induction, see below)
                "L-fold-filter": z3.Implies(z3.And(*flt.values()), KWL(s0, e, s.len(K)) == KWS(s0, v.node, s0.nkids(v.node)))}

    vt_ds = {"child": "Node", "keywordset_node": "Node", "keyword_nodes": "list:Node", "num_keywords": "int", **{loc: NT for loc in DS_LAST}}
    con_ds = Contract(qd, params={"node": "Node"}, requires=base_req, axioms=ds_axioms, ensures=ds_ensures, allocates=True, result_ty="list:val", modular=False,
                   mod=lambda s0, r, **kw: z3.BoolVal(False),
                   assumptions=("T-unfold(last_child_named, count_named, keyword folds)", "L-fold-filter: proved by induction (obligations C19/lemma:fold-filter/*)"))
    w.loop(qd, 1, inv=ds_inv1, axioms=ds_ax1, var_types=vt_ds)
    w.loop(qd, 2, inv=ds_inv2, axioms=ds_ax2, var_types=vt_ds,
           ghost={"len_K": lambda s, v: s.len(ks_list(v)), "elems_K": lambda s, v: s.elems(ks_list(v)),
                  "len_E": lambda s, v: s.len(ev_list(v)), "elems_E": lambda s, v: s.elems(ev_list(v))})
    DS_AFTER = {"methods_node": names.METHODS, "project_node": names.PROJECT}

    def ds_merge_inv(s0, s, ip):
        fr = ip.frames[-1]
        ev = fr.locals["evaluation"]
        if isinstance(ev, PList) and ev.ref is None:
            ip.c.promote(ev)
        v = NS(ip, dict(fr.locals))
        node = v.node
        L = ev.ref if isinstance(ev, PList) else ev.t
        items = ds_conditions(s0, node)
        d = {"list": z3.And(L >= s0.top, L < s.top, kind(L) == KIND_LIST),
             "some-keyword-set": Q9.CNT(s0, node, names.KEYWORDSET, s0.nkids(node)) > 0,
             "keyword-total": v.V("num_keywords") == Val.intv(KWS(s0, node, s0.nkids(node)))}
        d.update({k.replace("top:", "so-far:"): x for k, x in warn_parts(s, L, node, items[:5]).items()})
        for loc, nm in DS_AFTER.items():
            x = v.V(loc)
            d["is:" + nm] = x == LCH(s0, node, nm)
            d["typed:" + nm] = z3.Or(x == Val.none, z3.And(Val.is_ref(x), s0.is_node(Val.r(x))))
        return d

    def ds_merge_havoc(ip):
        c = ip.c
        fr = ip.frames[-1]
        for loc in DS_AFTER:
            fr.locals[loc] = havoc_like(ip, None, NT, loc)
        fr.locals["num_keywords"] = havoc_like(ip, None, "int", "num_keywords")
        for a in ("llen", "lelem"):
            c.heap.set(a, c.fresh("mg_" + a, arr_sort(a)))
        nt = c.fresh("top", I)
        c.assume(nt >= c.heap.top)
        c.heap.top = nt

    def gtc_frame(s0, s, v):
        n = z3.Int("gf_n")
        return {"prove:children-structure-unchanged": cs_same(s0, s),
                "gtc-frame": smt.FA([n], z3.Implies(s0.is_node(n), GTC(s, n) == GTC(s0, n)), patterns=[GTC(s, n)])}

    def cnt_frame(s0, s, v):
        n, k = z3.Ints("cf_n cf_k")
        x = z3.String("cf_x")
        return {"prove:children-structure-unchanged": cs_same(s0, s),
                "cnt-frame": smt.FA([n, x, k], z3.Implies(s0.is_node(n), Q9.CNT(s, n, x, k) == Q9.CNT(s0, n, x, k)), patterns=[Q9.CNT(s, n, x, k)])}
    w.call_lemmas[(qd, EV + "get_text_content")] = gtc_frame
    w.call_lemmas[(qd, Q9.Q_FAC)] = cnt_frame
    w.after_loop[(qd, 2)] = MergeC(ds_merge_inv, ds_merge_havoc)
    out["_dataset_rule"] = (evaluate._dataset_rule, con_ds)


    # the paths through the six loops are joined before the five independent checks (keeps the number of paths additive)
    DT_LOCALS = {"size_node": "size", "authentication_node": "auth", "number_of_records_node": "nrec", "record_delimiter_node": "rd"}

    def dt_merge_inv(s0, s, ip):
        fr = ip.frames[-1]
        ev = fr.locals["evaluation"]
        if isinstance(ev, PList) and ev.ref is None:
            ip.c.promote(ev)
        v = NS(ip, dict(fr.locals))
        node = v.node
        t = dt_terms(s0, node)
        L = ev.ref if isinstance(ev, PList) else ev.t
        desc = exists_child(s0, node, lambda j: child_is(s0, node, j, names.ENTITYDESCRIPTION), tag="d")
        d = {"list": z3.And(L >= s0.top, L < s.top, kind(L) == KIND_LIST)}
        d.update({k.replace("top:", "so-far:"): x for k, x in warn_parts(s, L, node, [(z3.Not(desc), EW.DATATABLE_DESCRIPTION_MISSING)]).items()})
        for loc, key in DT_LOCALS.items():
            x = v.V(loc)
            d["is:" + key] = x == t[key]
            d["typed:" + key] = z3.Or(x == Val.none, z3.And(Val.is_ref(x), s0.is_node(Val.r(x))))
        return d

    def dt_merge_havoc(ip):
        c = ip.c
        fr = ip.frames[-1]
        for loc in DT_LOCALS:
            fr.locals[loc] = havoc_like(ip, None, NT, loc)
        for a in ("llen", "lelem"):
            c.heap.set(a, c.fresh("mg_" + a, arr_sort(a)))
        nt = c.fresh("top", I)
        c.assume(nt >= c.heap.top)
        c.heap.top = nt

    w.after_loop[(q, 6)] = MergeC(dt_merge_inv, dt_merge_havoc)
    out["_datatable_rule"] = (evaluate._datatable_rule, con)
    return out


def fold_filter_lemma():
    """L-fold-filter, by induction over the child index k:  if E holds the children of n named x in order (E[CNT(k)] = child k whenever child k
    is named x), then  KWL(E, CNT(k)) = KWS(n, k)  for every k <= #children; with len(E) = CNT(#children) this is what _dataset_rule needs.
    Base case and step are discharged by z3 from the one-level unfoldings at k (the definitions of the three ghosts); the induction
    principle over the naturals is applied here, outside the solver.  Returns [(name, proved?, seconds)]."""
    import time
    from pyvc.core import Heap, SV
    from . import c09_queries as Q9
    from metapype.eml import names
    s = SV(Heap())
    n, k = z3.Ints("lm_n lm_k")
    E = z3.Const("lm_E", smt.ElemArr)
    x = z3.StringVal(names.KEYWORDSET)
    match = s.name(s.kid(n, k)) == x
    per_set = lambda m: Q9.CNT(s, m, names.KEYWORD, s.nkids(m))
    defs = [Q9.CNT(s, n, x, 0) == 0, KWS(s, n, 0) == 0, KWL(s, E, 0) == 0,
            Q9.CNT(s, n, x, k + 1) == Q9.CNT(s, n, x, k) + z3.If(match, 1, 0),
            KWS(s, n, k + 1) == KWS(s, n, k) + z3.If(match, per_set(s.kid(n, k)), 0),
            KWL(s, E, Q9.CNT(s, n, x, k) + 1) == KWL(s, E, Q9.CNT(s, n, x, k)) + per_set(Val.r(E[Q9.CNT(s, n, x, k)])),
            z3.Implies(z3.And(0 <= k, k < s.nkids(n), match), E[Q9.CNT(s, n, x, k)] == s.at(s.kids(n), k))]
    P = lambda kk: KWL(s, E, Q9.CNT(s, n, x, kk)) == KWS(s, n, kk)
    out = []
    for nm, hyps, goal in (("base", defs, P(0)), ("step", defs + [0 <= k, k < s.nkids(n), P(k)], P(k + 1))):
        t0 = time.time()
        vac = z3.Solver()
        vac.set("timeout", 10000)
        vac.add(*hyps)
        sol = z3.Solver()
        sol.set("timeout", 10000)
        sol.add(*hyps)
        sol.add(z3.Not(goal))
        out.append((nm, vac.check() == z3.sat and sol.check() == z3.unsat, time.time() - t0))      # hypotheses satisfiable (not vacuous) and goal entailed
    return out


# ------------------------------------------------------------------------------------------------ evaluate.tree: document-order concatenation
_WC = z3.Function("node_warning_count", *_CS, I, I)          # ghost: number of warnings evaluate.node(n) returns (0 for None)
_TWC = z3.Function("tree_warning_count", *_CS, I, I)
_TWCK = z3.Function("tree_warning_count_first_children", *_CS, I, I, I)
_WOWN = z3.Function("warning_owner", *_CS, I, I, I)           # ghost: the node the p-th warning of evaluate.tree(n) is about


def install_tree_order(w):
    """evaluate.tree against the document-order concatenation of the per-node warning lists.  evaluate.node enters by contract: None or a fresh
    list of node_warning_count(n) triples about n (what the twelve evaluator contracts and the totality proof of evaluate.node establish)."""
    EVT = EV + "tree"
    EVN = EV + "node"
    WC = lambda s, n: _WC(*s.cs, n)
    TWC = lambda s, n: _TWC(*s.cs, n)
    TWCK = lambda s, n, k: _TWCK(*s.cs, n, k)
    WOWN = lambda s, n, p: _WOWN(*s.cs, n, p)

    def node_ensures(s0, s, node, result):
        j = z3.Int("ne_j")
        L = Val.r(result)
        e = s.at(L, j)
        return {"none-or-list": z3.Or(z3.And(result == Val.none, WC(s0, node) == 0),
                                      z3.And(Val.is_ref(result), L >= s0.top, L < s.top, kind(L) == KIND_LIST, s.len(L) == WC(s0, node),
                                             smt.FA([j], z3.Implies(z3.And(0 <= j, j < s.len(L)), z3.And(Val.is_tupv(e), smt.TITEM(Val.tid(e), 2) == Val.ref(node))),
                                                    patterns=[s.at(L, j)]))),
                "nonneg": WC(s0, node) >= 0, "no-new-nodes": no_new_nodes(s0, s)}

    node_con = Contract(EVN, params={"node": "Node"}, ensures=node_ensures, writes=(), mod=lambda s0, r, **kw: z3.BoolVal(False), allocates=True,
                        result_ty="opt:list:val", modular=True, trusted=True,
                        assumptions=("evaluate.node by contract: None or a fresh list of node_warning_count(n) (code, message, n) triples — the conclusion of the "
                                     "evaluator contracts and of the totality proof of evaluate.node",))
    w.add(node_con)

    def requires(s, root, warnings):
        m = z3.Int("rq_m")
        return {"wf": wf_sub(s, root), "kids-typed": kids_typed(s),
                "warnings-is-no-child-list": smt.FA([m], z3.Implies(s.is_node(m), s.kids(m) != warnings), patterns=[s.f("_children", m)])}

    def own_def(s, n):
        p, k = z3.Ints("wo_p wo_k")
        ch = s.kid(n, k)
        start = WC(s, n) + TWCK(s, n, k)
        return z3.And(
            smt.FA([p], z3.Implies(z3.And(0 <= p, p < WC(s, n)), WOWN(s, n, p) == n), patterns=[WOWN(s, n, p)]),
            smt.FA([k, p], z3.Implies(z3.And(0 <= k, k < s.nkids(n), start <= p, p < WC(s, n) + TWCK(s, n, k + 1)), WOWN(s, n, p) == WOWN(s, ch, p - start)),
                   patterns=[z3.MultiPattern(TWCK(s, n, k), WOWN(s, n, p))]))

    def axioms(s, root, warnings):
        d = tree_axioms(s, root)
        d["twc"] = z3.And(TWC(s, root) == WC(s, root) + TWCK(s, root, s.nkids(root)), TWCK(s, root, 0) == 0, WC(s, root) >= 0)
        d["own-def"] = own_def(s, root)
        return d

    def kept(s0, s, lst):
        j = z3.Int("kp_j")
        return z3.And(s.len(lst) >= s0.len(lst), smt.FA([j], z3.Implies(z3.And(0 <= j, j < s0.len(lst)), s.at(lst, j) == s0.at(lst, j)), patterns=[s.at(lst, j)]))

    def ordered(s0, s, n, lst, count):
        j = z3.Int("or_j")
        n0 = s0.len(lst)
        e = s.at(lst, j)
        return smt.FA([j], z3.Implies(z3.And(n0 <= j, j < n0 + count), z3.And(Val.is_tupv(e), smt.TITEM(Val.tid(e), 2) == Val.ref(WOWN(s0, n, j - n0)))),
                      patterns=[s.at(lst, j)])

    def ensures(s0, s, root, warnings, result=None):
        return {"top:as-many-as-the-nodes-have": z3.And(TWC(s0, root) >= 0, s.len(warnings) == s0.len(warnings) + TWC(s0, root)),
                "top:earlier-entries-kept": kept(s0, s, warnings),
                "top:per-node-lists-concatenated-in-document-order": ordered(s0, s, root, warnings, TWC(s0, root)),
                "no-new-nodes": no_new_nodes(s0, s)}

    def inv(s0, s, v):
        n, lst = v.root, v.warnings
        sofar = WC(s0, n) + TWCK(s0, n, v._k)
        return {"bound": v._k <= s0.nkids(n), "count": z3.And(TWCK(s0, n, v._k) >= 0, s.len(lst) == s0.len(lst) + sofar), "earlier-entries-kept": kept(s0, s, lst),
                "document-order-so-far": ordered(s0, s, n, lst, sofar), "no-new-nodes": no_new_nodes(s0, s), "top": s.top >= s0.top}

    def frames(s0, s):
        m, p, k = z3.Ints("wf_m wf_p wf_k")
        d = dict(tree_frame_steps(s0, s))
        d["warning-ghost-frame"] = z3.And(
            smt.FA([m], z3.Implies(s0.is_node(m), z3.And(WC(s, m) == WC(s0, m), TWC(s, m) == TWC(s0, m))), patterns=[WC(s, m)]),
            smt.FA([m], z3.Implies(s0.is_node(m), TWC(s, m) == TWC(s0, m)), patterns=[TWC(s, m)]),
            smt.FA([m, p], z3.Implies(s0.is_node(m), WOWN(s, m, p) == WOWN(s0, m, p)), patterns=[WOWN(s, m, p)]))
        return d

    def loop_axioms(s0, s, v):
        ch = s0.kid(v.root, v._k)
        d = {"kid-refl": SUB(s0, ch, ch), "twck-step": z3.And(TWCK(s0, v.root, v._k + 1) == TWCK(s0, v.root, v._k) + TWC(s0, ch), TWC(s0, ch) >= 0)}
        d.update(frames(s0, s))
        return d

    only = {"llen": lambda s0, r, root, warnings: r == warnings, "lelem": lambda s0, r, root, warnings: r == warnings}
    con = Contract(EVT, params={"root": "Node", "warnings": "list:val"}, requires=requires, axioms=axioms, ensures=ensures, writes=("llen", "lelem"), mods=only,
                   mod=lambda s0, r, **kw: z3.BoolVal(False), allocates=True, result_ty="none", decreases=lambda s, root, **kw: H(s, root),
                   assumptions=("T-unfold(node/tree_warning_count, warning_owner)", "T-frame(warning ghosts)"))
    w.add(con)
    w.loop(EVT, 1, inv=inv, axioms=loop_axioms, var_types={"child": "Node"})
    w.call_lemmas[(EVT, EVT)] = lambda s0, s, v: frames(s0, s)
    w.call_lemmas[(EVT, EVN)] = lambda s0, s, v: frames(s0, s)
    return con


# ------------------------------------------------------------------------------------------------ get_text_content: when is the collected text empty
def no_text_anywhere(s, n):
    """neither the node nor any para / markdown descendant of it has non-empty content"""
    from metapype.eml import names
    m = z3.Int("nt_m")
    return z3.And(z3.Not(truthy_content(s, n)),
                  smt.FA([m], z3.Implies(z3.And(SUB(s, n, m), m != n, z3.Or(s.name(m) == z3.StringVal(names.PARA), s.name(m) == z3.StringVal(names.MARKDOWN))),
                                         z3.Not(truthy_content(s, m))), patterns=[SUB(s, n, m)]))


def install_text_content(w):
    """get_text_content verified for the one thing the evaluators use it for: the collected text is empty exactly when there is no text anywhere
    (own content, para and markdown descendants).  Which text is collected, and in which order, is not specified (the function's own comment
    says the order is not meaningful)."""
    from . import c09_queries as Q9
    from metapype.eml import names
    Q9.install_find_all_descendants(w)
    q = EV + "get_text_content"

    def requires(s, text_node):
        return {"wf": wf_sub(s, text_node), "kids-typed": kids_typed(s), "tree": TREE(s, text_node), "schema": node_schema(s, text_node),
                "contents-typed": content_typed(s)}

    def content_typed(s):
        m = z3.Int("ct_m")
        c = s.f("_content", m)
        return smt.FA([m], z3.Implies(s.is_node(m), z3.Or(c == Val.none, Val.is_strv(c))), patterns=[s.f("_content", m)])

    def axioms(s, text_node):
        return tree_axioms(s, text_node)

    def ensures(s0, s, text_node, result):
        return {"str": Val.is_strv(result), "top:empty-exactly-when-there-is-no-text-anywhere": (z3.Length(Val.s(result)) == 0) == no_text_anywhere(s0, text_node),
                "no-new-nodes": no_new_nodes(s0, s)}

    def lst(v, name):
        x = v.raw(name)
        return x.ref if isinstance(x, PList) else x.t

    def none_in(s0, s, L, upto):
        j = z3.Int("ni_j")
        return smt.FA([j], z3.Implies(z3.And(0 <= j, j < upto), z3.Not(truthy_content(s0, s.nat(L, j)))), patterns=[s.at(L, j)])

    def all_match(s0, s, n, L, nm):
        j = z3.Int("mm_j")
        e = s.nat(L, j)
        return smt.FA([j], z3.Implies(z3.And(0 <= j, j < s.len(L)), z3.And(Val.is_ref(s.at(L, j)), s0.is_node(e), SUB(s0, n, e), e != n, s0.name(e) == z3.StringVal(nm))),
                      patterns=[s.at(L, j)])

    def complete(s0, s, n, L, nm):
        """every descendant with that name is somewhere in the list (from the rank clause of find_all_descendants)"""
        m = z3.Int("cm_m")
        r = Q9.RK(s0, n, nm, m)
        return smt.FA([m], z3.Implies(z3.And(SUB(s0, n, m), m != n, s0.name(m) == z3.StringVal(nm)), z3.And(0 <= r, r < s.len(L), s.at(L, r) == Val.ref(m))),
                      patterns=[Q9.RK(s0, n, nm, m)])

    def inv_paras(s0, s, v):
        P = lst(v, "paras")
        c = v.V("content")
        return {"bound": v._k <= s.len(P), "str": Val.is_strv(c), "paras": z3.And(all_match(s0, s, v.text_node, P, names.PARA), complete(s0, s, v.text_node, P, names.PARA)),
                "empty-so-far": (z3.Length(Val.s(c)) == 0) == z3.And(z3.Not(truthy_content(s0, v.text_node)), none_in(s0, s, P, v._k)),
                "no-new-nodes": no_new_nodes(s0, s), "top": s.top >= s0.top}

    def inv_markdowns(s0, s, v):
        P, M = lst(v, "paras"), lst(v, "markdowns")
        c = v.V("content")
        return {"bound": v._k <= s.len(M), "str": Val.is_strv(c),
                "lists": z3.And(all_match(s0, s, v.text_node, P, names.PARA), complete(s0, s, v.text_node, P, names.PARA),
                                all_match(s0, s, v.text_node, M, names.MARKDOWN), complete(s0, s, v.text_node, M, names.MARKDOWN)),
                "empty-so-far": (z3.Length(Val.s(c)) == 0) == z3.And(z3.Not(truthy_content(s0, v.text_node)), none_in(s0, s, P, s.len(P)), none_in(s0, s, M, v._k)),
                "no-new-nodes": no_new_nodes(s0, s), "top": s.top >= s0.top}

    con = Contract(q, params={"text_node": "Node"}, requires=requires, axioms=axioms, ensures=ensures, allocates=True, result_ty="str", modular=False,
                   mod=lambda s0, r, **kw: z3.BoolVal(False), assumptions=("T-unfold(Sub,W,Tree,desc_count,desc_rank)",))
    vt = {"para": "Node", "markdown": "Node", "content": "str"}
    w.loop(q, 1, inv=inv_paras, var_types=vt)
    w.loop(q, 2, inv=inv_markdowns, var_types=vt)
    w.call_lemmas[(q, Q9.Q_FAD)] = lambda s0, s, v: Q9.desc_frame_steps(s0, s)
    return con
