"""Assumed contracts of library calls used by content validation (A-float, A-int, A-strptime, A-isotime, A-rfc3986).

Each is an uninterpreted predicate/function of the argument string: the library decides it, the repository glue is proved
against it, and the bounded pass samples the real library to validate what the property says about canonical / malformed
classes."""
import datetime
import z3
from pyvc import smt, prims
from pyvc.smt import Val, I, B, S, R
from pyvc.values import *

FLOAT_OK = z3.Function("float_ok", S, B)      # float(s) returns
FLOAT_K = z3.Function("float_kind", S, I)     # 0 finite, 1 nan, 2 +inf, 3 -inf
FLOAT_X = z3.Function("float_value", S, R)
INT_OK = z3.Function("int_ok", S, B)
INT_V = z3.Function("int_value", S, I)
STRPTIME_OK = z3.Function("strptime_ok", S, S, B)
ISOTIME_OK = z3.Function("time_fromisoformat_ok", S, B)
URI_OK = z3.Function("rfc3986_valid_http_https_ftp_with_host", S, B)   # uri_reference + Validator.validate return normally
ENCODABLE = None  # strings.U_ENCODABLE


class Opaque:
    """library object the engine only passes around"""
    __slots__ = ("tag", "payload")

    def __init__(self, tag, payload=None):
        self.tag, self.payload = tag, payload


def _str_arg(ip, x, what):
    if isinstance(x, Sym) and x.t.sort() == Val:
        x = ip.resolve(x)
    return x


def ext_float(ip, x=0.0):
    c = ip.c
    c.assumptions_used.add("A-float: float(s) for a str returns the value float_value(s) of kind float_kind(s) or raises ValueError; float(None) raises TypeError")
    x = _str_arg(ip, x, "float")
    if x is None:
        ip.py_raise(TypeError, "float() argument must be a string or a real number, not 'NoneType'")
    if isinstance(x, (int, float, str)) and not isinstance(x, Sym):
        try:
            return float(x)
        except ValueError as ex:
            ip.py_raise(ValueError, str(ex))
    if isinstance(x, Sym) and x.t.sort() == S:
        if c.branch(FLOAT_OK(x.t), "float_ok"):
            k = FLOAT_K(x.t)
            c.fact(z3.And(k >= 0, k <= 3))
            return Sym(Val.fltv(k, FLOAT_X(x.t)), "float")
        ip.py_raise(ValueError, "could not convert string to float")
    if isinstance(x, Sym) and x.ty == "float":
        return x
    raise Unsupported(f"float({x!r})")


def ext_int(ip, x=0):
    c = ip.c
    c.assumptions_used.add("A-int: int(s) for a str returns int_value(s) or raises ValueError")
    x = _str_arg(ip, x, "int")
    if x is None:
        ip.py_raise(TypeError, "int() argument must be a string, a bytes-like object or a real number, not 'NoneType'")
    if isinstance(x, (int, float, str)) and not isinstance(x, Sym):
        try:
            return int(x)
        except ValueError as ex:
            ip.py_raise(ValueError, str(ex))
    if isinstance(x, Sym) and x.t.sort() == S:
        if c.branch(INT_OK(x.t), "int_ok"):
            return Sym(INT_V(x.t), "int")
        ip.py_raise(ValueError, "invalid literal for int()")
    if isinstance(x, Sym) and x.ty == "int":
        return x
    raise Unsupported(f"int({x!r})")


def ext_strptime(ip, val, fmt):
    c = ip.c
    c.assumptions_used.add("A-strptime: datetime.strptime(s, fmt) on a str returns or raises ValueError, as a function of (s, fmt)")
    if not isinstance(fmt, str):
        raise Unsupported("symbolic strptime format")
    val = _str_arg(ip, val, "strptime")
    if isinstance(val, str):
        try:
            datetime.datetime.strptime(val, fmt)
            return Opaque("datetime")
        except ValueError as ex:
            ip.py_raise(ValueError, str(ex))
    if isinstance(val, Sym) and val.t.sort() == S:
        if c.branch(STRPTIME_OK(val.t, z3.StringVal(fmt)), "strptime_ok"):
            return Opaque("datetime")
        ip.py_raise(ValueError, "time data does not match format")
    ip.py_raise(TypeError, "strptime() argument 1 must be str")


def ext_fromisoformat(ip, val):
    c = ip.c
    c.assumptions_used.add("A-isotime: time.fromisoformat(s) on a str returns or raises ValueError, as a function of s")
    val = _str_arg(ip, val, "fromisoformat")
    if isinstance(val, str):
        try:
            datetime.time.fromisoformat(val)
            return Opaque("time")
        except ValueError as ex:
            ip.py_raise(ValueError, str(ex))
    if isinstance(val, Sym) and val.t.sort() == S:
        if c.branch(ISOTIME_OK(val.t), "isotime_ok"):
            return Opaque("time")
        ip.py_raise(ValueError, "Invalid isoformat string")
    ip.py_raise(TypeError, "fromisoformat: argument must be str")


def install(w):
    from rfc3986 import uri_reference, validators
    from rfc3986.exceptions import InvalidComponentsError, MissingComponentError, UnpermittedComponentError
    from pyvc import strings
    w.externals[float] = ext_float
    w.externals[int] = ext_int
    w.externals_by_name[("datetime", "strptime")] = ext_strptime
    w.externals_by_name[("time", "fromisoformat")] = ext_fromisoformat

    def ext_validator(ip, *a, **k):
        return Opaque("rfc3986.Validator", {"allow": None, "require": None, "check": None})

    def validator_method(ip, recv, name, args, kwargs):
        if name in ("allow_schemes", "require_presence_of", "check_validity_of"):
            key = {"allow_schemes": "allow", "require_presence_of": "require", "check_validity_of": "check"}[name]
            p = dict(recv.payload)
            p[key] = tuple(args)
            return Opaque("rfc3986.Validator", p)
        if name == "validate":
            c = ip.c
            c.assumptions_used.add("A-rfc3986: uri_reference(s) followed by Validator(http/https/ftp; scheme+host required; "
                                   "scheme/host/path checked).validate raises UnicodeEncodeError for un-encodable text, otherwise "
                                   "returns or raises one of Invalid/Missing/UnpermittedComponentError, as a function of s")
            expected = {"allow": ("http", "https", "ftp"), "require": ("scheme", "host"), "check": ("scheme", "host", "path")}
            if recv.payload != expected:
                raise Unsupported(f"rfc3986 validator configured differently: {recv.payload}")
            u = args[0]
            if not (isinstance(u, Opaque) and u.tag == "rfc3986.URIReference"):
                raise Unsupported("validate() of a non-URIReference")
            sv = u.payload
            if isinstance(sv, str):
                sv = Sym(z3.StringVal(sv), "str")
            if c.branch(URI_OK(sv.t), "uri_ok"):
                return None
            # which of the three classes is raised is left open: fork
            if c.branch(c.fresh("rfc_missing", B), "rfc_missing"):
                raise_cls = MissingComponentError
            elif c.branch(c.fresh("rfc_unpermitted", B), "rfc_unpermitted"):
                raise_cls = UnpermittedComponentError
            else:
                raise_cls = InvalidComponentsError
            from pyvc.core import PyRaise
            raise PyRaise(ip.mk_exc(raise_cls, "invalid"))
        raise Unsupported(f"Validator.{name}")

    def ext_uri_reference(ip, val, encoding="utf-8"):
        c = ip.c
        val = _str_arg(ip, val, "uri_reference")
        if val is None:
            raise Unsupported("uri_reference(None)")
        t = val.t if isinstance(val, Sym) else z3.StringVal(val)
        if not c.branch(strings.U_ENCODABLE(t), "encodable"):
            ip.py_raise(UnicodeEncodeError, "surrogates not allowed")
        return Opaque("rfc3986.URIReference", val)

    w.externals[validators.Validator] = ext_validator
    w.externals[uri_reference] = ext_uri_reference
    w.opaque_methods = {"rfc3986.Validator": validator_method}
