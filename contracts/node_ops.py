"""Contracts of the Node mutators and queries (C09, C13 attach part, C14 registry part)."""
import z3
from pyvc.smt import Val, I, B, kind, KIND_NODE, KIND_LIST, KIND_DICT
from pyvc import smt
from pyvc.task import Contract
from .prelude import *
from .tree import *
from .c13_ns import nsd, nsmap_of, schema_ns, DICT_ARRS

Q_ADD_CHILD = "metapype.model.node:Node.add_child"


def clamp_insert_index(it, ln):
    """list.insert index clamping"""
    return z3.If(it < 0, z3.If(it + ln < 0, 0, it + ln), z3.If(it > ln, ln, it))


def ac_requires(s, self, child, index):
    return {"wf": wf_sub(s, child), "tree": TREE(s, child), "schema": schema_ns(s), "own-lists": own_lists(s),
            "not-ancestor": z3.Not(SUB(s, child, self))}


def ac_axioms(s, self, child, index):
    d = tree_axioms(s, child)
    d["wf-self-map"] = s.dict_wf(nsd(s, self))
    return d


def ac_ensures(s0, s, self, child, index, result=None):
    j, m = z3.Ints("ac_j ac_m")
    q = z3.Const("ac_q", Val)
    l = s0.kids(self)
    n = s0.len(l)
    idx = z3.If(index == Val.none, n, clamp_insert_index(Val.i(index), n))
    e0, e1 = s0.elems(l), s.elems(l)
    m0c, m0s, m1c = nsmap_of(s0, child), nsmap_of(s0, self), nsmap_of(s, child)
    return {
        "top:list-object": s.f("_children", self) == s0.f("_children", self),
        "top:list-len": s.len(l) == n + 1,
        "top:list-elems": smt.FA([j], z3.Implies(z3.And(0 <= j, j <= n), e1[j] == z3.If(j < idx, e0[j], z3.If(j == idx, Val.ref(child), e0[j - 1]))), patterns=[e1[j]]),
        "top:parent": s.f("_parent", child) == Val.ref(self),
        "top:ns-child": smt.FA([q], m1c[q] == z3.If(m0c[q] != smt.absent, m0c[q], m0s[q]), patterns=[m1c[q]]),
        "top:ns-outside": smt.FA([m], z3.Implies(z3.And(s0.is_node(m), z3.Not(SUB(s0, child, m))), nsmap_of(s, m) == nsmap_of(s0, m)),
                                    patterns=[s.f("_nsmap", m)]),
        "schema": schema_ns(s),
        "no-new-nodes": no_new_nodes(s0, s),
    }


def ac_loop_inv(s0, s, v):
    q = z3.Const("al_q", Val)
    self, child = v.self, v.child
    D = nsd(s0, self)
    m0c, m0s, m1c = nsmap_of(s0, child), nsmap_of(s0, self), nsmap_of(s, child)
    pos = s0.dpos(D)
    return {
        "bound": v._k <= s0.dn(D),
        "child-map": smt.FA([q], m1c[q] == z3.If(m0c[q] != smt.absent, m0c[q],
                                                    z3.If(z3.And(0 <= pos[q], pos[q] < v._k, m0s[q] != smt.absent), m0s[q], smt.absent)),
                               patterns=[m1c[q]]),
        "schema": schema_ns(s),
        "no-new-nodes": no_new_nodes(s0, s),
        "top": s.top >= s0.top,
    }


def ac_loop_axioms(s0, s, v):
    return {"frame": subtree_frame(s0, s, v.child)}


def install_add_child(w):
    con = Contract(
        Q_ADD_CHILD, params={"self": "Node", "child": "Node", "index": "opt:int"},
        requires=ac_requires, axioms=ac_axioms, ensures=ac_ensures,
        writes=("F:_parent", "llen", "lelem", "F:_nsmap") + DICT_ARRS,
        mods={"F:_parent": lambda s0, r, self, child, index: r == child,
              "llen": lambda s0, r, self, child, index: r == s0.kids(self),
              "lelem": lambda s0, r, self, child, index: r == s0.kids(self),
              "F:_nsmap": lambda s0, r, self, child, index: SUB(s0, child, r)},
        mod=lambda s0, r, **kw: z3.BoolVal(False), allocates=True, result_ty="none",
        assumptions=("T-unfold(Sub,W,Tree)", "T-frame(subtree)"))
    w.add(con)
    w.loop(Q_ADD_CHILD, 1, inv=ac_loop_inv, axioms=ac_loop_axioms)
    return con
