"""Contracts of the Node mutators and queries (C09, C13 attach part, C14 registry part)."""
import z3
from pyvc.smt import Val, I, B, kind, KIND_NODE, KIND_LIST, KIND_DICT
from pyvc import smt
from pyvc.task import Contract
from .prelude import *
from .tree import *
from .c13_ns import nsd, nsmap_of, schema_ns, DICT_ARRS
from .prelude import _CS

Q_ADD_CHILD = "metapype.model.node:Node.add_child"


def clamp_insert_index(it, ln):
    """list.insert index clamping"""
    return z3.If(it < 0, z3.If(it + ln < 0, 0, it + ln), z3.If(it > ln, ln, it))


def ac_requires(s, self, child, index):
    return {"wf": wf_sub(s, child), "tree": TREE(s, child), "schema": schema_ns(s), "own-lists": own_lists(s),
            "not-ancestor": z3.Not(SUB(s, child, self)),
            "linked": linked(s), "forest": forest(s), "kids-typed": kids_typed(s), "unlisted": unlisted(s, child)}


def ac_axioms(s, self, child, index):
    d = tree_axioms(s, child)
    d["wf-self-map"] = s.dict_wf(nsd(s, self))
    return d


def ac_ensures(s0, s, self, child, index, result=None):
    j, m = z3.Ints("ac_j ac_m")
    q = z3.Const("ac_q", Val)
    l = s0.kids(self)
    n = s0.len(l)
    idx = z3.If(index == Val.none, n, clamp_insert_index(Val.i(index), n))
    e0, e1 = s0.elems(l), s.elems(l)
    m0c, m0s, m1c = nsmap_of(s0, child), nsmap_of(s0, self), nsmap_of(s, child)
    return {
        "top:list-object": s.f("_children", self) == s0.f("_children", self),
        "top:list-len": s.len(l) == n + 1,
        "top:list-elems": smt.FA([j], z3.Implies(z3.And(0 <= j, j <= n), e1[j] == z3.If(j < idx, e0[j], z3.If(j == idx, Val.ref(child), e0[j - 1]))), patterns=[e1[j]]),
        "top:parent": s.f("_parent", child) == Val.ref(self),
        "top:ns-child": smt.FA([q], m1c[q] == z3.If(m0c[q] != smt.absent, m0c[q], m0s[q]), patterns=[m1c[q]]),
        "top:ns-outside": smt.FA([m], z3.Implies(z3.And(s0.is_node(m), z3.Not(SUB(s0, child, m))), nsmap_of(s, m) == nsmap_of(s0, m)),
                                    patterns=[s.f("_nsmap", m)]),
        "schema": schema_ns(s),
        "no-new-nodes": no_new_nodes(s0, s),
        "top:others": others_lists_unchanged(s0, s, self),
        "inv:linked": linked(s), "inv:forest": forest(s), "inv:own-lists": own_lists(s), "inv:kids-typed": kids_typed(s),
    }


def ac_loop_inv(s0, s, v):
    q = z3.Const("al_q", Val)
    self, child = v.self, v.child
    D = nsd(s0, self)
    m0c, m0s, m1c = nsmap_of(s0, child), nsmap_of(s0, self), nsmap_of(s, child)
    pos = s0.dpos(D)
    return {
        "bound": v._k <= s0.dn(D),
        "child-map": smt.FA([q], m1c[q] == z3.If(m0c[q] != smt.absent, m0c[q],
                                                    z3.If(z3.And(0 <= pos[q], pos[q] < v._k, m0s[q] != smt.absent), m0s[q], smt.absent)),
                               patterns=[m1c[q]]),
        "schema": schema_ns(s),
        "no-new-nodes": no_new_nodes(s0, s),
        "top": s.top >= s0.top,
    }


def ac_loop_axioms(s0, s, v):
    return {"frame": subtree_frame(s0, s, v.child)}


def install_add_child(w):
    con = Contract(
        Q_ADD_CHILD, params={"self": "Node", "child": "Node", "index": "opt:int"},
        requires=ac_requires, axioms=ac_axioms, ensures=ac_ensures,
        writes=("F:_parent", "llen", "lelem", "F:_nsmap") + DICT_ARRS,
        mods={"F:_parent": lambda s0, r, self, child, index: r == child,
              "llen": lambda s0, r, self, child, index: r == s0.kids(self),
              "lelem": lambda s0, r, self, child, index: r == s0.kids(self),
              "F:_nsmap": lambda s0, r, self, child, index: SUB(s0, child, r)},
        mod=lambda s0, r, **kw: z3.BoolVal(False), allocates=True, result_ty="none",
        assumptions=("T-unfold(Sub,W,Tree)", "T-frame(subtree)"))
    w.add(con)
    w.loop(Q_ADD_CHILD, 1, inv=ac_loop_inv, axioms=ac_loop_axioms)
    return con


# ================================================================================================ C09 vocabulary
_IDX = z3.Function("first_index", smt.ElemArr, I, Val, I)   # ghost: first index of x in elems[0..n), or -1


def IDX(e, n, x):
    return _IDX(e, n, x)


def idx_def(e, n, x):
    """defining property of first_index at one instance (T-unfold)"""
    j = z3.Int("ix_j")
    r = _IDX(e, n, x)
    return z3.Or(z3.And(r == -1, smt.FA([j], z3.Implies(z3.And(0 <= j, j < n), e[j] != x), patterns=[e[j]])),
                 z3.And(0 <= r, r < n, e[r] == x, smt.FA([j], z3.Implies(z3.And(0 <= j, j < r), e[j] != x), patterns=[e[j]])))


def linked(s):
    """every listed child's parent link names the node that lists it"""
    n, i = z3.Ints("lk_n lk_i")
    return smt.FA([n, i], z3.Implies(z3.And(s.is_node(n), 0 <= i, i < s.nkids(n)), s.f("_parent", s.kid(n, i)) == Val.ref(n)),
                  patterns=[s.at(s.kids(n), i)])


def forest(s):
    """a node is listed at most once overall"""
    n, i, n2, i2 = z3.Ints("fo_n fo_i fo_n2 fo_i2")
    return smt.FA([n, i, n2, i2], z3.Implies(
        z3.And(s.is_node(n), s.is_node(n2), 0 <= i, i < s.nkids(n), 0 <= i2, i2 < s.nkids(n2), s.at(s.kids(n), i) == s.at(s.kids(n2), i2)),
        z3.And(n == n2, i == i2)), patterns=[z3.MultiPattern(s.at(s.kids(n), i), s.at(s.kids(n2), i2))])


def unlisted(s, c):
    n, i = z3.Ints("ul_n ul_i")
    return smt.FA([n, i], z3.Implies(z3.And(s.is_node(n), 0 <= i, i < s.nkids(n)), s.at(s.kids(n), i) != Val.ref(c)),
                  patterns=[s.at(s.kids(n), i)])


def kids_typed(s):
    """T-schema, quantified: listed children are allocated nodes; children fields are allocated lists"""
    n, i = z3.Ints("kt_n kt_i")
    ch = s.f("_children", n)
    return z3.And(
        smt.FA([n], z3.Implies(s.is_node(n), z3.And(Val.is_ref(ch), s.alloc(Val.r(ch)), kind(Val.r(ch)) == KIND_LIST, s.len(Val.r(ch)) >= 0)),
               patterns=[s.f("_children", n)]),
        smt.FA([n, i], z3.Implies(z3.And(s.is_node(n), 0 <= i, i < s.nkids(n)),
                                  z3.And(Val.is_ref(s.at(s.kids(n), i)), s.is_node(s.kid(n, i)))), patterns=[s.at(s.kids(n), i)]))


def shape_inv(s):
    return {"linked": linked(s), "forest": forest(s), "own-lists": own_lists(s), "kids-typed": kids_typed(s)}


def others_lists_unchanged(s0, s, self):
    """every other node still has the same list object with the same contents"""
    n = z3.Int("ou_n")
    k0 = s0.f("_children", n)
    return smt.FA([n], z3.Implies(z3.And(s0.is_node(n), n != self),
                                  z3.And(s.f("_children", n) == k0, s.len(Val.r(k0)) == s0.len(Val.r(k0)), s.elems(Val.r(k0)) == s0.elems(Val.r(k0)))),
                  patterns=[s.f("_children", n)])


# ---------------------------------------------------------------------------------------- remove_child
Q_REMOVE_CHILD = "metapype.model.node:Node.remove_child"


def install_remove_child(w):
    def requires(s, self, child):
        return shape_inv(s)

    def axioms(s, self, child):
        l = s.kids(self)
        return {"idx": idx_def(s.elems(l), s.len(l), Val.ref(child))}

    def absent_(s, self, child):
        l = s.kids(self)
        return IDX(s.elems(l), s.len(l), Val.ref(child)) == -1

    def ensures(s0, s, self, child, result=None):
        j = z3.Int("rc_j")
        l = s0.kids(self)
        n, e0, e1 = s0.len(l), s0.elems(l), s.elems(l)
        p = IDX(e0, n, Val.ref(child))
        d = {
            "top:list-object": s.f("_children", self) == s0.f("_children", self),
            "top:list-len": s.len(l) == n - 1,
            "top:list-elems": smt.FA([j], z3.Implies(z3.And(0 <= j, j < n - 1), e1[j] == z3.If(j < p, e0[j], e0[j + 1])), patterns=[e1[j]]),
            "top:others": others_lists_unchanged(s0, s, self),
            "top:parent-cleared": s.f("_parent", child) == Val.none,
        }
        d.update({"inv:" + k: v for k, v in shape_inv(s).items()})
        return d

    con = Contract(Q_REMOVE_CHILD, params={"self": "Node", "child": "Node"}, requires=requires, axioms=axioms, ensures=ensures,
                   raises=[(ValueError, absent_, None)], writes=("llen", "lelem", "F:_parent"),
                   mods={"llen": lambda s0, r, self, child: r == s0.kids(self), "lelem": lambda s0, r, self, child: r == s0.kids(self),
                         "F:_parent": lambda s0, r, self, child: r == child},
                   mod=lambda s0, r, **kw: z3.BoolVal(False), result_ty="none", assumptions=("T-unfold(first_index)",))
    w.add(con)
    return con


# ---------------------------------------------------------------------------------------- remove_children
Q_REMOVE_CHILDREN = "metapype.model.node:Node.remove_children"


def install_remove_children(w):
    def requires(s, self):
        return shape_inv(s)

    def ensures(s0, s, self, result=None):
        j = z3.Int("rcs_j")
        d = {"top:empty": s.nkids(self) == 0, "top:fresh-list": s.kids(self) >= s0.top,
             "top:others": others_lists_unchanged(s0, s, self),
             "top:parents-cleared": smt.FA([j], z3.Implies(z3.And(0 <= j, j < s0.nkids(self)), s.f("_parent", s0.kid(self, j)) == Val.none),
                                           patterns=[s0.at(s0.kids(self), j)])}
        d.update({"inv:" + k: v for k, v in shape_inv(s).items()})
        return d

    def was_child(s0, r, self):
        j = z3.Int("wc_j")
        return z3.Exists([j], z3.And(0 <= j, j < s0.nkids(self), s0.at(s0.kids(self), j) == Val.ref(r)))

    def inv(s0, s, v):
        j = z3.Int("rci_j")
        self = v.self
        return {"bound": v._k <= s0.nkids(self),
                "cleared": smt.FA([j], z3.Implies(z3.And(0 <= j, j < v._k), s.f("_parent", s0.kid(self, j)) == Val.none),
                                  patterns=[s0.at(s0.kids(self), j)])}

    con = Contract(Q_REMOVE_CHILDREN, params={"self": "Node"}, requires=requires, ensures=ensures,
                   writes=("F:_children", "llen", "lelem", "F:_parent"), mods={"F:_children": lambda s0, r, self: r == self, "F:_parent": was_child},
                   mod=lambda s0, r, **kw: z3.BoolVal(False), allocates=True, result_ty="none")
    w.add(con)
    w.loop(Q_REMOVE_CHILDREN, 1, inv=inv)
    return con


# ---------------------------------------------------------------------------------------- child_index
Q_CHILD_INDEX = "metapype.model.node:Node.child_index"


def install_child_index(w):
    def axioms(s, self, child):
        l = s.kids(self)
        return {"idx": idx_def(s.elems(l), s.len(l), Val.ref(child))}

    def ensures(s0, s, self, child, result):
        l = s0.kids(self)
        p = IDX(s0.elems(l), s0.len(l), Val.ref(child))
        return {"top:index": result == z3.If(p == -1, Val.none, Val.intv(p))}

    con = Contract(Q_CHILD_INDEX, params={"self": "Node", "child": "Node"}, axioms=axioms, ensures=ensures, result_ty="opt:int",
                   assumptions=("T-unfold(first_index)",))
    w.add(con)
    return con


# ---------------------------------------------------------------------------------------- shift
Q_SHIFT = "metapype.model.node:Node.shift"
from metapype.model.node import Shift


def install_shift(w):
    def nm_at(s, e, j):
        return s.name(Val.r(e[j]))

    def requires(s, self, child, direction, sib):
        return shape_inv(s)

    def axioms(s, self, child, direction, sib):
        l = s.kids(self)
        return {"idx": idx_def(s.elems(l), s.len(l), Val.ref(child))}

    def raises_cond(s, self, child, direction, sib):
        l = s.kids(self)
        bad_dir = not (direction is Shift.RIGHT or direction is Shift.LEFT)
        return z3.Or(IDX(s.elems(l), s.len(l), Val.ref(child)) == -1, z3.BoolVal(bad_dir))

    def ensures(s0, s, self, child, direction, sib, result):
        j = z3.Int("sh_j")
        l = s0.kids(self)
        n, e0, e1 = s0.len(l), s0.elems(l), s.elems(l)
        idx = IDX(e0, n, Val.ref(child))
        r = Val.i(result)
        nm = s0.name(child)
        if direction is Shift.RIGHT:
            sib_case = z3.Or(
                z3.And(r == idx, smt.FA([j], z3.Implies(z3.And(idx < j, j < n), nm_at(s0, e0, j) != nm), patterns=[e0[j]])),
                z3.And(idx < r, r < n, nm_at(s0, e0, r) == nm,
                       smt.FA([j], z3.Implies(z3.And(idx < j, j < r), nm_at(s0, e0, j) != nm), patterns=[e0[j]])))
            pos_case = r == z3.If(idx < n - 1, idx + 1, idx)
        else:
            sib_case = z3.Or(
                z3.And(r == idx, smt.FA([j], z3.Implies(z3.And(0 <= j, j < idx), nm_at(s0, e0, j) != nm), patterns=[e0[j]])),
                z3.And(0 <= r, r < idx, nm_at(s0, e0, r) == nm,
                       smt.FA([j], z3.Implies(z3.And(r < j, j < idx), nm_at(s0, e0, j) != nm), patterns=[e0[j]])))
            pos_case = r == z3.If(idx > 0, idx - 1, idx)
        d = {
            "top:result-int": Val.is_intv(result),
            "top:target": z3.If(sib, sib_case, pos_case),
            "top:list-object": s.f("_children", self) == s0.f("_children", self),
            "top:list-len": s.len(l) == n,
            "top:list-swap": smt.FA([j], z3.Implies(z3.And(0 <= j, j < n),
                                                    e1[j] == z3.If(j == idx, e0[r], z3.If(j == r, e0[idx], e0[j]))), patterns=[e1[j]]),
            "top:new-index": e1[r] == Val.ref(child),
            "top:others": others_lists_unchanged(s0, s, self),
        }
        d.update({"inv:" + k: v for k, v in shape_inv(s).items()})
        return d

    def inv_right(s0, s, v):
        j = z3.Int("sr_j")
        l = s0.kids(v.self)
        n, e0 = s0.len(l), s0.elems(l)
        idx = IDX(e0, n, Val.ref(v.child))
        return {"index": v.index == idx, "same": z3.And(s.elems(l) == e0, s.len(l) == n),
                "none-yet": smt.FA([j], z3.Implies(z3.And(idx < j, j < idx + 1 + v._k), nm_at(s0, e0, j) != v.name), patterns=[e0[j]]),
                "bound": idx + 1 + v._k <= z3.If(n > idx + 1, n, idx + 1)}

    def inv_left(s0, s, v):
        j = z3.Int("sl_j")
        l = s0.kids(v.self)
        n, e0 = s0.len(l), s0.elems(l)
        idx = IDX(e0, n, Val.ref(v.child))
        return {"index": v.index == idx, "same": z3.And(s.elems(l) == e0, s.len(l) == n),
                "none-yet": smt.FA([j], z3.Implies(z3.And(idx - 1 - v._k < j, j < idx), nm_at(s0, e0, j) != v.name), patterns=[e0[j]]),
                "bound": v._k <= idx}

    con = Contract(Q_SHIFT, params={"self": "Node", "child": "Node", "sib": "bool"}, requires=requires, axioms=axioms, ensures=ensures,
                   raises=[(ValueError, raises_cond, None)], writes=("lelem",),
                   mods={"lelem": lambda s0, r, self, **kw: r == s0.kids(self)}, mod=lambda s0, r, **kw: z3.BoolVal(False),
                   result_ty="int", assumptions=("T-unfold(first_index)",))
    w.add(con)
    w.loop(Q_SHIFT, 1, inv=inv_right)
    w.loop(Q_SHIFT, 2, inv=inv_left)
    return con


# ================================================================================================ registry (C14)
Q_DELETE = "metapype.model.node:Node.delete_node_instance"


def store_map(s):
    return s.dmap(STORE)


def idkey(s, m):
    return s.f("_id", m)      # a str by T-schema: the Val term itself is the registry key


def reg_sub(s, n):
    """every node of the subtree at n is registered under its own id"""
    m = z3.Int("rg_m")
    return smt.FA([m], z3.Implies(SUB(s, n, m), store_map(s)[idkey(s, m)] == Val.ref(m)), patterns=[SUB(s, n, m)])


def bterm(x):
    return z3.BoolVal(x) if isinstance(x, bool) else x


def deleted_key(s0, n, k, upto=None):
    """key k is the id of a node in Sub(n) (or, with upto, below one of the first `upto` children of n)"""
    v = store_map(s0)[k]
    m = Val.r(v)
    inside = SUB(s0, n, m) if upto is None else below_first(s0, n, upto, m)
    return z3.And(Val.is_ref(v), inside, idkey(s0, m) == k)


def install_delete(w):
    def target(s, id):
        return Val.r(store_map(s)[Val.strv(id)])

    def requires(s, cls, id, children):
        n = target(s, id)
        ch = bterm(children)
        return {"present": store_map(s)[Val.strv(id)] != smt.absent,
                "is-node": z3.Implies(ch, z3.And(Val.is_ref(store_map(s)[Val.strv(id)]), s.is_node(n), s.f("_id", n) == Val.strv(id))),
                "tree": z3.Implies(ch, z3.And(TREE(s, n), wf_sub(s, n))),
                "registered": z3.Implies(ch, reg_sub(s, n)),
                "kids-typed": kids_typed(s)}

    def axioms(s, cls, id, children):
        return tree_axioms(s, target(s, id))

    def ensures(s0, s, cls, id, children, result=None):
        k = z3.Const("dl_k", Val)
        n = target(s0, id)
        ch = bterm(children)
        st0, st1 = store_map(s0), store_map(s)
        return {"top:exact-delta": smt.FA([k], st1[k] == z3.If(z3.If(ch, deleted_key(s0, n, k), k == Val.strv(id)), smt.absent, st0[k]),
                                          patterns=[st1[k]])}

    def inv(s0, s, v):
        k = z3.Const("di_k", Val)
        n = v.node
        st0, st1 = store_map(s0), store_map(s)
        return {"bound": v._k <= s0.nkids(n),
                "delta": smt.FA([k], st1[k] == z3.If(deleted_key(s0, n, k, upto=v._k), smt.absent, st0[k]), patterns=[st1[k]])}

    def loop_axioms(s0, s, v):
        ch = s0.kid(v.node, v._k)
        return {"kid-refl": SUB(s0, ch, ch)}

    con = Contract(Q_DELETE, params={"cls": ("const", Node), "id": "str", "children": "bool"}, requires=requires, axioms=axioms,
                   ensures=ensures, writes=DICT_ARRS, mod=lambda s0, r, **kw: r == STORE, result_ty="none",
                   decreases=lambda s, cls, id, children: z3.If(bterm(children), H(s, target(s, id)), 0),
                   assumptions=("T-unfold(Sub,W,Tree)",))
    w.add(con)
    w.loop(Q_DELETE, 1, inv=inv, axioms=loop_axioms)
    return con


# ---------------------------------------------------------------------------------------- replace_child
Q_REPLACE = "metapype.model.node:Node.replace_child"


def install_replace_child(w):
    def requires(s, self, old_child, new_child, delete_old):
        d = dict(shape_inv(s))
        d["unlisted-new"] = unlisted(s, new_child)
        d["new-not-self"] = new_child != self
        dl = bterm(delete_old)
        d["old-registered"] = z3.Implies(dl, z3.And(store_map(s)[idkey(s, old_child)] == Val.ref(old_child), reg_sub(s, old_child),
                                                    TREE(s, old_child), wf_sub(s, old_child), z3.Not(SUB(s, old_child, self))))
        return d

    def axioms(s, self, old_child, new_child, delete_old):
        l = s.kids(self)
        d = {"idx": idx_def(s.elems(l), s.len(l), Val.ref(old_child))}
        d.update(tree_axioms(s, old_child))
        return d

    def raises_cond(s, self, old_child, new_child, delete_old):
        l = s.kids(self)
        return z3.Or(s.name(new_child) != s.name(old_child), IDX(s.elems(l), s.len(l), Val.ref(old_child)) == -1)

    def rpost(s0, s, self, old_child, new_child, delete_old):
        n = z3.Int("rp_n")
        return {"lists-unchanged": others_lists_unchanged(s0, s, z3.IntVal(-1)),
                "listed-parent-links-unchanged": smt.FA([n], z3.Implies(z3.And(s0.is_node(n), n != new_child),
                                                                           s.f("_parent", n) == s0.f("_parent", n)), patterns=[s.f("_parent", n)]),
                "registry-unchanged": store_map(s) == store_map(s0)}

    def ensures(s0, s, self, old_child, new_child, delete_old, result=None):
        j = z3.Int("rp_j")
        k = z3.Const("rp_k", Val)
        l = s0.kids(self)
        n, e0, e1 = s0.len(l), s0.elems(l), s.elems(l)
        p = IDX(e0, n, Val.ref(old_child))
        st0, st1 = store_map(s0), store_map(s)
        dl = bterm(delete_old)
        d = {
            "top:list-object": s.f("_children", self) == s0.f("_children", self),
            "top:list-len": s.len(l) == n,
            "top:list-elems": smt.FA([j], z3.Implies(z3.And(0 <= j, j < n), e1[j] == z3.If(j == p, Val.ref(new_child), e0[j])), patterns=[e1[j]]),
            "top:parent": s.f("_parent", new_child) == Val.ref(self),
            "top:old-parent-cleared": s.f("_parent", old_child) == Val.none,
            "top:others": others_lists_unchanged(s0, s, self),
            "top:registry": smt.FA([k], st1[k] == z3.If(z3.And(dl, deleted_key(s0, old_child, k)), smt.absent, st0[k]), patterns=[st1[k]]),
        }
        d.update({"inv:" + kk: v for kk, v in shape_inv(s).items()})
        return d

    con = Contract(Q_REPLACE, params={"self": "Node", "old_child": "Node", "new_child": "Node", "delete_old": "bool"},
                   requires=requires, axioms=axioms, ensures=ensures, raises=[(ValueError, raises_cond, None)],
                   writes=("F:_parent", "lelem") + DICT_ARRS,
                   mods={"F:_parent": lambda s0, r, new_child, old_child, **kw: z3.Or(r == new_child, r == old_child), "lelem": lambda s0, r, self, **kw: r == s0.kids(self)},
                   mod=lambda s0, r, **kw: r == STORE, result_ty="none", assumptions=("T-unfold(first_index)", "T-frame(subtree)"))
    w.add(con)
    w.call_lemmas[(Q_REPLACE, Q_DELETE)] = lambda s0, s, v: {"frame": subtree_frame(s0, s, v.old_child)}
    return con


# ================================================================================================ queries (C09)
Q_FIND_CHILD = "metapype.model.node:Node.find_child"
Q_FIND_DESC = "metapype.model.node:Node.find_descendant"


def install_find_child(w):
    def ensures(s0, s, self, child_name, result):
        j, p = z3.Ints("fc_j fc_p")
        kids = s0.kids(self)
        n = s0.len(kids)
        isnone = result == Val.none
        nm = lambda i: s0.name(s0.nat(kids, i))
        return {
            "top:none-iff-absent": isnone == smt.FA([j], z3.Implies(z3.And(0 <= j, j < n), nm(j) != child_name)),
            "top:first-match": z3.Implies(z3.Not(isnone), z3.Exists([p], z3.And(
                0 <= p, p < n, s0.at(kids, p) == result, nm(p) == child_name,
                smt.FA([j], z3.Implies(z3.And(0 <= j, j < p), nm(j) != child_name))))),
        }

    def inv(s0, s, v):
        j = z3.Int("fc_j")
        kids = s0.kids(v.self)
        return smt.FA([j], z3.Implies(z3.And(0 <= j, j < v._k), s0.name(s0.nat(kids, j)) != v.child_name))

    con = Contract(Q_FIND_CHILD, params={"self": "Node", "child_name": "str"}, ensures=ensures, result_ty="opt:Node")
    w.add(con)
    w.loop(Q_FIND_CHILD, 1, inv=inv)
    return con


_FD = z3.Function("first_desc", *_CS, smt.FieldArr, I, z3.StringSort(), Val)   # ghost: first strict descendant named x in document order
_FI = z3.Function("first_desc_child", *_CS, smt.FieldArr, I, z3.StringSort(), I)  # ghost witness: index of the child that yields it


def FD(s, n, x):
    return _FD(*s.cs, s.arr("F:_name"), n, x)


def HIT(s, n, k, x):
    """what child k of n contributes: the child itself if it is named x, else its own first matching descendant"""
    ch = s.kid(n, k)
    return z3.If(s.name(ch) == x, Val.ref(ch), FD(s, ch, x))


def fd_def(s, n, x):
    """one-level unfolding of first_desc at n: preorder = child, then its subtree, children left to right"""
    j = z3.Int("fd_j")
    r = FD(s, n, x)
    fi = _FI(*s.cs, s.arr("F:_name"), n, x)
    return z3.Or(
        z3.And(r == Val.none, smt.FA([j], z3.Implies(z3.And(0 <= j, j < s.nkids(n)), HIT(s, n, j, x) == Val.none), patterns=[s.at(s.kids(n), j)])),
        z3.And(0 <= fi, fi < s.nkids(n), HIT(s, n, fi, x) == r, r != Val.none,
               smt.FA([j], z3.Implies(z3.And(0 <= j, j < fi), HIT(s, n, j, x) == Val.none), patterns=[s.at(s.kids(n), j)])))


def install_find_descendant(w):
    def requires(s, self, descendant_name):
        return {"wf": wf_sub(s, self), "kids-typed": kids_typed(s)}

    def axioms(s, self, descendant_name):
        d = tree_axioms(s, self)
        d["fd"] = fd_def(s, self, descendant_name)
        return d

    def ensures(s0, s, self, descendant_name, result):
        return {"top:first-in-document-order": result == FD(s0, self, descendant_name)}

    def inv(s0, s, v):
        j = z3.Int("fdi_j")
        n = v.self
        return {"bound": v._k <= s0.nkids(n), "none-so-far": v.V("descendant") == Val.none,
                "earlier-none": smt.FA([j], z3.Implies(z3.And(0 <= j, j < v._k), HIT(s0, n, j, v.descendant_name) == Val.none),
                                       patterns=[s0.at(s0.kids(n), j)])}

    con = Contract(Q_FIND_DESC, params={"self": "Node", "descendant_name": "str"}, requires=requires, axioms=axioms, ensures=ensures,
                   result_ty="opt:Node", decreases=lambda s, self, **kw: H(s, self), assumptions=("T-unfold(first_desc)",))
    w.add(con)
    w.loop(Q_FIND_DESC, 1, inv=inv, var_types={"descendant": "opt:Node"})
    return con
