"""World construction: heap schema of Node, modelled externals, shared spec vocabulary."""
import copy
import uuid
import z3

from pyvc import smt, prims
from pyvc.smt import Val, I, B, S, kind, KIND_NODE, KIND_LIST, KIND_DICT
from pyvc.values import *
from pyvc.core import SV
from pyvc.task import World, Contract, LoopC

import metapype.model.node as node_mod
from metapype.model.node import Node

NODE_FIELDS = {
    "_id": "str",
    "_name": "str",
    "_parent": "opt:Node",
    "_content": "opt:str",
    "_tail": "opt:str",
    "_attributes": "dict:str",
    "_nsmap": "dict:str",
    "_prefix": "opt:str",
    "_extras": "dict:str",
    "_children": "list:Node",
}

STORE = z3.Int("STORE")   # address of the class-level registry dict Node.store


def ext_deepcopy(ip, x):
    """A-deepcopy: copy.deepcopy of a str->str dict is a fresh dict with the same items in the same order."""
    if prims.is_dict(x) or isinstance(x, PDict):
        ip.c.assumptions_used.add("A-deepcopy(str->str dict)")
        return prims.dict_copy(ip, x)
    raise Unsupported("copy.deepcopy of non-dict")


ORIG = z3.Function("copy_origin", I, I)   # ghost: the object a shallow copy was made from (defined at allocation, once per address)


def ext_copy(ip, x):
    """copy.copy(node): fresh object of the same class whose attributes are the same objects."""
    c = ip.c
    if isinstance(x, Sym) and x.ty == "Node":
        r = c.alloc(KIND_NODE)
        c.assume(ORIG(r) == x.t)      # ghost definition at a fresh address
        for f in NODE_FIELDS:
            arr = c.heap.get("F:" + f)
            c.write_array("F:" + f, z3.Store(arr, r, arr[x.t]))
        return Sym(r, "Node")
    raise Unsupported("copy.copy of non-node")


def ext_uuid1(ip):
    """A-uuid: str(uuid.uuid1()) differs from every key of Node.store and from every earlier result."""
    c = ip.c
    c.assumptions_used.add("A-uuid")
    s = c.fresh("uuid", S)
    c.assume(c.heap.get("dmap")[STORE][Val.strv(s)] == smt.absent)
    prev = getattr(c, "_uuids", [])
    for p in prev:
        c.assume(s != p)
    c._uuids = prev + [s]
    return Sym(s, "str")


def store_attr(ip):
    c = ip.c
    c.fact(z3.And(STORE > 0, STORE < z3.Int("top0"), kind(STORE) == KIND_DICT))
    return Sym(STORE, "dict:Node")


def make_world():
    w = World()
    w.schema = {"Node": NODE_FIELDS}
    w.node_class = Node
    w.scope_modules = {
        "metapype.model.node", "metapype.eml.rule", "metapype.eml.validate", "metapype.eml.references",
        "metapype.eml.evaluate", "metapype.eml.export", "metapype.model.metapype_io", "metapype.model.mp_io",
        "metapype.model.normalize",
    }
    w.externals[copy.deepcopy] = ext_deepcopy
    w.externals[copy.copy] = ext_copy
    w.externals[uuid.uuid1] = ext_uuid1
    w.class_heap_attrs[(Node, "store")] = store_attr
    return w


# ------------------------------------------------------------------------------------------ shared spec vocabulary
_CS = (smt.FieldArr, smt.IntArr, smt.LElemArr)   # sorts of the children structure (F:_children, llen, lelem)
_H = z3.Function("height", *_CS, I, I)   # ghost: height of a node in a given children structure


def H(s, n):
    return _H(*s.cs, n)


def wf_children(s):
    """Acyclicity of the children relation among allocated nodes (ghost height strictly decreases to children),
    and every listed child is an allocated Node."""
    n, i = z3.Ints("wf_n wf_i")
    return smt.FA([n, i], z3.Implies(
        z3.And(s.is_node(n), 0 <= i, i < s.nkids(n)),
        z3.And(H(s, s.kid(n, i)) < H(s, n), H(s, s.kid(n, i)) >= 0)), patterns=[s.at(s.kids(n), i)])


def node_ok(s, n):
    """type facts of one node (what T-schema promises), usable inside quantified specs."""
    ch = s.f("_children", n)
    return z3.And(Val.is_ref(ch), s.alloc(Val.r(ch)), kind(Val.r(ch)) == KIND_LIST, s.len(Val.r(ch)) >= 0)


def node_schema(s, n):
    """T-schema instance for one node: its container fields are allocated objects of the right kind"""
    out = []
    for f, k in (("_children", KIND_LIST), ("_attributes", KIND_DICT), ("_nsmap", KIND_DICT), ("_extras", KIND_DICT)):
        v = s.f(f, n)
        out.append(z3.And(Val.is_ref(v), s.alloc(Val.r(v)), kind(Val.r(v)) == k))
    out.append(s.len(s.kids(n)) >= 0)
    out.append(Val.is_strv(s.f("_name", n)))
    out.append(z3.Or(s.f("_content", n) == Val.none, Val.is_strv(s.f("_content", n))))
    return z3.And(*out)
