"""Independent semantics of a rule's children section as a regular language (spec side; never imports rule.py).

AST:  ('item', name, m, M) | ('seq', [asts]) | ('choice', [asts], m, M)      M is None for unbounded.
Two languages because the property leaves one thing open: in L_lo an alternative that matches the empty word does not
count as a choice occurrence; in L_hi it may.  L_lo is a subset of L_hi; must-accept = L_lo, must-reject = complement of L_hi.
"""
import itertools

OTHER = "~other~"


class Malformed(Exception):
    pass


def parse(spec, mixed=False):
    """children section of rules.json -> AST (raises Malformed)"""
    if not isinstance(spec, list):
        raise Malformed(f"not a list: {spec!r}")
    if len(spec) == 0:
        return ("seq", [])
    if isinstance(spec[0], str):
        if len(spec) != 3:
            raise Malformed(f"item needs [name, min, max]: {spec!r}")
        name, m, M = spec
        _check_bounds(m, M, spec)
        return ("item", name, m, M)
    if len(spec) >= 3 and isinstance(spec[0], list) and isinstance(spec[-2], int) and not isinstance(spec[-2], bool) \
            and (spec[-1] is None or (isinstance(spec[-1], int) and not isinstance(spec[-1], bool))):
        m, M = spec[-2], spec[-1]
        _check_bounds(m, M, spec)
        alts = [parse(a, mixed) for a in spec[:-2]]
        return ("choice", alts, 0 if mixed else m, M)
    if isinstance(spec[-1], list):
        if not all(isinstance(x, list) for x in spec):
            raise Malformed(f"sequence with a non-list member: {spec!r}")
        return ("seq", [parse(a, mixed) for a in spec])
    raise Malformed(f"neither item, sequence nor choice: {spec!r}")


def _check_bounds(m, M, spec):
    if not isinstance(m, int) or isinstance(m, bool) or m < 0:
        raise Malformed(f"minimum must be a non-negative int: {spec!r}")
    if M is not None and (not isinstance(M, int) or isinstance(M, bool) or M < m):
        raise Malformed(f"maximum must be None or an int >= minimum: {spec!r}")


def names_of(ast):
    if ast[0] == "item":
        return [ast[1]]
    out = []
    for a in ast[1]:
        out.extend(names_of(a))
    return out


# ------------------------------------------------------------------------------------------------ NFA with epsilon moves
class NFA:
    def __init__(self):
        self.n = 0
        self.eps = {}
        self.tr = {}

    def new(self):
        self.n += 1
        return self.n - 1

    def add_eps(self, a, b):
        self.eps.setdefault(a, set()).add(b)

    def add(self, a, sym, b):
        self.tr.setdefault((a, sym), set()).add(b)


def _repeat(nfa, build, m, M, start):
    """m..M copies of the fragment build(start)->end, chained; returns end state"""
    cur = start
    for _ in range(m):
        cur = build(cur)
    if M is None:
        loop_in = nfa.new()
        nfa.add_eps(cur, loop_in)
        end = build(loop_in)
        nfa.add_eps(end, loop_in)
        out = nfa.new()
        nfa.add_eps(loop_in, out)
        return out
    out = nfa.new()
    nfa.add_eps(cur, out)
    for _ in range(M - m):
        cur = build(cur)
        nfa.add_eps(cur, out)
    return out


def _build(nfa, ast, start, hi):
    if ast[0] == "item":
        _, name, m, M = ast

        def one(s):
            e = nfa.new()
            nfa.add(s, name, e)
            return e
        return _repeat(nfa, one, m, M, start)
    if ast[0] == "seq":
        cur = start
        for a in ast[1]:
            cur = _build(nfa, a, cur, hi)
        return cur
    _, alts, m, M = ast

    def one_occurrence(s):
        e = nfa.new()
        for a in alts:
            if hi:
                ae = _build(nfa, a, s, hi)
                nfa.add_eps(ae, e)
            else:
                # an occurrence must consume at least one child: alternative minus the empty word
                ae = _build_nonempty(nfa, a, s, hi)
                nfa.add_eps(ae, e)
        return e
    return _repeat(nfa, one_occurrence, m, M, start)


def _build_nonempty(nfa, ast, start, hi):
    """fragment for L(ast) minus {epsilon}: product with a 'consumed something' bit, done by building two layers"""
    # layer 0 = nothing consumed yet, layer 1 = something consumed.  Build the plain fragment in a scratch NFA, then copy twice.
    scratch = NFA()
    s0 = scratch.new()
    e0 = _build(scratch, ast, s0, hi)
    base0 = nfa.n
    for _ in range(scratch.n):
        nfa.new()
    base1 = nfa.n
    for _ in range(scratch.n):
        nfa.new()
    for a, bs in scratch.eps.items():
        for b in bs:
            nfa.add_eps(base0 + a, base0 + b)
            nfa.add_eps(base1 + a, base1 + b)
    for (a, sym), bs in scratch.tr.items():
        for b in bs:
            nfa.add(base0 + a, sym, base1 + b)
            nfa.add(base1 + a, sym, base1 + b)
    nfa.add_eps(start, base0 + s0)
    return base1 + e0


class DFA:
    """complete minimal DFA over alphabet (rule names + OTHER); state 0..n-1, dead state absorbing"""

    def __init__(self, alphabet, delta, init, accepting, dead):
        self.alphabet, self.delta, self.init, self.accepting, self.dead = alphabet, delta, init, accepting, dead
        self.n = len(delta)

    def run(self, word):
        s = self.init
        for a in word:
            s = self.delta[s][a if a in self.alphabet else OTHER]
        return s

    def accepts(self, word):
        return self.run(word) in self.accepting


def to_dfa(ast, hi):
    nfa = NFA()
    s = nfa.new()
    e = _build(nfa, ast, s, hi)
    alphabet = sorted(set(names_of(ast))) + [OTHER]

    def closure(states):
        st = set(states)
        stack = list(states)
        while stack:
            x = stack.pop()
            for y in nfa.eps.get(x, ()):
                if y not in st:
                    st.add(y)
                    stack.append(y)
        return frozenset(st)

    init = closure([s])
    idx = {init: 0}
    order = [init]
    delta = []
    i = 0
    while i < len(order):
        cur = order[i]
        row = {}
        for a in alphabet:
            nxt = set()
            for x in cur:
                nxt |= nfa.tr.get((x, a), set())
            nx = closure(nxt)
            if nx not in idx:
                idx[nx] = len(order)
                order.append(nx)
            row[a] = idx[nx]
        delta.append(row)
        i += 1
    acc = {idx[st] for st in order if e in st}
    return minimise(alphabet, delta, 0, acc)


def minimise(alphabet, delta, init, acc):
    n = len(delta)
    part = [0 if i in acc else 1 for i in range(n)]
    while True:
        sig = {}
        newpart = []
        for i in range(n):
            key = (part[i],) + tuple(part[delta[i][a]] for a in alphabet)
            if key not in sig:
                sig[key] = len(sig)
            newpart.append(sig[key])
        if len(sig) == len(set(part)):
            part = newpart
            break
        part = newpart
    # renumber with init first (BFS order for determinism)
    rep = {}
    for i in range(n):
        rep.setdefault(part[i], i)
    order = []
    seen = {}
    queue = [part[init]]
    seen[part[init]] = 0
    while queue:
        b = queue.pop(0)
        order.append(b)
        for a in alphabet:
            nb = part[delta[rep[b]][a]]
            if nb not in seen:
                seen[nb] = len(seen)
                queue.append(nb)
    nd = [{a: seen[part[delta[rep[b]][a]]] for a in alphabet} for b in order]
    nacc = {seen[b] for b in order if rep[b] in acc}
    dead = None
    for i, row in enumerate(nd):
        if i not in nacc and all(row[a] == i for a in alphabet):
            dead = i
    if dead is None:
        # add an explicit dead state so that every DFA has one (OTHER always leads to it)
        dead = len(nd)
        nd.append({a: dead for a in alphabet})
    return DFA(alphabet, nd, 0, nacc, dead)


# ------------------------------------------------------------------------------------------------ naive matcher (cross-check)
def matches(ast, word, hi):
    """backtracking membership, independent of the automaton construction"""
    word = tuple(word)

    def ends(a, i):
        """set of positions j such that word[i:j] in L(a)"""
        if a[0] == "item":
            _, name, m, M = a
            out = set()
            j = i
            k = 0
            if m == 0:
                out.add(i)
            while j < len(word) and word[j] == name and (M is None or k < M):
                j += 1
                k += 1
                if k >= m:
                    out.add(j)
            return out
        if a[0] == "seq":
            cur = {i}
            for x in a[1]:
                nxt = set()
                for p in cur:
                    nxt |= ends(x, p)
                cur = nxt
                if not cur:
                    break
            return cur
        _, alts, m, M = a
        out = set()
        frontier = {i}
        k = 0
        if m == 0:
            out.add(i)
        seen = set()
        cap = M if M is not None else max(m, len(word) - i + 1)
        while frontier and k < cap:
            nxt = set()
            for p in frontier:
                for x in alts:
                    for q in ends(x, p):
                        if hi or q > p:
                            nxt.add(q)
            k += 1
            if k >= m:
                out |= nxt
            key = (frozenset(nxt), k >= m)
            if M is None and k >= m and key in seen:
                break
            seen.add(key)
            frontier = nxt
        return out
    return len(word) in ends(ast, 0)


def min_word(ast, cost):
    """a cheapest word of L_lo(ast) given per-name costs (None = not producible); returns (total cost, word) or None"""
    if ast[0] == "item":
        _, name, m, M = ast
        if m == 0:
            return (0, [])
        c = cost.get(name)
        if c is None:
            return None
        return (c * m, [name] * m)
    if ast[0] == "seq":
        tot, w = 0, []
        for a in ast[1]:
            r = min_word(a, cost)
            if r is None:
                return None
            tot += r[0]
            w += r[1]
        return (tot, w)
    _, alts, m, M = ast
    if m == 0:
        return (0, [])
    best = None
    for a in alts:
        r = min_nonempty_word(a, cost)
        if r is not None and (best is None or r[0] < best[0]):
            best = r
    if best is None:
        return None
    return (best[0] * m, best[1] * m)


def min_nonempty_word(ast, cost):
    r = min_word(ast, cost)
    if r is not None and r[1]:
        return r
    # force one optional part to appear
    if ast[0] == "item":
        _, name, m, M = ast
        c = cost.get(name)
        if c is None or (M is not None and M < 1):
            return None
        return (c * max(m, 1), [name] * max(m, 1))
    if ast[0] == "seq":
        if r is None:
            return None
        best = None
        for i, a in enumerate(ast[1]):
            ne = min_nonempty_word(a, cost)
            if ne is None:
                continue
            tot, w = 0, []
            ok = True
            for j, b in enumerate(ast[1]):
                rr = ne if j == i else min_word(b, cost)
                if rr is None:
                    ok = False
                    break
                tot += rr[0]
                w += rr[1]
            if ok and (best is None or tot < best[0]):
                best = (tot, w)
        return best
    _, alts, m, M = ast
    if M is not None and M < 1:
        return None
    best = None
    for a in alts:
        ne = min_nonempty_word(a, cost)
        if ne is not None and (best is None or ne[0] < best[0]):
            best = ne
    if best is None:
        return None
    k = max(m, 1)
    return (best[0] * k, best[1] * k)
