"""Rule specialisation: the concrete rule table is read at run time (independently of rule.py) and the Rule methods are
verified with `self` built by really executing Rule.__init__(rule_name) in the engine."""
import json
import os
import z3
from pyvc import smt
from pyvc.smt import Val, I, B
from pyvc.values import *
from .prelude import *

REPO = os.environ.get("VERIF_REPO", "/repo")


def load_rules():
    return json.load(open(os.path.join(REPO, "src/metapype/eml/rules.json"), encoding="utf-8"))


def rule_world():
    w = make_world()
    import metapype.eml.rule as rule_mod
    w.rule_mod = rule_mod
    return w


def make_rule(rule_name, reused=False):
    """params entry: builds the Rule instance by executing the real constructor.  reused=True: the instance has been used for earlier
    validations, so the per-call state a validation pass keeps on it (_node, _node_children_names, _node_index) holds arbitrary leftovers."""
    def build(ip):
        import metapype.eml.rule as rule_mod
        r = ip.call(rule_mod.Rule, [rule_name], {})
        if reused:
            c = ip.c
            t = z3.Int("a_leftover_names")
            c.assume(c.ty_fact(Val.ref(t), "list:str"))
            j = z3.Int("lo_j")
            e = c.heap.get("lelem")[t]
            c.assume(smt.FA([j], Val.is_strv(e[j]), patterns=[e[j]]))
            r.fields["_node_children_names"] = Sym(t, "list:str")
            idx = z3.Int("a_leftover_index")
            c.assume(idx >= 0)
            r.fields["_node_index"] = Sym(idx, "int")
            n = z3.Int("a_leftover_node")
            c.assume(c.ty_fact(Val.ref(n), "Node"))
            r.fields["_node"] = Sym(n, "Node")
            c.assumptions_used.add("the Rule instance may have been used before: its per-call fields hold arbitrary leftovers at entry")
        return r
    return build


def enum_obj(ip_or_ctx, member):
    """Val term of an opaque python object (enum member) in the current path's object table"""
    return Val.objv(z3.IntVal(ip_or_ctx.obj_id(member)))
