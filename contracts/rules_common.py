"""Rule specialisation: the concrete rule table is read at run time (independently of rule.py) and the Rule methods are
verified with `self` built by really executing Rule.__init__(rule_name) in the engine."""
import json
import os
import z3
from pyvc import smt
from pyvc.smt import Val, I, B
from pyvc.values import *
from .prelude import *

REPO = os.environ.get("VERIF_REPO", "/repo")


def load_rules():
    return json.load(open(os.path.join(REPO, "src/metapype/eml/rules.json"), encoding="utf-8"))


def rule_world():
    w = make_world()
    import metapype.eml.rule as rule_mod
    w.rule_mod = rule_mod
    return w


def make_rule(rule_name):
    """params entry: builds the Rule instance by executing the real constructor"""
    def build(ip):
        import metapype.eml.rule as rule_mod
        return ip.call(rule_mod.Rule, [rule_name], {})
    return build


def enum_obj(ip_or_ctx, member):
    """Val term of an opaque python object (enum member) in the current path's object table"""
    return Val.objv(z3.IntVal(ip_or_ctx.obj_id(member)))
