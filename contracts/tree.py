"""Tree vocabulary over the children relation of the entry heap.

Sub(n, m)  m is n or a descendant of n.      W(s, n, m)  for m strictly below n: the index of the child of n whose
subtree holds m (a choice function; unique when the subtree at n is a tree).      Tree(n)  sibling subtrees below n are
pairwise disjoint and do not contain n, recursively.  All three are uninterpreted; the facts below are their one-level
unfoldings at a given node (assumption T-unfold), so no induction is asked of the solver.
"""
import z3
from pyvc.smt import Val, I, B, kind, KIND_NODE, KIND_LIST, KIND_DICT
from pyvc import smt
from .prelude import H, wf_children

from .prelude import _CS
_SUB = z3.Function("Sub", *_CS, I, I, B)
_W = z3.Function("W", *_CS, I, I, I)
_TREE = z3.Function("Tree", *_CS, I, B)


def SUB(s, n, m):
    return _SUB(*s.cs, n, m)


def W(s, n, m):
    return _W(*s.cs, n, m)


def TREE(s, n):
    return _TREE(*s.cs, n)


def sub_down(s, n):
    """Sub(n, m) => m = n or m is below the child W(s, n, m)"""
    m = z3.Int("sd_m")
    w = W(s, n, m)
    return smt.FA([m], z3.Implies(SUB(s, n, m), z3.Or(m == n, z3.And(0 <= w, w < s.nkids(n), SUB(s, s.kid(n, w), m)))),
                     patterns=[SUB(s, n, m)])


def sub_up(s, n):
    """below child j => below n; with Tree(n): j is *the* index (disjoint siblings) and m is not n (acyclic)"""
    j, m = z3.Ints("sup_j sup_m")
    return smt.FA([j, m], z3.Implies(z3.And(0 <= j, j < s.nkids(n), SUB(s, s.kid(n, j), m)),
                                        z3.And(SUB(s, n, m), z3.Implies(TREE(s, n), z3.And(W(s, n, m) == j, m != n)))),
                     patterns=[SUB(s, s.kid(n, j), m)])


def tree_kids(s, n):
    j = z3.Int("tk_j")
    return smt.FA([j], z3.Implies(z3.And(TREE(s, n), 0 <= j, j < s.nkids(n)), TREE(s, s.kid(n, j))), patterns=[s.kid(n, j)])


def sub_nodes(s):
    """everything in a subtree of a node is an allocated Node (T-schema, by induction; stated as an axiom)"""
    n, m = z3.Ints("sn_n sn_m")
    return smt.FA([n, m], z3.Implies(z3.And(s.is_node(n), SUB(s, n, m)), s.is_node(m)), patterns=[SUB(s, n, m)])


def sub_closed(s):
    """subtrees are closed under the child relation (by induction on the definition of Sub; stated as an axiom)"""
    n, m, i = z3.Ints("sc_n sc_m sc_i")
    return smt.FA([n, m, i], z3.Implies(z3.And(SUB(s, n, m), 0 <= i, i < s.nkids(m)), SUB(s, n, s.kid(m, i))),
                  patterns=[z3.MultiPattern(SUB(s, n, m), s.at(s.kids(m), i))])


def tree_axioms(s, n):
    return {"sub-closed": sub_closed(s), "sub-down": sub_down(s, n), "sub-up": sub_up(s, n), "tree-kids": tree_kids(s, n), "sub-refl": SUB(s, n, n),
            "sub-nodes": sub_nodes(s)}


def below_first(s, n, k, m):
    """m lies strictly below n, in the subtree of one of the first k children"""
    return z3.And(SUB(s, n, m), m != n, W(s, n, m) < k)


def no_new_nodes(s0, s):
    r = z3.Int("nn_r")
    return smt.FA([r], z3.Implies(z3.And(s0.top <= r, r < s.top), kind(r) != KIND_NODE), patterns=[kind(r)])


def cs_same(s0, s):
    """the children structure of every node allocated in s0 is the same in s"""
    n = z3.Int("cs_n")
    k0, k = s0.f("_children", n), s.f("_children", n)
    return smt.FA([n], z3.Implies(s0.is_node(n), z3.And(k == k0, s.len(Val.r(k0)) == s0.len(Val.r(k0)),
                                                            s.elems(Val.r(k0)) == s0.elems(Val.r(k0)))), patterns=[s.f("_children", n)])


def tree_frame_steps(s0, s):
    """T-frame in two steps: prove that the children structure of every allocated node is unchanged, then use that the ghost
    tree functions read nothing else"""
    n, m = z3.Ints("tf_n tf_m")
    return {"prove:children-structure-unchanged": cs_same(s0, s), "tree-frame": z3.And(
        smt.FA([n, m], z3.Implies(s0.is_node(n), z3.And(SUB(s, n, m) == SUB(s0, n, m), W(s, n, m) == W(s0, n, m))),
               patterns=[SUB(s, n, m)]),
        smt.FA([n], z3.Implies(s0.is_node(n), z3.And(TREE(s, n) == TREE(s0, n), H(s, n) == H(s0, n))), patterns=[TREE(s, n)]),
        smt.FA([n], z3.Implies(s0.is_node(n), H(s, n) == H(s0, n)), patterns=[H(s, n)]))}


def tree_frame(s0, s):
    """T-frame: the ghost tree functions read only the children structure of allocated nodes"""
    n, m = z3.Ints("tf_n tf_m")
    return z3.Implies(cs_same(s0, s), z3.And(
        smt.FA([n, m], z3.Implies(s0.is_node(n), z3.And(SUB(s, n, m) == SUB(s0, n, m), W(s, n, m) == W(s0, n, m))),
                  patterns=[SUB(s, n, m)]),
        smt.FA([n], z3.Implies(s0.is_node(n), z3.And(TREE(s, n) == TREE(s0, n), H(s, n) == H(s0, n))), patterns=[TREE(s, n)])))


def wf_sub(s, n):
    """the child relation below n is well founded (ghost height decreases), so recursion over the subtree terminates"""
    m, i = z3.Ints("ws_m ws_i")
    return smt.FA([m, i], z3.Implies(z3.And(SUB(s, n, m), 0 <= i, i < s.nkids(m)),
                                        z3.And(H(s, s.kid(m, i)) < H(s, m), H(s, s.kid(m, i)) >= 0)),
                     patterns=[z3.MultiPattern(SUB(s, n, m), s.at(s.kids(m), i))])


def own_lists(s):
    """T-schema: no two nodes share a children list object"""
    n, m = z3.Ints("ol_n ol_m")
    return smt.FA([n, m], z3.Implies(z3.And(s.is_node(n), s.is_node(m), n != m), s.kids(n) != s.kids(m)),
                     patterns=[z3.MultiPattern(s.f("_children", n), s.f("_children", m))])


def subtree_frame(s0, s, n):
    """T-frame for one subtree: if the children structure of every node below n is the same in s0 and s, the ghost tree
    functions agree on that subtree."""
    m, x = z3.Ints("sf_m sf_x")
    k0 = s0.f("_children", m)
    same = smt.FA([m], z3.Implies(SUB(s0, n, m), z3.And(s.f("_children", m) == k0, s.len(Val.r(k0)) == s0.len(Val.r(k0)),
                                                             s.elems(Val.r(k0)) == s0.elems(Val.r(k0)))),
                     patterns=[SUB(s0, n, m)])
    return z3.Implies(same, z3.And(
        smt.FA([m], SUB(s, n, m) == SUB(s0, n, m), patterns=[SUB(s, n, m)]),
        smt.FA([m], z3.Implies(SUB(s0, n, m), z3.And(TREE(s, m) == TREE(s0, m), H(s, m) == H(s0, m))),
                  patterns=[TREE(s, m)], ),
        smt.FA([m], z3.Implies(SUB(s0, n, m), H(s, m) == H(s0, m)), patterns=[H(s, m)]),
        smt.FA([m, x], z3.Implies(SUB(s0, n, m), z3.And(SUB(s, m, x) == SUB(s0, m, x), W(s, m, x) == W(s0, m, x))),
                  patterns=[SUB(s, m, x)])))


def subtree_frame_steps(s0, s, n):
    """T-frame for one subtree in two steps: prove the children structure below n unchanged, then use that the ghost tree
    functions of that subtree read nothing else"""
    m, x = z3.Ints("sf_m sf_x")
    k0 = s0.f("_children", m)
    same = smt.FA([m], z3.Implies(SUB(s0, n, m), z3.And(s.f("_children", m) == k0, s.len(Val.r(k0)) == s0.len(Val.r(k0)),
                                                         s.elems(Val.r(k0)) == s0.elems(Val.r(k0)))), patterns=[SUB(s0, n, m)])
    return {"prove:subtree-structure-unchanged": same, "subtree-frame": z3.And(
        smt.FA([m], SUB(s, n, m) == SUB(s0, n, m), patterns=[SUB(s, n, m)]),
        smt.FA([m], z3.Implies(SUB(s0, n, m), z3.And(TREE(s, m) == TREE(s0, m), H(s, m) == H(s0, m))), patterns=[TREE(s, m)]),
        smt.FA([m], z3.Implies(SUB(s0, n, m), H(s, m) == H(s0, m)), patterns=[H(s, m)]),
        smt.FA([m, x], z3.Implies(SUB(s0, n, m), z3.And(SUB(s, m, x) == SUB(s0, m, x), W(s, m, x) == W(s0, m, x))), patterns=[SUB(s, m, x)]))}
