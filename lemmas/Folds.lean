import Mathlib.Tactic

/-!
The three lemmas that the contracts of C19 (`_dataset_rule`) and C09 (`find_all_nodes_by_path`) use as instances.  On the SMT side their base
cases and induction steps are discharged by z3 as ground implications and the induction principle over the naturals is applied outside the
solver; here the same statements are proved by induction, over abstract functions that satisfy the one-level unfoldings of the ghosts.

* `fold_filter`       L-fold-filter:  folding a weight over the filtered list equals folding it over the source with the filter applied
* `empty_generation`  L-empty-generation:  once a generation is empty, every later one is
* `count_inverse`     the inner half of L-enum:  every position below `CNT K` is the count of some matching index below `K`
-/

theorem fold_filter (mtch : ℕ → Prop) [DecidablePred mtch] (w E CNT KWS KWL : ℕ → ℕ)
    (hC0 : CNT 0 = 0) (hC : ∀ k, CNT (k + 1) = CNT k + if mtch k then 1 else 0)
    (hS0 : KWS 0 = 0) (hS : ∀ k, KWS (k + 1) = KWS k + if mtch k then w k else 0)
    (hL0 : KWL 0 = 0) (hL : ∀ i, KWL (i + 1) = KWL i + w (E i))
    (hE : ∀ k, mtch k → E (CNT k) = k) :
    ∀ k, KWL (CNT k) = KWS k := by
  intro k
  induction k with
  | zero => rw [hC0, hL0, hS0]
  | succ k ih =>
    rw [hC, hS]
    by_cases h : mtch k
    · simp only [h, if_true]
      rw [hL, ih, hE k h]
    · simp only [h, if_false, Nat.add_zero]
      exact ih

theorem empty_generation (genLen : ℕ → ℕ) (genOff : ℕ → ℕ → ℕ)
    (hO : ∀ m, genOff m 0 = 0) (hG : ∀ m, genLen (m + 1) = genOff m (genLen m)) (k : ℕ) (hk : genLen k = 0) :
    ∀ m, k ≤ m → genLen m = 0 := by
  intro m hm
  induction m, hm using Nat.le_induction with
  | base => exact hk
  | succ m _ ih => rw [hG, ih, hO]

theorem count_inverse (mtch : ℕ → Prop) [DecidablePred mtch] (CNT : ℕ → ℕ)
    (hC0 : CNT 0 = 0) (hC : ∀ k, CNT (k + 1) = CNT k + if mtch k then 1 else 0) :
    ∀ K t, t < CNT K → ∃ c, c < K ∧ mtch c ∧ CNT c = t := by
  intro K
  induction K with
  | zero => intro t ht; rw [hC0] at ht; exact absurd ht (Nat.not_lt_zero _)
  | succ K ih =>
    intro t ht
    by_cases hlt : t < CNT K
    · obtain ⟨c, hc, hm, he⟩ := ih t hlt
      exact ⟨c, Nat.lt_succ_of_lt hc, hm, he⟩
    · rw [hC] at ht
      by_cases h : mtch K
      · simp only [h, if_true] at ht
        exact ⟨K, Nat.lt_succ_self K, h, by omega⟩
      · simp only [h, if_false, Nat.add_zero] at ht
        exact absurd ht hlt
