import Mathlib.Data.Finset.Card
import Mathlib.Data.Fintype.Card
import Mathlib.Data.Finset.Image

/-!
L-card, the finite-cardinality lemma behind C18 (`Node.is_equal` compares two dicts by size and by looking every key of the first up in
the second).

An insertion-ordered dict is, abstractly, a number `n` of positions and an injective function from positions to keys (the `dkey`/`dpos`
bijection of the heap encoding); a key is present iff it is the key of some position.  For two such dicts:

* `lcard_le`:  if every key of the first is a key of the second, the first has at most as many positions;
* `lcard_eq`:  if moreover they have the same number of positions, every key of the second is a key of the first.

These are exactly the two implications assumed (as instances, for the concrete pairs of dicts compared) in `contracts/c18_equal.py: lcard`.
-/

open Finset

variable {α : Type} [DecidableEq α]

theorem card_keys {n : ℕ} (k : Fin n → α) (h : Function.Injective k) : (univ.image k).card = n := by
  rw [card_image_of_injective _ h, card_univ, Fintype.card_fin]

theorem keys_subset {n₁ n₂ : ℕ} (k₁ : Fin n₁ → α) (k₂ : Fin n₂ → α)
    (sub : ∀ a, (∃ i, k₁ i = a) → ∃ j, k₂ j = a) : univ.image k₁ ⊆ univ.image k₂ := by
  intro a ha
  simp only [mem_image, mem_univ, true_and] at ha ⊢
  exact sub a ha

theorem lcard_le {n₁ n₂ : ℕ} (k₁ : Fin n₁ → α) (k₂ : Fin n₂ → α)
    (h₁ : Function.Injective k₁) (h₂ : Function.Injective k₂)
    (sub : ∀ a, (∃ i, k₁ i = a) → ∃ j, k₂ j = a) : n₁ ≤ n₂ := by
  have hc := card_le_card (keys_subset k₁ k₂ sub)
  rwa [card_keys k₁ h₁, card_keys k₂ h₂] at hc

theorem lcard_eq {n₁ n₂ : ℕ} (k₁ : Fin n₁ → α) (k₂ : Fin n₂ → α)
    (h₁ : Function.Injective k₁) (h₂ : Function.Injective k₂) (hn : n₁ = n₂)
    (sub : ∀ a, (∃ i, k₁ i = a) → ∃ j, k₂ j = a) : ∀ a, (∃ j, k₂ j = a) → ∃ i, k₁ i = a := by
  have hs := keys_subset k₁ k₂ sub
  have hcard : (univ.image k₂).card ≤ (univ.image k₁).card := by
    rw [card_keys k₁ h₁, card_keys k₂ h₂, hn]
  have heq := eq_of_subset_of_card_le hs hcard
  intro a ha
  have : a ∈ univ.image k₂ := by
    simp only [mem_image, mem_univ, true_and]
    exact ha
  rw [← heq] at this
  simpa only [mem_image, mem_univ, true_and] using this
