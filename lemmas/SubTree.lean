import Mathlib.Data.List.Basic
import Mathlib.Order.Basic

/-!
The tree vocabulary of the contracts (`contracts/tree.py`), at the abstract level: nodes with an ordered list of children.

`Below kids n m` (the SMT side calls it Sub(n, m)) — m is n or a descendant of n — is the reflexive-transitive closure of the child relation.  The SMT side uses an uninterpreted
predicate with one-level unfoldings and three closure facts stated as axioms ("by induction"):

* `sub_down`   (unfolding):  `Sub n m → m = n ∨ ∃ c ∈ kids n, Sub c m`
* `sub_up`     (unfolding):  `c ∈ kids n → Sub c m → Sub n m`
* `sub_closed`            :  `Sub n m → c ∈ kids m → Sub n c`
* `sub_nodes`             :  if children of allocated nodes are allocated, everything below an allocated node is allocated
* `sub_height`            :  if a height function decreases along child links, it does not increase along `Sub`

They are proved here from the inductive definition.
-/

inductive Below {α : Type} (kids : α → List α) : α → α → Prop
  | refl (n : α) : Below kids n n
  | step {n c m : α} : c ∈ kids n → Below kids c m → Below kids n m

variable {α : Type}

theorem sub_down (kids : α → List α) {n m : α} (h : Below kids n m) : m = n ∨ ∃ c ∈ kids n, Below kids c m := by
  cases h with
  | refl => exact Or.inl rfl
  | step hc hs => exact Or.inr ⟨_, hc, hs⟩

theorem sub_up (kids : α → List α) {n c m : α} (hc : c ∈ kids n) (hs : Below kids c m) : Below kids n m :=
  Below.step hc hs

theorem sub_trans (kids : α → List α) {a b c : α} (h₁ : Below kids a b) (h₂ : Below kids b c) : Below kids a c := by
  induction h₁ with
  | refl => exact h₂
  | step hc _ ih => exact Below.step hc (ih h₂)

theorem sub_closed (kids : α → List α) {n m c : α} (h : Below kids n m) (hc : c ∈ kids m) : Below kids n c :=
  sub_trans kids h (Below.step hc (Below.refl c))

theorem sub_nodes (kids : α → List α) (alloc : α → Prop) (closed : ∀ n c, alloc n → c ∈ kids n → alloc c)
    {n m : α} (h : Below kids n m) (hn : alloc n) : alloc m := by
  induction h with
  | refl => exact hn
  | step hc _ ih => exact ih (closed _ _ hn hc)

theorem sub_height (kids : α → List α) (height : α → Int) (dec : ∀ n c, c ∈ kids n → height c < height n)
    {n m : α} (h : Below kids n m) : height m ≤ height n := by
  induction h with
  | refl => exact Int.le_refl _
  | step hc _ ih => have := dec _ _ hc; omega
