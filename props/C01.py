"""C01 — child-sequence validation equals the rule's declared content model."""
import itertools, json, os, random, sys, time
sys.path.insert(0, os.path.dirname(os.path.dirname(os.path.abspath(__file__))))
from props import common
from props.common import Bounded, Failure

PID = "C01"
MIXED = {"textRule", "anyNameRule", "paraRule", "subscriptRule", "superscriptRule"}
OTHER_NAME = "~other~"


def shortest_paths(dfa):
    """access word per reachable state, and a shortest accepting suffix per state (or None)"""
    access = {dfa.init: ()}
    queue = [dfa.init]
    while queue:
        q = queue.pop(0)
        for a in dfa.alphabet:
            t = dfa.delta[q][a]
            if t not in access:
                access[t] = access[q] + (a,)
                queue.append(t)
    suffix = {q: () for q in dfa.accepting}
    changed = True
    while changed:
        changed = False
        for q in range(dfa.n):
            if q in suffix:
                continue
            for a in dfa.alphabet:
                t = dfa.delta[q][a]
                if t in suffix:
                    suffix[q] = (a,) + suffix[t]
                    changed = True
                    break
    return access, suffix


def seed_words(spec, tier):
    from contracts import rulelang as RL
    alpha = list(spec.alphabet)
    words = {()}
    for a in alpha:
        words.add((a,))
    if len(alpha) <= 12:
        for L in (2, 3):
            for w in itertools.product(alpha, repeat=L):
                words.add(w)
    else:
        for w in itertools.product(alpha, repeat=2):
            words.add(w)
    for dfa in (spec.dlo, spec.dhi):
        access, suffix = shortest_paths(dfa)
        for q, u in access.items():
            for a in alpha:
                t = dfa.delta[q][a]
                words.add(u + (a,))
                words.add(u + (a, a))
                words.add(u + (a, a, a))
                if suffix.get(t) is not None:
                    words.add(u + (a,) + suffix[t])
                    for b in alpha:
                        t2 = dfa.delta[t][b]
                        if suffix.get(t2) is not None:
                            words.add(u + (a, b) + suffix[t2])
    return [tuple(OTHER_NAME if x == RL.OTHER else x for x in w) for w in words]


def observations_to_table(spec, obs, table):
    from contracts.c01_children import sat
    from contracts import rulelang as RL
    added = 0
    for o in obs:
        if o["err"] or o["path"] is None or any(p is None for p, _ in o["enclosing"]):
            continue
        key = (o["cut"], o["path"], o["limit_max"], tuple(p for p, _ in o["enclosing"]))   # limit_max holds the child index for seq/alt points
        pre = o["word"][: o["cursor"]]
        la = -1 if o["cursor"] >= len(o["word"]) else spec.sym_index.get(o["word"][o["cursor"]], spec.other)
        ent = (sat(o["counter"], spec.caps.get(o["path"], 1)),
               tuple(sat(c, spec.caps.get(p, 1)) for p, c in o["enclosing"]),
               spec.dlo.run(pre), spec.dhi.run(pre), la)
        s = table.setdefault(key, set())
        if ent not in s:
            s.add(ent)
            added += 1
    return added


def trace_words(tracer, spec, words, table):
    added = 0
    for w in words:
        for collecting in (False, True):
            tracer.obs = []
            tracer.run(w, spec.mixed, collecting)
            added += observations_to_table(spec, tracer.obs, table)
    return added


def explore(tracer, spec, table, max_words=200000, max_len=40):
    """native abstract-reachability exploration: extend every word that revealed a new table entry by every symbol"""
    from contracts import rulelang as RL
    alpha = [a if a != RL.OTHER else OTHER_NAME for a in spec.alphabet]
    queue = [()]
    tracer.obs = []
    tracer.run((), spec.mixed, False)
    observations_to_table(spec, tracer.obs, table)
    n = 0
    while queue and n < max_words:
        w = queue.pop(0)
        if len(w) >= max_len:
            continue
        for a in alpha:
            w2 = w + (a,)
            tracer.obs = []
            tracer.run(w2, spec.mixed, False)
            n += 1
            if observations_to_table(spec, tracer.obs, table):
                queue.append(w2)
    return n


def verify(spec, table, collecting, timeout_ms=10000, max_failures=None):
    from pyvc.task import Task
    from contracts.rules_common import rule_world
    from contracts import c01_children
    import metapype.eml.rule as rule_mod
    w = rule_world()
    con = c01_children.install(w, spec, table, collecting)
    p = {"errs": "list:val"} if collecting else {"errs": ("const", None)}
    t = Task(w, rule_mod.Rule._validate_children, con, name=f"C01/{spec.rule_name}/validate_children[{'collecting' if collecting else 'fail-fast'}]",
             params=p, goal_timeout_ms=timeout_ms, max_paths=20000, max_failures=max_failures)
    return t.run()


def words_from_models(res):
    out = []
    for o in res.obs:
        if o.status != "proved" and o.model and "$node:node" in o.model:
            kids = o.model["$node:node"].get("children", [])
            w = tuple(k.get("name") if isinstance(k.get("name"), str) else OTHER_NAME for k in kids)
            out.append(w)
    return out


CACHE_DIR = os.path.join(common.ROOT, "cache", "c01_tables")


def _digest(rule_name, children, mixed):
    import hashlib
    return hashlib.sha256(json.dumps([rule_name, children, mixed], sort_keys=True).encode()).hexdigest()[:20]


def load_cached_table(rule_name, children, mixed):
    """candidate invariant tables from an earlier run (never trusted: they are re-checked as inductive invariants every run)"""
    p = os.path.join(CACHE_DIR, rule_name + ".json")
    if not os.path.exists(p):
        return None
    try:
        d = json.load(open(p))
    except Exception:
        return None
    if d.get("digest") != _digest(rule_name, children, mixed):
        return None
    table = {}
    for k, ents in d["table"]:
        key = (k[0], tuple(k[1]), k[2], tuple(tuple(x) for x in k[3]))
        table[key] = {(e[0], tuple(e[1]), e[2], e[3], e[4]) for e in ents}
    return table


def save_cached_table(rule_name, children, mixed, table):
    if not os.environ.get("VERIF_WRITE_CACHE"):
        return
    os.makedirs(CACHE_DIR, exist_ok=True)
    ser = [[[k[0], list(k[1]), k[2], [list(x) for x in k[3]]], sorted([e[0], list(e[1]), e[2], e[3], e[4]] for e in v)] for k, v in sorted(table.items(), key=str)]
    json.dump({"digest": _digest(rule_name, children, mixed), "table": ser}, open(os.path.join(CACHE_DIR, rule_name + ".json"), "w"))


def task(rule_name, tier="quick", max_rounds=6, only=None):
    """inference (candidate tables) + the deciding check of the final tables, both modes"""
    from contracts.rules_common import load_rules
    from contracts.c01_children import Spec
    from contracts.c01_trace import Tracer
    rules = load_rules()
    spec = Spec(rule_name, rules[rule_name][1], rule_name in MIXED)
    tracer = Tracer(rule_name)
    t0 = time.time()
    table = load_cached_table(rule_name, rules[rule_name][1], rule_name in MIXED)
    from_cache = table is not None
    if table is None:
        table = {}
        explore(tracer, spec, table)
    rounds = 0
    results = None
    while True:
        rounds += 1
        final = rounds >= max_rounds
        if only is not None and from_cache:
            # candidates come from the cache: the two modes are independent checks and run as separate pool tasks
            results = [verify(spec, table, only == "collecting")]
        else:
            results = [verify(spec, table, False, 10000 if final else 3000, None if final else 6)]
            if all(o.status == "proved" for o in results[0].obs) or final:
                results.append(verify(spec, table, True, 10000 if final else 3000, None if final else 6))
        bad = [o for r in results for o in r.obs if o.status != "proved"]
        if os.environ.get("C01_DEBUG"):
            print(f"[{rule_name}] round {rounds}: table={sum(len(v) for v in table.values())} " + " ".join(f"{r.name.split('[')[1]} paths={r.paths} obs={len(r.obs)} bad={sum(1 for o in r.obs if o.status!='proved')} {r.wall:.1f}s" for r in results), flush=True)
            for o in bad[:4]:
                print("    ", o.status, o.name, o.path, str(o.model)[:200], flush=True)
        if not bad:
            save_cached_table(rule_name, rules[rule_name][1], rule_name in MIXED, table)
            break
        if final:
            break
        if from_cache:
            # the cached candidates no longer verify (the code or the rule changed): re-infer from scratch, within a budget
            if only == "collecting":
                return []       # the fail-fast task of this rule does the re-inference and then checks both modes
            from_cache = False
            table = {}
            explore(tracer, spec, table, max_words=4000 if tier == "quick" else 60000)
            max_rounds = rounds + 1
            continue
        new_words = set()
        for r in results:
            for w in words_from_models(r):
                for k in range(len(w) + 1):
                    new_words.add(w[:k])
                for a in list(spec.alphabet)[:-1] + [OTHER_NAME]:
                    new_words.add(w + (a,))
        if not new_words or trace_words(tracer, spec, sorted(new_words), table) == 0:
            break
    for r in results:
        r.functions["<inference>"] = {"inlined": False, "by_contract": False}
        r.assumptions.add(f"inference for {rule_name}: {rounds} round(s), {sum(len(v) for v in table.values())} table entries at {len(table)} cut points, "
                          f"DFA states lo/hi {spec.dlo.n}/{spec.dhi.n}")
    return results


def task_metadata():
    """the documented exception: a parent named `metadata` accepts any single child or none"""
    from pyvc.task import Task
    from contracts.rules_common import rule_world, load_rules
    from contracts import c01_children
    import metapype.eml.rule as rule_mod
    rn = rule_mod.node_mappings.get("metadata")
    out = []
    if rn is None:
        return out
    w = rule_world()
    con = c01_children.install_metadata(w, rn, rn in MIXED, None)
    for mode, p in (("fail-fast", {"errs": ("const", None)}), ("collecting", {"errs": "list:val"})):
        out.append(Task(w, rule_mod.Rule._validate_children, con, name=f"C01/{rn}(metadata)/validate_children[{mode}]", params=p).run())
    return out


def check_word(rname, spec, r, word, naive=True):
    """native oracle for one child sequence: returns a Failure or None"""
    from contracts import rulelang as RL
    from metapype.eml.exceptions import ChildNotAllowedError, MinOccurrenceUnmetError, MaxOccurrenceExceededError
    from metapype.eml.validation_errors import ValidationError as VE
    from metapype.model.node import Node
    Node.store.clear()
    n = Node("x")
    for nm in word:
        c = Node(nm)
        n.children.append(c)
        c.parent = n
    w_abs = tuple(a if a in spec.sym_index else RL.OTHER for a in word)
    in_lo, in_hi = spec.dlo.accepts(w_abs), spec.dhi.accepts(w_abs)
    if naive and (RL.matches(spec.ast, w_abs, False) != in_lo or RL.matches(spec.ast, w_abs, True) != in_hi):
        return Failure("spec:dfa-vs-naive", f"rule {rname}: the automaton and the naive matcher disagree on {word} (spec-side bug)", {"rule": rname, "word": list(word)}, "")
    errs = []
    cexc = fexc = None
    try:
        r._validate_children(n, spec.mixed, errs)
    except Exception as ex:  # noqa
        cexc = type(ex).__name__
    try:
        r._validate_children(n, spec.mixed)
        ff = True
    except (ChildNotAllowedError, MinOccurrenceUnmetError, MaxOccurrenceExceededError):
        ff = False
    except Exception as ex:  # noqa
        ff = False
        fexc = type(ex).__name__
    bad = None
    allowed = (VE.CHILD_NOT_ALLOWED, VE.MIN_OCCURRENCE_UNMET, VE.MAX_OCCURRENCE_EXCEEDED, VE.MIN_CHOICE_UNMET, VE.MAX_CHOICE_EXCEEDED)
    if cexc or fexc:
        bad = ("foreign-exception", f"collecting raised {cexc}, fail-fast raised {fexc}")
    elif any(e[0] not in allowed for e in errs):
        bad = ("foreign-code", f"reported {[e[0].name for e in errs]}")
    else:
        for mode, acc in (("fail-fast", ff), ("collecting", len(errs) == 0)):
            if in_lo and not acc:
                bad = ("rejects-valid", f"{mode} rejects a sequence of the rule's language")
            elif not in_hi and acc:
                bad = ("accepts-invalid", f"{mode} accepts a sequence outside the rule's language")
    if bad:
        return Failure(f"children:{bad[0]}", f"rule {rname}, children {list(word)}: {bad[1]}", {"rule": rname, "children": list(word), "in_L_lo": in_lo, "in_L_hi": in_hi}, bad[1])
    return None


def bounded(tier, seed):
    import logging
    logging.disable(logging.CRITICAL)
    from contracts.rules_common import load_rules
    from contracts.c01_children import Spec
    import metapype.eml.rule as rule_mod
    rules = load_rules()
    b = Bounded("every rule x {all sequences up to length 3 (alphabet <= 12 names) or 2 over its child names plus a foreign name} plus a "
                "transition-cover suite derived from the rule's minimal automata (access word . symbol . symbol . shortest accepting suffix, "
                "and triple repetitions), run through Rule._validate_children in both modes and compared with L_lo / L_hi; the automata are "
                "cross-checked against a naive backtracking matcher on the same sequences")
    b.rule = "a case is (rule, child sequence); non-trivial = the sequence is not empty"
    rnd = random.Random(seed)
    for rname, (A, ch, c) in rules.items():
        spec = Spec(rname, ch, rname in MIXED)
        r = rule_mod.Rule(rname)
        words = seed_words(spec, tier)
        if tier == "quick" and len(words) > 1500:
            words = [()] + rnd.sample(words, 1500)
        for w in words:
            f = check_word(rname, spec, r, w, naive=len(w) <= 6)
            b.note((rname, w), nontrivial=len(w) > 0, sample={"rule": rname, "children": list(w)})
            if f is not None:
                b.failures.append(f)
                if len(b.failures) > 300:
                    return b
    return b


def replay_hook(real):
    import logging
    logging.disable(logging.CRITICAL)
    from contracts.rules_common import load_rules
    from contracts.c01_children import Spec
    import metapype.eml.rule as rule_mod
    rules = load_rules()
    for o in real:
        m = o.get("model") or {}
        desc = m.get("$node:node")
        parts = o.get("task", "").split("/")
        if not desc or len(parts) < 2 or parts[1] not in rules:
            continue
        rname = parts[1]
        word = tuple(k.get("name") if isinstance(k.get("name"), str) else OTHER_NAME for k in desc.get("children", []))
        spec = Spec(rname, rules[rname][1], rname in MIXED)
        f = check_word(rname, spec, rule_mod.Rule(rname), word)
        if f is not None:
            f.what += " (counter-model of obligation %s replayed)" % o["name"]
            return f
    return None


def main(tier, seed):
    t0 = time.time()
    from contracts.rules_common import load_rules
    rules = load_rules()
    # big rules first so that the pool is balanced
    order = sorted(rules, key=lambda r: -len(json.dumps(rules[r][1])))
    specs = []
    for r in order:
        if load_cached_table(r, rules[r][1], r in MIXED) is not None:
            specs.append(("props.C01", "task", {"rule_name": r, "tier": tier, "only": "fail-fast"}))
            specs.append(("props.C01", "task", {"rule_name": r, "tier": tier, "only": "collecting"}))
        else:
            specs.append(("props.C01", "task", {"rule_name": r, "tier": tier}))
    specs.append(("props.C01", "task_metadata", {}))
    results = common.run_tasks(specs, procs=16)
    b = bounded(tier, seed)
    return common.decide(PID, tier, seed, results, b, t0, "DESIGN.md §4 C01", replay_hook=replay_hook, extra_assumptions=[
        "ghost DFA runs st_lo/st_hi over the child-name sequence: step instances at the cursor and the absorbing-dead-state lemma are "
        "assumed (T-unfold, L-dead); the minimal automata come from the spec-side compiler contracts/rulelang.py, cross-checked against "
        "a naive matcher on every bounded-pass sequence",
        "the invariant tables are inferred by native tracing and abstract-reachability exploration; only their check as inductive "
        "invariants (these obligations) counts",
        "termination is proved for the item loop only (cursor strictly increases); termination of the choice loop is not proved",
        "node name is not 'metadata' except in the dedicated metadata task; is_mixed_content is the flag validate_rule computes (checked in C04)"],
        extra_coverage={"rules": len(rules)})
