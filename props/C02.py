"""C02 — content validation decides exactly as the rule's content constraints require."""
import os, sys, time
sys.path.insert(0, os.path.dirname(os.path.dirname(os.path.abspath(__file__))))
from props import common
from props.common import Bounded, Failure

PID = "C02"

# class tables: True = canonical (must be accepted), False = not of the type / out of range (must be rejected),
# None = lenient spelling the Python parsers happen to tolerate (unspecified: only "no foreign exception, modes agree")
FLOATS = {"0": True, "1.5": True, "-3.25": True, "1e3": True, "+2.0": True, ".5": True, "5.": True, "abc": False, "": False,
          "1,5": False, "--1": False, "1.2.3": False, "one": False, "1_000": None, " 1 ": None, "１２": None,
          "nan": None, "inf": None, "-inf": None, "NaN": None, "Infinity": None}


def _range(lo, hi):
    t = {str(lo): True, str(hi): True, "%d.0" % lo: True, "%d.0" % hi: True, "0": True, "%s.999" % (hi - 1): True,
         "%d.0001" % lo: False, "%d.0001" % hi: False, str(hi + 1): False, str(lo - 1): False, "1e9": False,
         "nan": False, "inf": False, "-inf": False, "NaN": False, "Infinity": False, "abc": False, "": False, "1_0": None, " 5 ": None}
    return t


TABLES = {
    "floatContent": FLOATS,
    "floatRangeContent_EW": _range(-180, 180),
    "floatRangeContent_NS": _range(-90, 90),
    "floatContent_Nonnegative": {"0": True, "0.0": True, "-0.0": None, "1e-9": True, "5": True, "-1e-9": False, "-1": False, "-0.5": False,
                                 "nan": False, "NaN": False, "-inf": False, "inf": None, "abc": False, "": False, "1_0": None},
    "intContent": {"0": True, "-5": True, "+7": True, "12": True, "1.0": False, "abc": False, "": False, "1e3": False, "0x10": False,
                   " 4 ": None, "1_0": None, "１": None},
    "timeContent": {"12:30:00": True, "12:30:00.5": True, "23:59:59": True, "00:00:00": True, "24:00:00": False, "12:60:00": False,
                    "abc": False, "": False, "12-30-00": False, "12:30": None, "1230": None, "12": None, "12:30:00+01:00": None},
    "yearDateContent": {"2020": True, "2020-01-31": True, "1999-12-01": True, "2020-13-01": False, "2020-02-30": False, "abc": False,
                        "": False, "2020/01/01": False, "20": False, "2020-1-1": None, "0001": None, "02020": False},
    "uriContent": {"http://example.com": True, "https://a.b/c?d#e": True, "ftp://h/p": True, "mailto:x@y": False, "abc": False, "": False,
                   "http://": False, "//h/p": False, "file:///etc": False, "http://a/\ud800": False, "HTTP://X": None, "http://exa mple.com": None},
    "strContent": {"x": True, "": True, "é中": True, "\ud800": False},
    "emptyContent": {"": False, "x": False},
    "nonEmptyContent": {"x": True, " ": True},
    "anyContent": {"x": True, "": True},
}


def task(rule_name):
    from pyvc.task import Task
    from contracts.rules_common import rule_world, load_rules
    from contracts import c02_content, externals
    import metapype.eml.rule as rule_mod
    rules = load_rules()
    w = rule_world()
    externals.install(w)
    con = c02_content.install(w, rule_name, rules[rule_name][2])
    out = []
    for mode, p in (("fail-fast", {"errs": ("const", None)}), ("collecting", {"errs": "list:val"})):
        out.append(Task(w, rule_mod.Rule._validate_content, con, name=f"C02/{rule_name}/validate_content[{mode}]", params=p).run())
    return out


def expected(K, enum, content, mixed, nkids):
    """True / False / None(unspecified) for one content value"""
    verdicts = []
    for k in K:
        if k not in TABLES:
            verdicts.append(False)
            continue
        if content is None:
            if k == "emptyContent":
                v = True
            elif k == "nonEmptyContent":
                v = bool(mixed and nkids > 0)
            else:
                v = True
        elif k == "nonEmptyContent":
            v = True if len(content) > 0 else bool(mixed and nkids > 0)
        else:
            t = TABLES[k]
            v = t[content] if content in t else "skip"
        verdicts.append(v)
    if enum is not None:
        verdicts.append(content in enum)
    if "skip" in verdicts:
        return "skip"
    if False in verdicts:
        return False
    if None in verdicts:
        return None
    return True


def bounded(tier):
    import logging
    logging.disable(logging.CRITICAL)
    from contracts.rules_common import load_rules
    from metapype.eml import rule as rule_mod
    from metapype.eml.exceptions import MetapypeRuleError
    from metapype.eml.validation_errors import ValidationError as VE
    from metapype.model.node import Node
    rules = load_rules()
    b = Bounded("every rule x the class table of each of its content-rule kinds (canonical, boundary, out-of-range, malformed, "
                "NaN/infinities, lenient-unspecified; boundary values enumerated exactly) x None x {no child, one child}, through "
                "Rule._validate_content in both modes with the mixed-content flag computed as validate_rule computes it")
    b.rule = "a case is (rule, content, children?); non-trivial = content is not None"
    MIXED = (rule_mod.RULE_TEXT, rule_mod.RULE_ANYNAME, rule_mod.RULE_PARA, rule_mod.RULE_SUBSCRIPT, rule_mod.RULE_SUPERSCRIPT)
    for rname, (A, children, cspec) in rules.items():
        K = cspec["content_rules"]
        enum = cspec.get("content_enum")
        r = rule_mod.Rule(rname)
        mixed = rname in MIXED
        cands = {None}
        for k in K:
            cands.update(TABLES.get(k, {}))
        if enum is not None:
            cands.update(enum)
            cands.add("~unlisted~")
        for content in sorted(cands, key=lambda x: (x is not None, x)):
            for nk in (0, 1):
                exp = expected(K, enum, content, mixed, nk)
                if exp == "skip":
                    continue
                Node.store.clear()
                n = Node("x")
                n._content = content
                if nk:
                    n.children.append(Node("c"))
                errs = []
                exc = ff = None
                try:
                    r._validate_content(n, mixed, errs)
                except Exception as ex:  # noqa
                    exc = type(ex).__name__
                # the list a caller passes is shared between validators: an earlier entry must neither be lost nor change the verdict
                earlier = ("earlier", "entry")
                errs2 = [earlier]
                try:
                    r._validate_content(n, mixed, errs2)
                except Exception as ex:  # noqa
                    exc = exc or type(ex).__name__
                canon = lambda es: [tuple("nan" if isinstance(x, float) and x != x else x for x in e) for e in es]   # nan != nan
                if exc is None and (errs2[:1] != [earlier] or canon(errs2[1:]) != canon(errs)):
                    b.failures.append(Failure("content:depends-on-earlier-errors", f"rule {rname}, content {content!r}: with an error list that already "
                                              f"holds an entry the validator appends {len(errs2) - 1} entries instead of {len(errs)} (or loses the earlier one)",
                                              {"rule": rname, "content": content, "children": nk, "mixed": mixed}, str(errs2[1:]), str(errs)))
                try:
                    r._validate_content(n, mixed)
                except MetapypeRuleError:
                    ff = "rule-error"
                except Exception as ex:  # noqa
                    ff = type(ex).__name__
                b.note((rname, content, nk), nontrivial=content is not None, sample={"rule": rname, "content": content, "children": nk, "expected": exp})
                acc_c = (len(errs) == 0)
                bad = None
                if exc is not None or ff not in (None, "rule-error"):
                    bad = f"foreign exception: collecting={exc} fail-fast={ff}"
                elif acc_c != (ff is None):
                    bad = f"modes disagree: collecting accepts={acc_c}, fail-fast={'accepts' if ff is None else 'rejects'}"
                elif exp is not None and acc_c != exp:
                    bad = f"accepts={acc_c} but the constraints say {exp}"
                elif any(not (isinstance(e, tuple) and isinstance(e[0], VE) and e[2] is n) for e in errs):
                    bad = "malformed error tuple"
                if bad:
                    kind = "foreign-exception" if "foreign" in bad else "wrong-verdict"
                    b.failures.append(Failure(f"content:{kind}:{'+'.join(K)}", f"rule {rname}, content {content!r}: {bad}",
                                              {"rule": rname, "content": content, "children": nk, "mixed": mixed}, bad, str(exp)))
    return b


def main(tier, seed):
    t0 = time.time()
    from contracts.rules_common import load_rules
    rules = load_rules()
    specs = [("props.C02", "task", {"rule_name": r}) for r in rules]
    results = common.run_tasks(specs, procs=16)
    b = bounded(tier)
    return common.decide(PID, tier, seed, results, b, t0, "DESIGN.md §4 C02", extra_assumptions=[
        "which strings float()/int()/strptime/time.fromisoformat/rfc3986 accept is decided by those libraries (uninterpreted "
        "predicates in the proof); the canonical / malformed / out-of-range classes named by the property are checked against the "
        "real libraries by the bounded pass only",
        "node.content is None or a str (T-schema; the content setter stringifies)"],
        extra_coverage={"rules": len(rules)})
