"""C03 — attribute validation enforces exactly required / allowed / enumerated."""
import itertools, os, sys, time
sys.path.insert(0, os.path.dirname(os.path.dirname(os.path.abspath(__file__))))
from props import common
from props.common import Bounded, Failure

PID = "C03"


def task(rule_name):
    from pyvc.task import Task
    from contracts.rules_common import rule_world, load_rules
    from contracts import c03_attrs
    import metapype.eml.rule as rule_mod
    rules = load_rules()
    out = []
    w = rule_world()
    con, con_req, con_vals = c03_attrs.install(w, rule_name, rules[rule_name][0])
    R = rule_mod.Rule
    out.append(Task(w, R._validate_attributes, con, name=f"C03/{rule_name}/validate_attributes[fail-fast]", params={"errs": ("const", None)}).run())
    out.append(Task(w, R._validate_attributes, con, name=f"C03/{rule_name}/validate_attributes[collecting]", params={"errs": "list:val"}).run())
    out.append(Task(w, R.is_required_attribute, con_req, name=f"C03/{rule_name}/is_required_attribute").run())
    out.append(Task(w, R.allowed_attribute_values, con_vals, name=f"C03/{rule_name}/allowed_attribute_values").run())
    return out


def check_node(rname, A, r, n):
    """native oracle: Rule._validate_attributes on node n in both modes against the rule's attribute table"""
    from metapype.eml.exceptions import MetapypeRuleError
    from metapype.eml.validation_errors import ValidationError as VE
    exp = []
    for a in A:
        if A[a][0] and a not in n.attributes:
            exp.append(VE.ATTRIBUTE_REQUIRED)
    for a, v in n.attributes.items():
        if a not in A:
            exp.append(VE.ATTRIBUTE_UNRECOGNIZED)
        elif len(A[a]) > 1 and v not in A[a][1:]:
            exp.append(VE.ATTRIBUTE_EXPECTED_ENUM)
    errs = []
    exc = None
    try:
        r._validate_attributes(n, errs)
    except Exception as ex:  # noqa
        exc = type(ex).__name__
    ff = None
    try:
        r._validate_attributes(n)
    except MetapypeRuleError:
        ff = "rule-error"
    except Exception as ex:  # noqa
        ff = type(ex).__name__
    got = [e[0] for e in errs]
    if exc or got != exp or (ff == "rule-error") != bool(exp) or ff not in (None, "rule-error"):
        return Failure("attributes:wrong-verdict", f"rule {rname}: attribute validation disagrees with the rule's attribute table",
                       {"rule": rname, "attributes": dict(n.attributes)}, f"collecting={[e.name for e in got]} exc={exc} failfast={ff}",
                       str([e.name for e in exp]))
    return None


def replay_hook(real):
    """replays the counter-models of failed obligations on the real code"""
    import logging
    logging.disable(logging.CRITICAL)
    from contracts.rules_common import load_rules
    from metapype.eml import rule as rule_mod
    from metapype.model.node import Node
    from pyvc import replay
    rules = load_rules()
    for o in real:
        m = o.get("model") or {}
        desc = m.get("$node:node")
        parts = o.get("task", "").split("/")
        if not desc or len(parts) < 2 or parts[1] not in rules:
            continue
        rname = parts[1]
        n = replay.build_node(desc, Node)
        f = check_node(rname, rules[rname][0], rule_mod.Rule(rname), n)
        if f is not None:
            f.what += " (counter-model of obligation %s replayed)" % o["name"]
            return f
    return None


def bounded(tier):
    """the abstraction named in the property's quantifier, complete per rule, on the real code through validate.node"""
    import logging
    logging.disable(logging.CRITICAL)
    from contracts.rules_common import load_rules
    from metapype.eml import rule as rule_mod, validate
    from metapype.eml.exceptions import MetapypeRuleError
    from metapype.eml.validation_errors import ValidationError as VE
    from metapype.model.node import Node
    rules = load_rules()
    b = Bounded("every rule x every attribute assignment over {absent, each listed value, one unlisted value, the empty string} per declared attribute "
                "x {no foreign attribute, one foreign attribute}, run through Rule._validate_attributes in both modes and through "
                "the introspection queries")
    b.rule = "a case is (rule, assignment); non-trivial = the rule declares an attribute or the assignment has a foreign one"
    for rname, (A, children, content) in rules.items():
        r = rule_mod.Rule(rname)
        names = list(A)
        choices = []
        for a in names:
            vals = A[a][1:]
            choices.append([None] + (list(vals) + ["~unlisted~"] if vals else ["v"]) + [""])     # "" : present with an empty value (None: absent)
        if len(names) > 4 and tier == "quick":
            pass
        for combo in itertools.product(*choices) if names else [()]:
            for foreign in (False, True):
                Node.store.clear()
                n = Node("x")
                for a, v in zip(names, combo):
                    if v is not None:
                        n.add_attribute(a, v)
                if foreign:
                    n.add_attribute("~foreign~", "1")
                f = check_node(rname, A, r, n)
                b.note((rname, combo, foreign), nontrivial=bool(names) or foreign,
                       sample={"rule": rname, "attributes": dict(n.attributes)})
                if f is not None:
                    b.failures.append(f)
        for a in names + ["~foreign~"]:
            try:
                got = (r.is_required_attribute(a), list(r.allowed_attribute_values(a)))
            except Exception:
                got = "raised"
            exp = (A[a][0], list(A[a][1:])) if a in A else "raised"
            b.note((rname, "introspect", a), nontrivial=True)
            if got != exp:
                b.failures.append(Failure("attributes:introspection", f"rule {rname}: introspection of {a} disagrees with what validation enforces",
                                          {"rule": rname, "attribute": a}, str(got), str(exp)))
    return b


def main(tier, seed):
    t0 = time.time()
    from contracts.rules_common import load_rules
    rules = load_rules()
    specs = [("props.C03", "task", {"rule_name": r}) for r in rules]
    results = common.run_tasks(specs, procs=16)
    b = bounded(tier)
    return common.decide(PID, tier, seed, results, b, t0, "DESIGN.md §4 C03", extra_assumptions=[
        "node.attributes is a well-formed dict with string keys and string values (T-schema)",
        "the spec side reads rules.json independently of rule.py (json.load on the same file)"], replay_hook=replay_hook,
        extra_coverage={"rules": len(rules)})
