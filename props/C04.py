"""C04 — validation is total: only rule errors escape, collecting mode never raises, both modes agree."""
import copy, itertools, os, random, sys, time
sys.path.insert(0, os.path.dirname(os.path.dirname(os.path.abspath(__file__))))
from props import common
from props.common import Bounded, Failure

PID = "C04"
MIXED = {"textRule", "anyNameRule", "paraRule", "subscriptRule", "superscriptRule"}


def task(rule_name):
    """validate_rule for the rule (sub-validators by their C01-C03 contracts) and validate.node for the names mapped to it"""
    from pyvc.task import Task
    from contracts.rules_common import rule_world, load_rules
    from contracts import c04_total
    import metapype.eml.rule as rule_mod
    from metapype.eml import validate
    rules = load_rules()
    names = [n for n, r in rule_mod.node_mappings.items() if r == rule_name]
    out = []
    if not names:
        from contracts.c01_children import Spec
        sp = Spec(rule_name, rules[rule_name][1], rule_name in MIXED)
        if sp.dlo.delta != sp.dhi.delta or sp.dlo.accepting != sp.dhi.accepting:
            # no element name maps to this rule, so validate.node/tree never use it, and its language has the gap the property leaves
            # unspecified (L_lo != L_hi): mode agreement cannot be phrased over one predicate; C01 still covers its child matching
            return out
    variants = []
    if [n for n in names if n != "metadata"] or not names:
        variants.append((False, [n for n in names if n != "metadata"]))
    if "metadata" in names:
        variants.append((True, ["metadata"]))
    for metadata, nms in variants:
        w = rule_world()
        vr = c04_total.install_rule(w, rule_name, rules, MIXED, {}, metadata)
        tag = f"C04/{rule_name}" + ("(metadata)" if metadata else "")
        for mode, p in (("fail-fast", {"errs": ("const", None)}), ("collecting", {"errs": "list:val"})):
            out.append(Task(w, rule_mod.Rule.validate_rule, vr, name=f"{tag}/validate_rule[{mode}]", params=p).run())
        if nms:
            nc = c04_total.install_node(w, vr, nms, list(rule_mod.node_mappings))
            for mode, p in (("fail-fast", {"errs": ("const", None)}), ("collecting", {"errs": "list:val"})):
                out.append(Task(w, validate.node, nc, name=f"{tag}/validate.node[{mode}]", params=p, max_paths=20000).run())
    return out


def task_unknown():
    from pyvc.task import Task
    from contracts.rules_common import rule_world
    from contracts import c04_total
    import metapype.eml.rule as rule_mod
    from metapype.eml import validate
    w = rule_world()
    nc = c04_total.install_node(w, None, [], list(rule_mod.node_mappings))
    out = []
    for mode, p in (("fail-fast", {"errs": ("const", None)}), ("collecting", {"errs": "list:val"})):
        out.append(Task(w, validate.node, nc, name=f"C04/unknown-name/validate.node[{mode}]", params=p).run())
    return out


def task_tree():
    from pyvc.task import Task
    from contracts.rules_common import rule_world
    from contracts import c04_total
    from metapype.eml import validate
    w = rule_world()
    tc = c04_total.install_tree(w)
    out = []
    for mode, p in (("fail-fast", {"errs": ("const", None)}), ("collecting", {"errs": "list:val"})):
        out.append(Task(w, validate.tree, tc, name=f"C04/validate.tree[{mode}]", params=p).run())
    return out


# ------------------------------------------------------------------------------------------------ bounded native pass
def check_tree(t, what, b, key_hint):
    """oracle of C04 on one real tree; appends to b.failures"""
    from metapype.eml import validate
    from metapype.eml.exceptions import MetapypeRuleError
    from metapype.eml.validation_errors import ValidationError as VE
    from props import native as nat
    errs = []
    cexc = None
    try:
        validate.tree(t, errs)
    except Exception as ex:  # noqa
        cexc = f"{type(ex).__name__}: {ex}"
    fexc = None
    try:
        validate.tree(t)
        ff = True
    except MetapypeRuleError:
        ff = False
    except RecursionError:
        return
    except Exception as ex:  # noqa
        ff = False
        fexc = f"{type(ex).__name__}: {ex}"
    bad = None
    if cexc:
        bad = ("collecting-raises", f"collecting mode raised {cexc}")
    elif fexc:
        bad = ("foreign-exception", f"fail-fast mode let {fexc} escape")
    elif (len(errs) == 0) != ff:
        bad = ("modes-disagree", f"collecting reports {len(errs)} errors, fail-fast {'succeeds' if ff else 'raises'}")
    elif any(not (isinstance(e, tuple) and len(e) >= 3 and isinstance(e[0], VE) and isinstance(e[1], str) and hasattr(e[2], "children")) for e in errs):
        bad = ("malformed-tuple", "an appended entry is not (code, message, node, ...)")
    if bad:
        b.failures.append(Failure(f"total:{bad[0]}:{key_hint}", bad[1], {"what": what, "tree": nat.describe(t)}, bad[1]))


def bounded(tier, seed):
    import logging
    logging.disable(logging.CRITICAL)
    from metapype.model.node import Node
    from metapype.model import metapype_io
    from props import native as nat
    b = Bounded("all trees with <= 3 nodes over names {eml, dataset, title, metadata, para, boundingCoordinates-child, ~unknown~} x content "
                "palette {None, 'x', '', 'nan', lone surrogate} x attribute palette; plus adversarial mutations (drop, duplicate, swap, rename, "
                "corrupt content/attributes) of tests/data/eml.xml; validate.tree in both modes")
    b.rule = "a case is one tree; non-trivial = more than one node or non-default content/attributes"
    names = ["eml", "dataset", "title", "metadata", "para", "westBoundingCoordinate", "references", "url", "~unknown~", "Unknown"]
    contents = [None, "x", "", "nan", "a\ud800b", "181", "http://a/\ud800"]
    attrs = [{}, {"id": "1"}, {"~bad~": "v"}, {"packageId": "p", "system": "s"}]
    maxn = 2 if tier == "quick" else 3
    for n in range(1, maxn + 1):
        for shape in nat.shapes(n):
            paths = list(nat.paths_of(shape))
            for combo in itertools.product(names, repeat=len(paths)):
                for ci, ai in itertools.product(range(len(contents)), range(len(attrs))) if n <= 2 else [(0, 0), (1, 1), (3, 2)]:
                    Node.store.clear()
                    spec = {p: {"name": combo[i], "content": contents[(ci + i) % len(contents)], "attributes": attrs[(ai + i) % len(attrs)]} for i, p in enumerate(paths)}
                    t = nat.build(shape, lambda p: spec[p])
                    b.note((shape, combo, ci, ai), nontrivial=n > 1 or ci or ai)
                    check_tree(t, "enumerated", b, combo[0])
    # adversarial mutations of the shipped document
    xml_path = os.path.join(common.REPO, "tests/data/eml.xml")
    if os.path.exists(xml_path):
        rnd = random.Random(seed)
        xml = open(xml_path, encoding="utf-8").read()
        for k in range(150 if tier == "quick" else 3000):
            Node.store.clear()
            t = metapype_io.from_xml(xml)
            nodes = []
            t.find_all_descendants  # noqa
            stack = [t]
            while stack:
                x = stack.pop()
                nodes.append(x)
                stack.extend(x.children)
            muts = []
            for _ in range(rnd.randint(1, 3)):
                x = rnd.choice(nodes)
                m = rnd.choice(["drop", "dup", "swap", "rename", "content", "attr", "attrval"])
                muts.append((m, x.name))
                if m == "drop" and x.parent is not None:
                    if x in x.parent.children:
                        x.parent.children.remove(x)
                elif m == "dup" and x.parent is not None:
                    c = x.copy()
                    x.parent.children.insert(x.parent.children.index(x) if x in x.parent.children else 0, c)
                    c.parent = x.parent
                elif m == "swap" and len(x.children) >= 2:
                    i, j = rnd.sample(range(len(x.children)), 2)
                    x.children[i], x.children[j] = x.children[j], x.children[i]
                elif m == "rename":
                    x.name = rnd.choice(names + ["surName", "creator", "keyword"])
                elif m == "content":
                    x._content = rnd.choice(contents + ["abc", "-5", "2020-13-40", "http://", " "])
                elif m == "attr":
                    x.add_attribute(rnd.choice(["id", "~bad~", "scope", "system"]), rnd.choice(["x", "document", ""]))
                elif m == "attrval" and x.attributes:
                    k2 = rnd.choice(list(x.attributes))
                    x.attributes[k2] = "~unlisted~"
            b.note(("mut", k), nontrivial=True, sample={"mutations": muts})
            check_tree(t, f"mutations of eml.xml: {muts}", b, "mutation")
    return b


def main(tier, seed):
    t0 = time.time()
    import metapype.eml.rule as rule_mod
    from contracts.rules_common import load_rules
    rules = load_rules()
    specs = [("props.C04", "task", {"rule_name": r}) for r in rules]
    specs.append(("props.C04", "task_unknown", {}))
    specs.append(("props.C04", "task_tree", {}))
    results = common.run_tasks(specs, procs=16)
    b = bounded(tier, seed)
    return common.decide(PID, tier, seed, results, b, t0, "DESIGN.md §4 C04", extra_assumptions=[
        "the three sub-validators enter validate_rule by the contracts proved in C01 (children), C02 (content), C03 (attributes); validate.node "
        "enters validate.tree by the contract proved here per rule",
        "A-rec: no RecursionError (tree depth <= 100 as in the property's quantifier)",
        "a node's name is a str, its content None or a str, its attributes a dict of strings (T-schema)"],
        extra_coverage={"rules": len(rules)})
