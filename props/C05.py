"""C05 — whole-tree validation is the conjunction of node validations; metadata is opaque."""
import itertools, os, sys, time
sys.path.insert(0, os.path.dirname(os.path.dirname(os.path.abspath(__file__))))
from props import common
from props.common import Bounded, Failure

PID = "C05"


def task_tree():
    from props import C04
    res = C04.task_tree()
    for r in res:
        r.name = r.name.replace("C04/", "C05/")
    return res


PALETTE = {
    "ok": lambda N: N("title", content="t"),
    "bad-content": lambda N: N("title"),                 # title needs content
    "unknown": lambda N: N("~unknown~"),
    "metadata": lambda N: N("metadata"),
    "extra-attr": lambda N: _with_attr(N("title", content="t")),
    "metadataProvider": lambda N: N("metadataProvider"),  # names that merely resemble "metadata" are not opaque
    "additionalMetadata": lambda N: N("additionalMetadata"),
    "dataset": lambda N: N("dataset"),                    # invalid on its own (children missing): several errors
}


def _with_attr(n):
    n.add_attribute("~bad~", "1")
    return n


def expected_errors(n, validate):
    """independent composition: per-node error lists concatenated in document order, cut below metadata"""
    out = []
    e = []
    validate.node(n, e)
    out.extend(e)
    if n.name != "metadata":
        for c in n.children:
            out.extend(expected_errors(c, validate))
    return out


def sig(errs):
    return [(e[0].name, id(e[2])) for e in errs]


def bounded(tier):
    import logging
    logging.disable(logging.CRITICAL)
    from metapype.eml import validate
    from metapype.eml.exceptions import MetapypeRuleError
    from metapype.model.node import Node
    from props import native as nat
    maxn = 3 if tier == "quick" else 4
    b = Bounded(f"all trees with <= {maxn} nodes over the palette {sorted(PALETTE)} (valid leaf, node with one error, node with several errors, "
                "unknown name, metadata parent): validate.tree versus the document-order concatenation of validate.node cut below metadata, in "
                "both modes; plus arbitrary foreign subtrees planted under every metadata node (opaqueness)")
    b.rule = "a case is one tree; non-trivial = more than one node"
    kinds = sorted(PALETTE)
    for n in range(1, maxn + 1):
        for shape in nat.shapes(n):
            paths = list(nat.paths_of(shape))
            for combo in itertools.product(kinds, repeat=len(paths)):
                Node.store.clear()
                nodes = {}

                def mk(path):
                    return PALETTE[combo[paths.index(path)]](Node)
                root = None
                for p in paths:
                    x = mk(p)
                    nodes[p] = x
                    if p == ():
                        root = x
                    else:
                        par = nodes[p[:-1]]
                        par.children.append(x)
                        x.parent = par
                got = []
                exc = None
                try:
                    validate.tree(root, got)
                except Exception as ex:  # noqa
                    exc = type(ex).__name__
                exp = expected_errors(root, validate)
                try:
                    validate.tree(root)
                    ff = True
                except MetapypeRuleError:
                    ff = False
                b.note((shape, combo), nontrivial=n > 1, sample={"shape": str(shape), "kinds": list(combo), "errors": len(exp)})
                bad = None
                if exc:
                    bad = f"collecting mode raised {exc}"
                elif sig(got) != sig(exp):
                    bad = f"tree reports {[s[0] for s in sig(got)]}, per-node concatenation is {[s[0] for s in sig(exp)]}"
                elif ff != (len(exp) == 0):
                    bad = f"fail-fast {'succeeds' if ff else 'raises'} although the per-node conjunction is {len(exp) == 0}"
                if bad is None:
                    # opaqueness: junk under every metadata node must not change anything
                    mds = [x for x in nodes.values() if x.name == "metadata" and len(x.children) == 1]
                    for md in mds:
                        junk = Node("~junk~", content="zz")
                        junk.add_attribute("q", "1")
                        md.children[0].children.append(junk)
                    if mds:
                        got2 = []
                        validate.tree(root, got2)
                        if sig(got2) != sig(got):
                            bad = "content below a metadata element changed the outcome"
                if bad:
                    b.failures.append(Failure("tree:" + bad.split(" ")[0], bad, {"tree": nat.describe(root)}, bad))
                    if len(b.failures) > 100:
                        return b
    return b


def main(tier, seed):
    t0 = time.time()
    results = common.run_tasks([("props.C05", "task_tree", {})])
    b = bounded(tier)
    return common.decide(PID, tier, seed, results, b, t0, "DESIGN.md §4 C05", extra_assumptions=[
        "validate.node enters by contract (proved per rule in C04): total, rule-error family only, appends node_error_count(n) tuples about n, "
        "zero exactly when fail-fast succeeds; its read frame (own fields, attribute dict, child names; only the child count when n is "
        "metadata) is not proved here: opaqueness below metadata follows from the structure of tree_valid/tree_error_count, which never "
        "mention anything below a metadata node, and is additionally exercised by the bounded pass",
        "document order: the error *count* is proved to be the left-to-right sum with earlier entries kept and every new entry about a node of "
        "the subtree; the element-wise concatenation is checked by the bounded pass only",
        "errs is not the children list of any node"])
