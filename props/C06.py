"""C06 — JSON save/load reproduces the tree exactly."""
import itertools, json, os, random, sys, time
sys.path.insert(0, os.path.dirname(os.path.dirname(os.path.abspath(__file__))))
from props import common
from props.common import Bounded, Failure

PID = "C06"


def task(which):
    from pyvc.task import Task
    from contracts.prelude import make_world
    from contracts import c06_json
    from metapype.model import metapype_io, mp_io
    w = make_world()
    if which == "serialize":
        con = c06_json.install_serializer(w, c06_json.IO + "_serialize", c06_json.SLOTS8)
        return Task(w, metapype_io._serialize, con, name="C06/metapype_io._serialize").run()
    con = c06_json.install_serializer(w, c06_json.MP + "objectify", c06_json.SLOTS4)
    return Task(w, mp_io.objectify, con, name="C06/mp_io.objectify").run()


def task_loader(with_parent, shard=None, preload=None):
    """_from_dict up to its children loop: the reader takes every field from the slot the writer puts it in"""
    from pyvc.task import Task
    from contracts.prelude import make_world
    from contracts import c06_loader
    from metapype.model import metapype_io
    w = make_world()
    con = c06_loader.install(w, with_parent)
    nm = f"C06/metapype_io._from_dict[one node, {'with' if with_parent else 'without'} parent"
    if shard is not None:
        nm += "; paths " + "".join("T" if b else "F" for b in shard[1]) + " at the first if-statements"
    return Task(w, metapype_io._from_dict, con, name=nm + "]", max_paths=20000, shard=(shard[0], tuple(shard[1])) if shard else None, preload=preload).run()


def task_legacy_loader(with_parent):
    from pyvc.task import Task
    from contracts.prelude import make_world
    from contracts import c06_loader
    from metapype.model import mp_io
    w = make_world()
    con = c06_loader.install_legacy(w, with_parent)
    return Task(w, mp_io.from_json, con, name=f"C06/mp_io.from_json[one node, {'with' if with_parent else 'without'} parent]").run()


def full_snapshot(n):
    return (n.id, n.name, n.content, n.tail, n.prefix, tuple(n.attributes.items()), tuple(n.nsmap.items()), tuple(n.extras.items()),
            tuple(full_snapshot(c) for c in n.children))


def legacy_snapshot(n):
    return (n.id, n.name, n.content, tuple(n.attributes.items()), tuple(legacy_snapshot(c) for c in n.children))


def parents_ok(n):
    return all(c.parent is n and parents_ok(c) for c in n.children)


def bounded(tier, seed):
    import logging
    logging.disable(logging.CRITICAL)
    from metapype.model.node import Node
    from metapype.model import metapype_io, mp_io
    from contracts.c06_json import load_converter
    from props import native as nat
    to_20210209, _, _ = load_converter()
    maxn = 3 if tier == "quick" else 4
    b = Bounded(f"all tree shapes with <= {maxn} nodes x a field palette (None / empty / Unicode incl. astral and control characters in every text field, "
                "attribute and extras values, namespace maps that include the parent's prefixes, some re-declared): metapype_io from_json(to_json(t)) "
                "field by field incl. ids, parent links and registry, identical re-serialisation with several indents; the legacy mp_io codec on the "
                "fields it carries; a legacy document upgraded by to_20210209 (extracted from utils/convert.py) loads as the same tree with empty "
                "namespace data; ten kinds of normalisation-/folding-/stripping-/escape-sensitive text (decomposed, compatibility, special-casing, invisible and "
                "separator characters, escape and JSON-literal look-alikes) in each of eleven text fields, one at a time; tests/data/eml.xml through all three")
    b.rule = "a case is (shape, palette variant, codec); non-trivial = more than one node or a non-default field"
    texts = [None, "", "plain", "ünï©ödé ✓", "quote\" back\\slash /  ", "\U0001F600 astral", "tab\tnl\n", " lead/trail "]
    rnd = random.Random(seed)

    def namer(variant):
        def f(path):
            r = random.Random(hash((variant, path)) & 0xFFFF)
            ns = {"p": "http://u/p"}
            for i in range(len(path)):
                if (variant + i) % 3 == 0:
                    ns["q%d" % i] = "http://u/q%d" % i
            if variant % 4 == 1 and path:
                ns["p"] = "http://u/redeclared"
            return {"name": r.choice(["a", "b", "dataset", "ü"]), "content": r.choice(texts), "tail": r.choice(texts), "prefix": r.choice([None, "p"]),
                    "attributes": {r.choice(["id", "x", "ä"]): r.choice([t for t in texts if t is not None])} if variant % 2 else {},
                    "extras": {"xml:lang": r.choice([t for t in texts if t is not None])} if variant % 3 == 0 else {}, "nsmap": ns}
        return f

    def cumulative_ns(root):
        # the invariant every import and attach establishes: a node's prefixes include its parent's
        def walk(n, inherited):
            m = dict(inherited)
            m.update(n.nsmap)
            n.nsmap = m
            for c in n.children:
                walk(c, m)
        walk(root, {})

    for n in range(1, maxn + 1):
        for shape in nat.shapes(n):
            for variant in range(6 if tier == "quick" else 24):
                Node.store.clear()
                t = nat.build(shape, namer(variant))
                cumulative_ns(t)
                snap = full_snapshot(t)
                for indent in (None, 2):
                    b.note((shape, variant, "current", indent), nontrivial=True, sample={"shape": str(shape), "variant": variant, "codec": "metapype_io"})
                    bad = None
                    try:
                        js = metapype_io.to_json(t, indent)
                        Node.store.clear()
                        t2 = metapype_io.from_json(js)
                    except Exception as ex:  # noqa
                        b.failures.append(Failure("json:raises", f"the JSON codec raised {type(ex).__name__}: {ex}", {"tree": nat.describe(t)}, str(ex)))
                        continue
                    if full_snapshot(t2) != snap:
                        bad = "the reloaded tree differs from the original"
                    elif not parents_ok(t2) or t2.parent is not None:
                        bad = "parent links of the reloaded tree are wrong"
                    elif metapype_io.to_json(t2, indent) != js:
                        bad = "re-serialising the reloaded tree gives a different JSON text"
                    elif any(Node.get_node_instance(x[0]) is None for x in [full_snapshot(t2)]):
                        bad = "reloaded nodes are not registered"
                    if bad:
                        b.failures.append(Failure("json:roundtrip", bad, {"tree": nat.describe(t), "indent": indent}, bad))
                # legacy codec on its four fields
                lsnap = legacy_snapshot(t)
                b.note((shape, variant, "legacy"), nontrivial=True)
                try:
                    ljs = mp_io.to_json(t)
                    Node.store.clear()
                    t3 = mp_io.from_json(json.loads(ljs))
                    lbad = legacy_snapshot(t3) != lsnap or not parents_ok(t3) or mp_io.to_json(t3) != ljs
                except Exception as ex:  # noqa
                    lbad = True
                    ljs = "{}"
                if lbad:
                    b.failures.append(Failure("json:legacy", "the legacy codec does not reproduce id / name / attributes / content / children", {"tree": nat.describe(t)}, ""))
                # upgrade
                b.note((shape, variant, "upgrade"), nontrivial=True)
                try:
                    model = json.loads(ljs)
                    to_20210209(model)
                    Node.store.clear()
                    t4 = metapype_io.from_json(json.dumps(model))
                    ok = legacy_snapshot(t4) == lsnap and all(x.nsmap == {} and x.extras == {} and x.prefix is None and x.tail is None for x in _all(t4)) and parents_ok(t4)
                except Exception as ex:  # noqa
                    ok = False
                if not ok:
                    b.failures.append(Failure("json:upgrade", "a legacy document upgraded by to_20210209 does not load as the same tree with empty namespace data",
                                              {"tree": nat.describe(t)}, ""))
    # text that a normalising, folding, stripping or re-encoding step would change, in every text-carrying field, one at a time (seeded/C06d:
    # ensure_ascii=False on the way out + NFC normalisation of the document on the way in only shows on decomposed characters)
    sensitive = ["Cafe\u0301 A\u030a", "\ufb01 \uff46\uff55\uff4c\uff4c \u2460 \u00bd", "MiXeD \u0130\u0131 \u00df", "\u00a0nbsp\u2028ls\u2029ps\u200bzw\ufeff",
                 "cr\r\nlf\x0b\x0c\x1f\x7f", "\\u00e9 &amp; %41 \\n", "\u05d0\u202elt\u0157\u0301", "1e3", "true", "null"]
    fields = ["name", "content", "tail", "prefix", "attr_key", "attr_value", "extras_key", "extras_value", "ns_prefix", "ns_uri", "id"]
    for s, f in itertools.product(sensitive, fields):
        Node.store.clear()
        root = Node("dataset", id="r" if f != "id" else s + "0")
        kid = Node(s if f == "name" else "a", id=s if f == "id" else "k")
        kid.content = s if f == "content" else "plain"
        kid.tail = s if f == "tail" else None
        pre = s if f in ("prefix", "ns_prefix") else "p"
        root.nsmap = {pre: s if f == "ns_uri" else "http://u/p"}
        kid.nsmap = dict(root.nsmap)
        kid.prefix = pre if f == "prefix" else None
        kid.attributes = {s if f == "attr_key" else "x": s if f == "attr_value" else "v"}
        kid.extras = {s if f == "extras_key" else "xml:lang": s if f == "extras_value" else "en"}
        root.add_child(kid)
        last = Node("b", id="z", content=s + s)
        root.add_child(last)
        snap = full_snapshot(root)
        b.note(("sensitive", s, f), nontrivial=True, sample={"text": s, "field": f, "codec": "metapype_io"})
        try:
            js = metapype_io.to_json(root)
            Node.store.clear()
            t2 = metapype_io.from_json(js)
            bad = None
            if full_snapshot(t2) != snap:
                bad = "the reloaded tree differs from the original"
            elif not parents_ok(t2):
                bad = "parent links of the reloaded tree are wrong"
            elif metapype_io.to_json(t2) != js:
                bad = "re-serialising the reloaded tree gives a different JSON text"
        except Exception as ex:  # noqa
            bad = f"the JSON codec raised {type(ex).__name__}: {ex}"
        if bad:
            b.failures.append(Failure("json:roundtrip", bad + f" (text {s!r} in field {f})", {"tree": nat.describe(root), "text": s, "field": f}, bad))
        if f in ("name", "content", "attr_key", "attr_value", "id"):
            b.note(("sensitive-legacy", s, f), nontrivial=True)
            try:
                lsnap = legacy_snapshot(root)
                ljs = mp_io.to_json(root)
                Node.store.clear()
                t3 = mp_io.from_json(json.loads(ljs))
                lbad = legacy_snapshot(t3) != lsnap or not parents_ok(t3) or mp_io.to_json(t3) != ljs
            except Exception as ex:  # noqa
                lbad = True
            if lbad:
                b.failures.append(Failure("json:legacy", f"the legacy codec does not reproduce text {s!r} in field {f}", {"tree": nat.describe(root), "text": s, "field": f}, ""))
    xml_path = os.path.join(common.REPO, "tests/data/eml.xml")
    if os.path.exists(xml_path):
        Node.store.clear()
        t = metapype_io.from_xml(open(xml_path, encoding="utf-8").read())
        snap = full_snapshot(t)
        js = metapype_io.to_json(t)
        Node.store.clear()
        t2 = metapype_io.from_json(js)
        b.note(("fixture",), True)
        if full_snapshot(t2) != snap or metapype_io.to_json(t2) != js:
            b.failures.append(Failure("json:roundtrip", "tests/data/eml.xml does not survive the JSON round trip", {}, ""))
    return b


def _all(n):
    out = [n]
    for c in n.children:
        out.extend(_all(c))
    return out


def main(tier, seed):
    t0 = time.time()
    results = common.run_tasks([("props.C06", "task", {"which": w}) for w in ("serialize", "objectify")] +
                               [("props.C06", "task_legacy_loader", {"with_parent": p}) for p in (False, True)])
    # ~900 paths per variant (None / not None for six slots times the loop paths): partitioned by the first three `if` decisions
    shards = [("props.C06", "task_loader", {"with_parent": p, "shard": ["if", list(bits)]}) for p in (False, True) for bits in itertools.product((True, False), repeat=3)]
    results += common.run_sharded(shards, "C06._from_dict")
    b = bounded(tier, seed)
    return common.decide(PID, tier, seed, results, b, t0, "DESIGN.md §4 C06", extra_assumptions=[
        "proved: the positional layout written by metapype_io._serialize (eight slots) and mp_io.objectify (four slots): one key (the node's name), "
        "every slot a fresh single-key dict holding exactly the node's field (the node's own dict objects for nsmap / attributes / extras), the "
        "children slot a fresh list of nkids fresh dicts; nothing pre-existing written; recursion against the function's own contract",
        "proved: metapype_io._from_dict up to its children loop, for a dict with that layout (precondition): the node built so far is fresh, named by the "
        "key, registered under the id of slot 0, linked to the given parent, carries the prefix / content / tail of their slots and dictionaries with "
        "exactly the items of the nsmap / attributes / extras slots; the children are read from slot 7 — writer and reader agree slot by slot; the same for the legacy reader "
        "mp_io.from_json and its four slots. From the children loop on, both readers are NOT VERIFIED (recursion, add_child with its namespace step)",
        "BOUNDED, not proved: the rest of the loaders (children, mp_io.from_json — their callees Node.__init__, add_namespace, add_child are proved in "
        "C14/C13/C09), the recursive composition serialise/load (the composition lemma over JSON structures was not attempted), json.dumps / "
        "json.loads themselves (A-json), and the converter to_20210209 (extracted mechanically from utils/convert.py, which cannot be imported)"])
