"""C07 — XML export is well-formed and round-trips the tree."""
import itertools, os, random, sys, time
sys.path.insert(0, os.path.dirname(os.path.dirname(os.path.abspath(__file__))))
from props import common
from props.common import Bounded, Failure

PID = "C07"


def task(which):
    from pyvc.task import Task
    from contracts.prelude import make_world
    from contracts import c07_xml, c11_frames
    from metapype.model import metapype_io
    w = make_world()
    if which == "_nsp_unique":
        con = c07_xml.install_nsp_unique(w)
        return Task(w, metapype_io._nsp_unique, con, name="C07/metapype_io._nsp_unique").run()
    fs = c11_frames.install(w)
    f, con = fs[which]
    return Task(w, f, con, name=f"C07/frame:{which}").run()


VALUES = ["plain", "a<b", "x>y", "r&d", 'say "hi"', "it's", "&amp; already", "<para>p</para>", "ünï ✓ \U0001F600", "", " lead", "]]>", "a  b",
          # text that merely looks like an entity or a character reference is ordinary text and must come back as it is
          "type &quot;yes&quot;", "it&apos;s", "R&D &apos; & co", "&#38; &#x26;", "&nbsp;"]


def bounded(tier, seed):
    import logging
    logging.disable(logging.CRITICAL)
    import xml.etree.ElementTree as ET
    from lxml import etree
    from metapype.model.node import Node
    from metapype.model import metapype_io
    from metapype.eml import export
    from props import native as nat
    maxn = 3 if tier == "quick" else 4
    b = Bounded(f"all tree shapes with <= {maxn} nodes over XML-legal names, prefixes bound in the node's namespace map (some re-declared in subtrees), "
                f"values from {len(VALUES)} strings containing < > & both quotes, ]]>, non-ASCII and astral characters in attribute, qualified-attribute, "
                "namespace-URI, content and tail positions: both exporters' output parsed by lxml and by expat (xml.etree); the general exporter's "
                "output re-imported with from_xml and compared (names, prefixes, attributes, extras, namespace bindings, order, text up to surrounding "
                "whitespace); the EML exporter on trees without mixed content and without the pre-escaped spellings it special-cases")
    b.rule = "a case is (shape, value assignment, exporter); non-trivial = some value needs escaping"
    rnd = random.Random(seed)

    def norm(t):
        return None if t is None or t.strip() == "" else t.strip()

    def snap(n, with_ns=True):
        return (n.name, n.prefix if with_ns else None, tuple(sorted(n.attributes.items())), tuple(sorted(n.extras.items())) if with_ns else (),
                tuple(sorted(n.nsmap.items())) if with_ns else (), norm(n.content), norm(n.tail) if with_ns else None, tuple(snap(c, with_ns) for c in n.children))

    for n in range(1, maxn + 1):
        for shape in nat.shapes(n):
            paths = list(nat.paths_of(shape))
            for trial in range(12 if tier == "quick" else 120):
                Node.store.clear()
                r = random.Random(hash((shape, trial, seed)) & 0xFFFFFF)
                special = trial % 2 == 0

                def fields(path):
                    v = lambda: r.choice(VALUES if special else ["plain", "v"])
                    ns = {"p": "http://u/" + r.choice(["p", "p?a=1&b=2", "p'q", "%C3%BC"])}
                    if path and r.random() < 0.4:
                        ns["q"] = "http://u/q" + str(len(path))
                    has_kids = any(p[:-1] == path for p in paths if p)
                    return {"name": r.choice(["a", "b", "c-d", "e.f"]), "prefix": r.choice([None, "p"]), "nsmap": ns,
                            "attributes": {k: v() for k in r.sample(["id", "x", "y"], r.randint(0, 2))},
                            "extras": {"p:att": v()} if r.random() < 0.4 else {},
                            "content": None if ((has_kids and r.random() < 0.7) or (not has_kids and r.random() < 0.3)) else (v() or None),     # incl. empty elements
                            "tail": None if not path else r.choice([None, v() or None])}
                t = nat.build(shape, fields)
                # namespace invariant of imports/attaches: a node's prefixes include its parent's
                def cum(x, inh):
                    m = dict(inh)
                    m.update(x.nsmap)
                    x.nsmap = m
                    for c in x.children:
                        cum(c, m)
                cum(t, {})
                for x in [t] + [nat.node_at(t, p) for p in paths if p]:
                    if x.prefix is not None and x.prefix not in x.nsmap:
                        x.prefix = None
                before = snap(t)
                b.note((shape, trial, "general"), nontrivial=special, sample={"shape": str(shape), "trial": trial, "exporter": "metapype_io.to_xml"})
                try:
                    xml = metapype_io.to_xml(t)
                    etree.fromstring(xml.encode("utf-8"))
                    ET.fromstring(xml)
                    Node.store.clear()
                    back = metapype_io.from_xml(xml)
                    if snap(back) != before:
                        b.failures.append(Failure("xml:general-roundtrip", "re-importing the general exporter's output gives a different tree", {"tree": nat.describe(t), "xml": xml[:400]}, ""))
                except Exception as ex:  # noqa
                    b.failures.append(Failure("xml:general-illformed", f"the general exporter's output is not well formed: {type(ex).__name__}: {str(ex)[:120]}",
                                              {"tree": nat.describe(t)}, str(ex)[:200]))
                # EML exporter: no mixed content, no pre-escaped spellings / inline para tags, no namespaces
                ok_for_eml = all(not (x.content is not None and x.children) and not any(s in (x.content or "") for s in ("&amp;", "&lt;", "&gt;", "<para>", "</para>"))
                                 for x in [t] + [nat.node_at(t, p) for p in paths if p])
                if ok_for_eml:
                    b.note((shape, trial, "eml"), nontrivial=special)
                    try:
                        xml = export.to_xml(t)
                        root = etree.fromstring(xml.encode("utf-8"))
                        ET.fromstring(xml)

                        def esnap(e):
                            return (e.tag, tuple(sorted(e.attrib.items())), norm(e.text) if len(e) == 0 else None, tuple(esnap(c) for c in e))

                        def nsnap(x):
                            return (x.name, tuple(sorted(x.attributes.items())), norm(x.content) if not x.children else None, tuple(nsnap(c) for c in x.children))
                        if esnap(root) != nsnap(t):
                            b.failures.append(Failure("xml:eml-roundtrip", "the EML exporter's output parses to different names / attributes / order / text", {"tree": nat.describe(t), "xml": xml[:400]}, ""))
                    except Exception as ex:  # noqa
                        b.failures.append(Failure("xml:eml-illformed", f"the EML exporter's output is not well formed: {type(ex).__name__}: {str(ex)[:120]}", {"tree": nat.describe(t)}, str(ex)[:200]))
    return b


def main(tier, seed):
    t0 = time.time()
    results = common.run_tasks([("props.C07", "task", {"which": w}) for w in ("_nsp_unique", "to_xml", "export.to_xml")])
    b = bounded(tier, seed)
    return common.decide(PID, tier, seed, results, b, t0, "DESIGN.md §4 C07", extra_assumptions=[
        "proved: metapype_io._nsp_unique returns exactly the child's bindings that differ from the parent's (which namespace declarations are "
        "re-emitted), and both exporters write no pre-existing object (frames, shared with C11)",
        "BOUNDED, not proved: well-formedness and parse-back of the emitted text — decided by XML parsers (libxml2, expat), which are outside the reach of "
        "contracts; escaping itself is xml.sax.saxutils.escape (A-escape)"])
