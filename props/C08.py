"""C08 — XML import mirrors the document; import-export-import is stable."""
import itertools, os, random, sys, time
sys.path.insert(0, os.path.dirname(os.path.dirname(os.path.abspath(__file__))))
from props import common
from props.common import Bounded, Failure

PID = "C08"


def task():
    from pyvc.task import Task
    from contracts.prelude import make_world
    from contracts import c07_xml
    from metapype.model import metapype_io
    w = make_world()
    con = c07_xml.install_format_extras(w)
    return Task(w, metapype_io._format_extras, con, name="C08/metapype_io._format_extras").run()


def task_policy(clean, collapse, literal):
    """_process_element up to its attribute loop: local name, namespace map, prefix and the whitespace policy of text and tail for one element"""
    from pyvc.task import Task
    from contracts.prelude import make_world
    from contracts import c08_import
    from metapype.model import metapype_io
    w = make_world()
    con = c08_import.install(w, clean, collapse, literal)
    return Task(w, metapype_io._process_element, con,
                name=f"C08/_process_element[one element: clean={clean}, collapse={collapse}, tag {'is' if literal else 'is not'} literal]").run()


TEXTS = [None, "t", "  t  ", " ", "\t", "\xa0", " \xa0\t ", "  \n", "\n  ", "a  b\n c", "x &amp; y", "<![CDATA[<raw> & ]]>", ""]


def bounded(tier, seed):
    import logging
    logging.disable(logging.CRITICAL)
    from lxml import etree
    from metapype.model.node import Node
    from metapype.model import metapype_io
    b = Bounded("generated documents of <= 5 elements with prefixed namespace declarations (re-declared in subtrees), xml: and other qualified "
                "attributes, text / tail from a whitespace palette (spaces, tabs, nbsp, newlines, entities, CDATA), comments between elements; all four "
                "clean/collapse combinations and a literals tuple; the imported tree is compared with an independent reading of the same document by "
                "lxml plus the documented whitespace policy; then export and re-import must give the same tree up to that policy")
    b.rule = "a case is (document, clean, collapse, literals); non-trivial = the document has whitespace-sensitive text or qualified attributes"
    rnd = random.Random(seed)

    def policy(text, clean, collapse, literal):
        if not clean or text is None:
            return text
        if literal:
            return text
        if text != "" and all(ch in " \xa0\t" for ch in text):
            return text
        s = text.strip()
        if s == "":
            return None
        return " ".join(text.split()) if collapse else s

    def gen_doc(r):
        names = ["a", "b", "lit", "c"]
        def el(depth, inherited):
            nm = r.choice(names)
            decl = ""
            ns = dict(inherited)
            if r.random() < 0.5:
                p = r.choice(["p", "q"])
                uri = "http://u/%s%d" % (p, r.randint(0, 1))
                ns[p] = uri
                decl += ' xmlns:%s="%s"' % (p, uri)
            pre = r.choice([None] + list(ns)) if ns else None
            tag = nm if pre is None else f"{pre}:{nm}"
            attrs = ""
            if r.random() < 0.5:
                attrs += ' id="%s"' % r.choice(["1", "a b", "x&amp;y"])
            if r.random() < 0.3:
                attrs += ' xml:lang="en"'
            if ns and r.random() < 0.4:
                ap = r.choice(list(ns))
                attrs += f' {ap}:att="v"'
            t = r.choice(TEXTS)
            body = "" if t is None else t
            kids = ""
            if depth < 2:
                for _ in range(r.randint(0, 2)):
                    if r.random() < 0.2:
                        kids += "<!-- c -->"
                    kids += el(depth + 1, ns)
                    tl = r.choice(TEXTS)
                    kids += "" if tl is None else (tl if "CDATA" not in tl else "z")
            return f"<{tag}{decl}{attrs}>{body}{kids}</{tag}>"
        return el(0, {})

    def reference(e, clean, collapse, literals):
        """independent reading of an lxml element: (local, prefix, nsmap, attrs, extras, text, tail, children)"""
        q = etree.QName(e.tag)
        attrs, extras = {}, {}
        for k, v in e.attrib.items():
            if k.startswith("{"):
                aq = etree.QName(k)
                pref = [p for p, u in e.nsmap.items() if u == aq.namespace]
                if aq.namespace == "http://www.w3.org/XML/1998/namespace":
                    pref = pref or ["xml"]
                extras[(pref[-1] + ":" + aq.localname) if pref else k] = v
            else:
                attrs[k] = v
        lit = q.localname in literals
        kids = tuple(reference(c, clean, collapse, literals) for c in e if c.tag is not etree.Comment)
        return (q.localname, e.prefix, tuple(sorted((k, v) for k, v in e.nsmap.items() if k is not None)), tuple(sorted(attrs.items())),
                tuple(sorted(extras.items())), policy(e.text, clean, collapse, lit), policy(e.tail, clean, collapse, False), kids)

    def snap(n):
        return (n.name, n.prefix, tuple(sorted((k, v) for k, v in n.nsmap.items() if k is not None)), tuple(sorted(n.attributes.items())),
                tuple(sorted(n.extras.items())), n.content, n.tail, tuple(snap(c) for c in n.children))

    def loose(s):
        # "up to that whitespace policy": surrounding whitespace of text and tail is not significant after a round trip
        nm, pre, ns, at, ex, c, t, ch = s
        st = lambda x: None if x is None or x.strip() == "" else x.strip()
        return (nm, pre, ns, at, ex, st(c), st(t), tuple(loose(k) for k in ch))

    for k in range(300 if tier == "quick" else 6000):
        r = random.Random(seed * 100003 + k)
        doc = gen_doc(r)
        try:
            ref_root = etree.fromstring(doc.encode("utf-8"))
        except Exception:
            continue
        for clean, collapse in ((True, False), (True, True), (False, False), (False, True)):
            literals = ("lit",) if k % 2 else ()
            Node.store.clear()
            b.note((k, clean, collapse), nontrivial=True, sample={"doc": doc[:200], "clean": clean, "collapse": collapse, "literals": list(literals)})
            try:
                t = metapype_io.from_xml(doc, clean=clean, collapse=collapse, literals=literals)
            except Exception as ex:  # noqa
                b.failures.append(Failure("import:raises", f"from_xml raised {type(ex).__name__} on a well-formed document", {"doc": doc}, str(ex)[:200]))
                continue
            exp = reference(ref_root, clean, collapse, literals)
            exp = exp[:6] + (None if not clean else exp[6],) + exp[7:] if False else exp
            got = snap(t)
            if got != exp:
                which = next((i for i in range(8) if got[i] != exp[i]), None)
                part = ["name", "prefix", "namespace bindings", "attributes", "qualified attributes", "text", "tail", "children"][which]
                b.failures.append(Failure("import:mirror:" + part, f"the imported tree does not mirror the document ({part}; clean={clean}, collapse={collapse})",
                                          {"doc": doc, "clean": clean, "collapse": collapse, "literals": list(literals)}, str(got)[:300], str(exp)[:300]))
                continue
            if any(c.parent is not p for p in _all(t) for c in p.children):
                b.failures.append(Failure("import:parent", "a parent link of the imported tree is wrong", {"doc": doc}, ""))
                continue
            try:
                xml2 = metapype_io.to_xml(t)
                Node.store.clear()
                t2 = metapype_io.from_xml(xml2, clean=clean, collapse=collapse, literals=literals)
                if loose(snap(t2)) != loose(got):
                    b.failures.append(Failure("import:unstable", "export followed by import gives a different tree", {"doc": doc, "exported": xml2[:300]}, ""))
            except Exception as ex:  # noqa
                b.failures.append(Failure("import:reexport", f"re-exporting/importing raised {type(ex).__name__}", {"doc": doc}, str(ex)[:200]))
    return b


def _all(n):
    out = [n]
    for c in n.children:
        out.extend(_all(c))
    return out


def main(tier, seed):
    t0 = time.time()
    specs = [("props.C08", "task", {})]
    specs += [("props.C08", "task_policy", {"clean": c, "collapse": k, "literal": l}) for c in (False, True) for k in (False, True) for l in (False, True)]
    results = common.run_tasks(specs)
    b = bounded(tier, seed)
    return common.decide(PID, tier, seed, results, b, t0, "DESIGN.md §4 C08", extra_assumptions=[
        "proved: metapype_io._format_extras rewrites a qualified attribute name {uri}local to prefix:local with the prefix of the last binding whose "
        "URI equals the braces' content, and leaves unqualified or unbound names alone (re.match enters as uninterpreted ok/group functions: A-re)",
        "proved: what _process_element makes of ONE element before it turns to attributes and children — a fresh node named by the local part of the "
        "tag, the element's namespace map and prefix, and the whitespace policy of text and tail in all four clean/collapse combinations, with the tag "
        "listed as literal or not (the lxml element is an abstract object; strip / split-join / find / re.fullmatch are uninterpreted: A-str, A-re); "
        "the rest of the function (attributes, children, sharing of namespace maps) is NOT VERIFIED deductively",
        "BOUNDED, not proved: the tree _process_element / from_xml build from lxml's element API (the infoset is exposed by libxml2), which strings the "
        "uninterpreted string functions return, and the import-export-import stability, which needs the XML parser on the exporter's output"])
