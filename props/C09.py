"""C09 — edit histories keep an ordered tree; queries observe exactly that tree."""
import itertools, os, random, sys, time
sys.path.insert(0, os.path.dirname(os.path.dirname(os.path.abspath(__file__))))
from props import common
from props.common import Bounded, Failure

PID = "C09"
FUNCS = ["add_child", "remove_child", "remove_children", "replace_child", "child_index", "find_child", "find_descendant",
         "delete_node_instance"]


def _world():
    from contracts.prelude import make_world
    from contracts import c13_ns, node_ops
    w = make_world()
    c13_ns.install(w)
    cons = {"add_child": node_ops.install_add_child(w), "remove_child": node_ops.install_remove_child(w),
            "remove_children": node_ops.install_remove_children(w), "child_index": node_ops.install_child_index(w),
            "shift": node_ops.install_shift(w), "delete_node_instance": node_ops.install_delete(w),
            "replace_child": node_ops.install_replace_child(w), "find_child": node_ops.install_find_child(w),
            "find_descendant": node_ops.install_find_descendant(w)}
    return w, cons


def task(which, direction=None):
    from pyvc.task import Task
    from contracts.prelude import Node
    from metapype.model.node import Shift
    w, cons = _world()
    f = getattr(Node, which)
    f = getattr(f, "__func__", f)
    params = None
    name = f"C09/{which}"
    if which == "shift":
        d = {"RIGHT": Shift.RIGHT, "LEFT": Shift.LEFT, "other": None}[direction]
        params = {"direction": ("const", d)}
        name += f"[{direction}]"
    return Task(w, f, cons[which], name=name, params=params).run()


def task_tree_lemmas():
    """the closure facts about Sub that the contracts use as axioms, proved in Lean from the inductive definition"""
    return common.lean_task("C09/lemma:tree-vocabulary", "C09/lemma:tree-vocabulary/lean-proof", "SubTree.lean",
                            "Sub (descendant-or-self): its one-level unfoldings and the closure facts sub_closed / sub_nodes / sub_height are proved in Lean 4 "
                            "(lemmas/SubTree.lean) from the inductive definition over an abstract child relation; that the heap's child lists are that relation is by inspection")


def task_fold_lemmas():
    return common.lean_task("C09/lemma:generations[Lean]", "C09/lemma:generations/lean-proof", "Folds.lean",
                            "L-empty-generation and the counting half of L-enum are also proved in Lean 4 (lemmas/Folds.lean: empty_generation, count_inverse) by induction over "
                            "abstract functions that satisfy the ghosts' one-level unfoldings; the z3 obligations tie base and steps to the actual ghost symbols")


QUERIES = ["find_all_children", "get_ancestry", "find_child[as a function]", "find_single_node_by_path", "find_all_descendants", "find_all_nodes_by_path"]


def task_lemma():
    """L-empty-generation (induction over the generation index; base and step discharged by z3)"""
    from pyvc.task import TaskResult
    from pyvc.core import ObRec
    from contracts import c09_queries as Q
    r = TaskResult("C09/lemma:empty-generation")
    for nm, ok, t in Q.empty_generation_lemma():
        r.obs.append(ObRec(f"C09/lemma:empty-generation/{nm}", "proved" if ok else "undecided", t, kind="lemma"))
    for nm, ok, t in Q.enum_lemma():
        r.obs.append(ObRec(f"C09/lemma:enum/{nm}", "proved" if ok else "undecided", t, kind="lemma"))
    r.assumptions.add("induction over the naturals is applied outside the solver (base case and step are the two obligations)")
    return r


def task_query(which):
    """exact functional contracts of the search queries (contracts/c09_queries.py)"""
    from pyvc.task import Task
    from contracts.prelude import make_world, Node
    from contracts import c09_queries as Q
    w = make_world()
    if which == "find_all_children":
        con, f = Q.install_find_all_children(w), Node.find_all_children
    elif which == "get_ancestry":
        con, f = Q.install_get_ancestry(w), Node.get_ancestry
    elif which == "find_child[as a function]":
        con, f = Q.install_find_child_fn(w), Node.find_child
    elif which == "find_single_node_by_path":
        Q.install_find_child_fn(w)
        con, f = Q.install_find_single_node_by_path(w), Node.find_single_node_by_path
    elif which == "find_all_descendants":
        con, f = Q.install_find_all_descendants(w), Node.find_all_descendants
    elif which == "find_all_nodes_by_path":
        con, f = Q.install_find_all_nodes_by_path(w), Node.find_all_nodes_by_path
    return Task(w, f, con, name=f"C09/{which}").run()


# ------------------------------------------------------------------------------------------------ bounded native pass
NAMES = ["a", "b", "b", "a", "b"]


class Model:
    def __init__(self, nn):
        self.kids = [[] for _ in range(nn)]
        self.parent = [None] * nn

    def listed(self, c):
        return any(c in k for k in self.kids)

    def below(self, n):
        out = []
        for c in self.kids[n]:
            out.append(c)
            out.extend(self.below(c))
        return out


def apply_op(nodes, md, op):
    """applies op to the real nodes and to the model; returns (ok, detail)"""
    from metapype.model.node import Node, Shift
    kind = op[0]
    snap = ([list(k) for k in md.kids], list(md.parent))
    real_before = [[id(c) for c in n.children] for n in nodes]
    exp_exc = None
    exp_ret = "n/a"
    if kind in ("append", "insert"):
        p, c = op[1], op[2]
        if md.listed(c) or c == p or p in md.below(c):
            return "skip", None
        if kind == "append":
            md.kids[p].append(c)
            call = lambda: nodes[p].add_child(nodes[c])
        else:
            md.kids[p].insert(op[3], c)
            call = lambda: nodes[p].add_child(nodes[c], index=op[3])
        md.parent[c] = p
    elif kind == "remove":
        p, c = op[1], op[2]
        if c in md.kids[p]:
            md.kids[p].remove(c)
            md.parent[c] = None
        else:
            exp_exc = ValueError
        call = lambda: nodes[p].remove_child(nodes[c])
    elif kind == "clear":
        p = op[1]
        for c in md.kids[p]:
            md.parent[c] = None
        md.kids[p] = []
        call = lambda: nodes[p].remove_children()
    elif kind == "replace":
        p, old, new = op[1], op[2], op[3]
        if md.listed(new) or new == p or p in md.below(new) or new == old:
            return "skip", None
        if NAMES[old] != NAMES[new] or old not in md.kids[p]:
            exp_exc = ValueError
        else:
            md.kids[p][md.kids[p].index(old)] = new
            md.parent[new] = p
            md.parent[old] = None
        call = lambda: nodes[p].replace_child(nodes[old], nodes[new], delete_old=False)
    elif kind == "shift":
        p, c, d, sib = op[1], op[2], op[3], op[4]
        ks = md.kids[p]
        if c not in ks:
            exp_exc = ValueError
        else:
            i = ks.index(c)
            if sib:
                rng = range(i + 1, len(ks)) if d == "R" else range(i - 1, -1, -1)
                t = next((j for j in rng if NAMES[ks[j]] == NAMES[c]), i)
            else:
                t = i + 1 if (d == "R" and i < len(ks) - 1) else i - 1 if (d == "L" and i > 0) else i
            ks[i], ks[t] = ks[t], ks[i]
            exp_ret = t
        call = lambda: nodes[p].shift(nodes[c], Shift.RIGHT if d == "R" else Shift.LEFT, sib)
    got_exc, ret = None, None
    try:
        ret = call()
    except Exception as ex:  # noqa
        got_exc = type(ex)
    if exp_exc is not None or got_exc is not None:
        if got_exc is not exp_exc:
            return "fail", f"{kind}: raised {got_exc.__name__ if got_exc else None}, expected {exp_exc.__name__ if exp_exc else None}"
        md.kids, md.parent = snap
        if [[id(c) for c in n.children] for n in nodes] != real_before:
            return "fail", f"{kind}: failing edit changed a child list"
    if kind == "shift" and exp_exc is None and ret != exp_ret:
        return "fail", f"shift returned {ret}, the child's new index is {exp_ret}"
    for i, n in enumerate(nodes):
        if [id(c) for c in n.children] != [id(nodes[j]) for j in md.kids[i]]:
            return "fail", f"{kind}: child list of node {i} differs from the ordered-list model"
        for c in n.children:
            if c.parent is not n:
                return "fail", f"{kind}: listed child's parent link does not name its lister"
    return "ok", None


def check_queries(nodes, md):
    names = NAMES
    for i, n in enumerate(nodes):
        ks = md.kids[i]
        for nm in ("a", "b", "zz"):
            exp = next((k for k in ks if names[k] == nm), None)
            got = n.find_child(nm)
            if (got is None) != (exp is None) or (got is not None and got is not nodes[exp]):
                return f"find_child({nm})"
            if [id(x) for x in n.find_all_children(nm)] != [id(nodes[k]) for k in ks if names[k] == nm]:
                return f"find_all_children({nm})"
            po = md.below(i)
            exp = next((k for k in po if names[k] == nm), None)
            got = n.find_descendant(nm)
            if (got is None) != (exp is None) or (got is not None and got is not nodes[exp]):
                return f"find_descendant({nm})"
            out = ["sentinel"]
            n.find_all_descendants(nm, out)
            if out[0] != "sentinel" or [id(x) for x in out[1:]] != [id(nodes[k]) for k in po if names[k] == nm]:
                return f"find_all_descendants({nm})"
        for path in ([], ["a"], ["b"], ["a", "b"], ["b", "b"], ["b", "a"], ["zz"]):
            cur = [i]
            single = i
            for nm in path:
                cur = [k for c in cur for k in md.kids[c] if names[k] == nm]
                single = next((k for k in md.kids[single] if names[k] == nm), None) if single is not None else None
            if not path:
                cur, single = [], None
            if [id(x) for x in n.find_all_nodes_by_path(path)] != [id(nodes[k]) for k in cur]:
                return f"find_all_nodes_by_path({path})"
            got = n.find_single_node_by_path(path)
            if (got is None) != (single is None) or (got is not None and got is not nodes[single]):
                return f"find_single_node_by_path({path})"
        for c in range(len(nodes)):
            exp = ks.index(c) if c in ks else None
            if n.child_index(nodes[c]) != exp:
                return "child_index"
        chain = [i]
        while md.listed(chain[0]):
            chain.insert(0, md.parent[chain[0]])
        import signal
        signal.alarm(5)     # a cyclic parent chain would make get_ancestry spin for ever
        try:
            got = [id(x) for x in n.get_ancestry()]
        except TimeoutError:
            return "get_ancestry(non-termination)"
        finally:
            signal.alarm(0)
        if got != [id(nodes[k]) for k in chain]:
            return "get_ancestry"
    return None


def all_ops(nn):
    ops = []
    for p in range(nn):
        ops.append(("clear", p))
        for c in range(nn):
            if p == c:
                continue
            ops.append(("append", p, c))
            for i in (0, 1, -1):
                ops.append(("insert", p, c, i))
            ops.append(("remove", p, c))
            for d in "RL":
                for sib in (True, False):
                    ops.append(("shift", p, c, d, sib))
            for new in range(nn):
                if new not in (p, c):
                    ops.append(("replace", p, c, new))
    return ops


_SEEN_FORESTS = set()


def run_history(hist, nn):
    from metapype.model.node import Node
    Node.store.clear()
    nodes = [Node(NAMES[i]) for i in range(nn)]
    md = Model(nn)
    done = []
    for op in hist:
        st, why = apply_op(nodes, md, op)
        if st == "skip":
            continue
        done.append(op)
        if st == "fail":
            return done, Failure("edit:" + why.split(":")[0].split(" ")[0], why, {"nodes": nn, "names": NAMES[:nn], "history": [list(o) for o in done]}, why)
    key = (tuple(tuple(k) for k in md.kids), tuple(md.parent))
    if key in _SEEN_FORESTS:
        return done, None
    _SEEN_FORESTS.add(key)
    q = check_queries(nodes, md)
    if q is not None:
        return done, Failure("query:" + q.split("(")[0], f"{q} disagrees with the ordered tree", {"nodes": nn, "names": NAMES[:nn], "history": [list(o) for o in done]}, q)
    return done, None


def _alarm(signum, frame):
    raise TimeoutError()


def bounded(tier, seed):
    import logging, signal
    signal.signal(signal.SIGALRM, _alarm)
    logging.disable(logging.CRITICAL)
    nn = 4 if tier == "quick" else 3
    ops = all_ops(nn)
    depth = 2 if tier == "quick" else 3
    b = Bounded(f"all edit histories (append / insert at 0,1,-1 / remove / replace / shift R,L x sib,positional / clear) of length "
                f"{depth} over {nn} nodes named {NAMES[:nn]} ({len(ops)} operations, illegal attaches skipped), every query checked on each distinct "
                f"final forest; plus random histories of length 10 over 5 nodes")
    b.rule = "a case is one legal history; non-trivial = at least one edit succeeded and the final forest has an edge"
    for hist in itertools.product(ops, repeat=depth):
        done, f = run_history(hist, nn)
        b.note(tuple(done), nontrivial=len(done) > 0, sample=[list(o) for o in done])
        if f is not None:
            b.failures.append(f)
            if len(b.failures) > 200:
                break
    rnd = random.Random(seed)
    ops5 = all_ops(5)
    for _ in range(2000 if tier == "quick" else 30000):
        hist = tuple(rnd.choice(ops5) for _ in range(10))
        done, f = run_history(hist, 5)
        b.note(tuple(done), nontrivial=len(done) > 0)
        if f is not None:
            b.failures.append(f)
    return b


def main(tier, seed):
    t0 = time.time()
    specs = [("props.C09", "task", {"which": f}) for f in FUNCS]
    specs += [("props.C09", "task", {"which": "shift", "direction": d}) for d in ("RIGHT", "LEFT", "other")]
    specs += [("props.C09", "task_query", {"which": q}) for q in QUERIES] + [("props.C09", "task_lemma", {}), ("props.C09", "task_tree_lemmas", {}), ("props.C09", "task_fold_lemmas", {})]
    results = common.run_tasks(specs)
    b = bounded(tier, seed)
    return common.decide(PID, tier, seed, results, b, t0, "DESIGN.md §4 C09", extra_assumptions=[
        "histories: each mutator is proved to re-establish Forest+Linked+own-lists+kids-typed from any state satisfying them "
        "(induction over histories is by this invariant)",
        "hypothesis of the property: an attached node is not listed anywhere and is not an ancestor of its new parent",
        "queries: find_all_children (filter by a counting function), find_all_descendants (count and document-order rank of every matching "
        "descendant), find_single_node_by_path (chain of first children), get_ancestry (parent chain; terminates because parent links are acyclic: "
        "precondition, ghost depth) have exact contracts; the ghost counting/rank functions enter through their one-level unfoldings (T-unfold)",
        "find_all_nodes_by_path is specified generation by generation (ghosts gen_len / gen_elem / gen_offset with one-level unfoldings); the lemmas "
        "'an empty generation stays empty' and L-enum (every position of a generation has a source position) are proved by induction, base and "
        "steps discharged by z3 as ground implications with explicit witnesses"])
