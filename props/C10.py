"""C10 — the rule table is closed and consistent with the known element names."""
import json, os, sys, time
sys.path.insert(0, os.path.dirname(os.path.dirname(os.path.abspath(__file__))))
from props import common
from props.common import Bounded, Failure

PID = "C10"
MIXED = {"textRule", "anyNameRule", "paraRule", "subscriptRule", "superscriptRule"}


def task(names):
    """deductive part: rule.get_rule(name) / Rule.__init__ executed by the engine for each known name: no exception escapes
    (KeyError for a missing rule, ValueError of modality detection on a malformed children spec) and the rule's name is the mapped one"""
    import z3
    from pyvc.task import Task, Contract
    from pyvc.values import PObj
    from contracts.rules_common import rule_world
    import metapype.eml.rule as rule_mod
    out = []
    for nm in names:
        w = rule_world()
        expect = rule_mod.node_mappings.get(nm)

        def ensures(s0, s, node_name, result):
            return {"top:resolves": z3.BoolVal(True)}
        con = Contract("metapype.eml.rule:get_rule", params={"node_name": ("const", nm)}, ensures=ensures, result_ty="val", allocates=True, modular=False)
        out.append(Task(w, rule_mod.get_rule, con, name=f"C10/get_rule({nm})").run())
    return out


def ground_checks():
    """spec-side ground obligations over the tables read at run time; each is decided by evaluation"""
    from contracts import rulelang as RL
    from contracts.c02_content import IMPLEMENTED
    import metapype.eml.rule as rule_mod
    rules = json.load(open(os.path.join(common.REPO, "src/metapype/eml/rules.json")))
    nm = dict(rule_mod.node_mappings)
    obs = []
    fails = []

    def ob(name, ok, detail=""):
        obs.append({"name": name, "status": "proved" if ok else "refuted", "time_s": 0.0, "detail": detail, "path": "", "kind": "ground"})
        return ok

    for k, v in nm.items():
        if not ob(f"C10/table/mapping:{k}->rule-exists", v in rules, f"{k} -> {v}"):
            fails.append(Failure(f"mapping:{k}", f"element name {k} maps to the missing rule {v}", {"name": k}, "missing"))
    asts = {}
    for rn, rd in rules.items():
        ok = isinstance(rd, list) and len(rd) == 3 and isinstance(rd[0], dict) and isinstance(rd[1], list) and isinstance(rd[2], dict)
        ob(f"C10/table/{rn}/wf:shape", ok)
        if not ok:
            fails.append(Failure(f"wf:{rn}", f"rule {rn} is not [attributes, children, content]", {"rule": rn}, "malformed"))
            continue
        A, ch, c = rd
        okA = all(isinstance(spec, list) and len(spec) >= 1 and isinstance(spec[0], bool) for spec in A.values())
        if not ob(f"C10/table/{rn}/wf:attributes-led-by-required-flag", okA):
            fails.append(Failure(f"wf:{rn}", f"rule {rn}: attribute spec not led by a bool", {"rule": rn}, "malformed"))
        try:
            asts[rn] = RL.parse(ch, mixed=rn in MIXED)
            okc = True
            why = ""
        except RL.Malformed as ex:
            okc, why = False, str(ex)
        if not ob(f"C10/table/{rn}/wf:children-parse", okc, why):
            fails.append(Failure(f"wf:{rn}", f"rule {rn}: children spec malformed: {why}", {"rule": rn}, "malformed"))
        okk = isinstance(c.get("content_rules"), list) and all(x in IMPLEMENTED for x in c["content_rules"])
        if not ob(f"C10/table/{rn}/wf:content-rules-implemented", okk, str(c.get("content_rules"))):
            fails.append(Failure(f"wf:{rn}", f"rule {rn}: unimplemented content rule in {c.get('content_rules')}", {"rule": rn}, "malformed"))
        oke = "content_enum" not in c or isinstance(c["content_enum"], list)
        ob(f"C10/table/{rn}/wf:enum-is-list", oke)
    reachable = set(nm.values())
    for rn in sorted(reachable & set(asts)):
        for child in RL.names_of(asts[rn]):
            if not ob(f"C10/table/{rn}/closed:{child}", child in nm, f"child {child} of {rn}"):
                fails.append(Failure(f"closed:{rn}:{child}", f"rule {rn} permits child '{child}', which is not a known element name "
                                     f"(single-node validation allows it, whole-tree validation can never accept it)",
                                     {"rule": rn, "child": child}, "unknown element name"))
    return obs, fails, rules, nm, asts


def canonical_content(cspec):
    K = cspec["content_rules"]
    enum = cspec.get("content_enum")
    if enum:
        return next((e for e in enum if e), enum[0])
    if "emptyContent" in K:
        return None
    for k, v in (("floatRangeContent_EW", "0"), ("floatRangeContent_NS", "0"), ("floatContent_Nonnegative", "1"), ("floatContent", "0"),
                 ("intContent", "1"), ("timeContent", "12:00:00"), ("yearDateContent", "2020"), ("uriContent", "http://example.com")):
        if k in K:
            return v
    if "nonEmptyContent" in K:
        return "x"
    return None


def witnesses(rules, nm, asts):
    """least fixpoint of 'some finite valid tree exists', with a minimal witness per known name"""
    from contracts import rulelang as RL
    cost = {}
    word = {}
    changed = True
    while changed:
        changed = False
        for name, rn in nm.items():
            if rn not in asts:
                continue
            r = RL.min_word(asts[rn], cost)
            if r is not None and (name not in cost or 1 + r[0] < cost[name]):
                cost[name] = 1 + r[0]
                word[name] = r[1]
                changed = True
    return cost, word


def build_witness(name, rules, nm, word, Node):
    rn = nm[name]
    A, ch, c = rules[rn]
    n = Node(name, content=canonical_content(c))
    for a, spec in A.items():
        if spec[0]:
            n.add_attribute(a, spec[1] if len(spec) > 1 else "x")
    for cname in word[name]:
        n.add_child(build_witness(cname, rules, nm, word, Node))
    return n


def bounded(rules, nm, asts):
    import logging
    logging.disable(logging.CRITICAL)
    from metapype.eml import validate
    from metapype.model.node import Node
    b = Bounded("complete enumeration of the shipped tables: for every known element name a minimal witness tree (least fixpoint over the "
                "independent rule-language semantics, canonical content, required attributes) is built and run through validate.tree in both modes")
    b.rule = "a case is one known element name; non-trivial = its witness has more than one node"
    cost, word = witnesses(rules, nm, asts)
    for name in nm:
        if name not in cost:
            b.note(name, True)
            b.failures.append(Failure(f"productive:{name}", f"no finite tree rooted at '{name}' can pass whole-tree validation", {"name": name}, "unproductive"))
            continue
        Node.store.clear()
        t = build_witness(name, rules, nm, word, Node)
        errs = []
        exc = None
        try:
            validate.tree(t, errs)
            validate.tree(t)
        except Exception as ex:  # noqa
            exc = f"{type(ex).__name__}: {ex}"
        b.note(name, cost[name] > 1, sample={"name": name, "witness_nodes": cost[name], "children": word[name]})
        if exc or errs:
            b.failures.append(Failure(f"witness:{name}", f"the minimal witness tree of '{name}' does not validate", {"name": name, "children": word[name]},
                                      exc or str([(e[0].name, e[1]) for e in errs][:3])))
    return b


def main(tier, seed):
    t0 = time.time()
    import metapype.eml.rule as rule_mod
    names = list(rule_mod.node_mappings)
    chunks = [names[i::16] for i in range(16)]
    results = common.run_tasks([("props.C10", "task", {"names": ch}) for ch in chunks if ch], procs=16)
    obs, fails, rules, nm, asts = ground_checks()
    results.append({"task": "C10/table (ground obligations decided by evaluation on the spec side)", "paths": 0, "restarts": 0, "wall_s": 0.0,
                    "obligations": obs, "functions": {}, "assumptions": [], "crash": None})
    b = bounded(rules, nm, asts)
    b.failures = fails + b.failures
    return common.decide(PID, tier, seed, results, b, t0, "DESIGN.md §4 C10", extra_assumptions=[
        "ground obligations over the shipped tables are decided by evaluation (python), not by the SMT solver; the rule-language parser "
        "is spec-side code cross-checked against a naive matcher by the C01 check"],
        extra_coverage={"names": len(nm), "rules": len(rules), "exhaustive": True,
                        "backends": {"pyvc concrete execution of get_rule/Rule.__init__": len(names), "python evaluation (ground)": len(obs)}})
