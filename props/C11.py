"""C11 — read-only operations never modify the tree."""
import itertools, os, random, sys, time
sys.path.insert(0, os.path.dirname(os.path.dirname(os.path.abspath(__file__))))
from props import common
from props.common import Bounded, Failure

PID = "C11"
# these two have functional contracts in C19 (contracts/c19_eval.py) whose frame is "nothing that existed before the call is written":
# C11 runs those very tasks (task_eval below) instead of a frame-only contract
BOUNDED_ONLY = ("evaluate._dataset_rule", "evaluate._datatable_rule")


def names():
    from contracts.prelude import make_world
    from contracts import c11_frames
    return [n for n in c11_frames.install(make_world()) if n not in BOUNDED_ONLY]


def task(which):
    from pyvc.task import Task
    from contracts.prelude import make_world
    from contracts import c11_frames
    w = make_world()
    fs = c11_frames.install(w)
    f, con = fs[which]
    return Task(w, f, con, name=f"C11/{which}", max_paths=6000).run()


def task_eval(which, shard=None, preload=None):
    from props import C19
    r = C19.task(which, shard=shard, preload=preload)
    r.name = r.name.replace("C19/", "C11/frame-of:")
    return r


def deep_snapshot(roots):
    """everything the property names: every field of every node, child order, namespace maps (and which nodes share one), registry"""
    from metapype.model.node import Node
    out = []
    ids = {}

    def walk(n):
        out.append((n.id, n.name, n.content, n.tail, n.prefix, tuple(n.attributes.items()), tuple(n.nsmap.items()), ids.setdefault(id(n.nsmap), len(ids)),
                    tuple(n.extras.items()), id(n.parent) if n.parent is not None else None, tuple(id(c) for c in n.children)))
        for c in n.children:
            walk(c)
    for r in roots:
        walk(r)
    return (tuple(out), tuple(sorted(Node.store)))


def operations():
    from metapype.eml import validate, evaluate, export, rule as rule_mod
    from metapype.model import metapype_io, mp_io
    from metapype.model.node import Node

    def all_nodes(t):
        out = [t]
        for c in t.children:
            out.extend(all_nodes(c))
        return out

    probe = Node("title")
    Node.store.pop(probe.id, None)
    ops = {
        "validate.tree(fail-fast)": lambda t: _quiet(lambda: validate.tree(t)),
        "validate.tree(collecting)": lambda t: validate.tree(t, []),
        "validate.node(each)": lambda t: [validate.node(n, []) for n in all_nodes(t)],
        "evaluate.tree": lambda t: _quiet(lambda: evaluate.tree(t, [])),
        "evaluate.node(each)": lambda t: [_quiet(lambda n=n: evaluate.node(n)) for n in all_nodes(t)],
        "metapype_io.to_json": lambda t: metapype_io.to_json(t, 2),
        "metapype_io.to_xml": lambda t: metapype_io.to_xml(t),
        "metapype_io.graph": lambda t: metapype_io.graph(t),
        "export.to_xml": lambda t: export.to_xml(t),
        "mp_io.to_json": lambda t: mp_io.to_json(t),
        "queries": lambda t: [(n.find_child("title"), n.find_all_children("creator"), n.find_descendant("surName"), n.find_all_descendants("para", []),
                               n.find_single_node_by_path(["dataset", "title"]), n.find_all_nodes_by_path(["dataset", "creator"]), n.get_ancestry(),
                               n.child_index(t)) for n in all_nodes(t)],
        "child_insert_index": lambda t: [_quiet(lambda n=n: rule_mod.get_rule(n.name).child_insert_index(n, probe)) for n in all_nodes(t) if n.name in rule_mod.node_mappings],
        "child_insert_index(existing child)": lambda t: [_quiet(lambda n=n, c=c: rule_mod.get_rule(n.name).child_insert_index(n, c))
                                                for n in all_nodes(t) if n.name in rule_mod.node_mappings for c in list(n.children)],
        "is_allowed_child": lambda t: [_quiet(lambda n=n: rule_mod.get_rule(n.name).is_allowed_child("title")) for n in all_nodes(t) if n.name in rule_mod.node_mappings],
        "accessors and printable forms": lambda t: [(n.attribute_value("id"), n.list_attributes(), str(n), repr(n)) for n in all_nodes(t)],
        "is_equal": lambda t: [Node.is_equal(n, m) for n in all_nodes(t)[:6] for m in all_nodes(t)[:6]],
    }
    return ops


def _quiet(f):
    try:
        return f()
    except Exception:  # the read-only claim also covers calls that end in an exception
        return None


def bounded(tier, seed):
    import logging
    logging.disable(logging.CRITICAL)
    from metapype.model.node import Node
    from metapype.model import metapype_io
    b = Bounded("tests/data/eml.xml, random mutations of it and small hand-built trees (content with markup characters, shared namespace maps): a "
                "deep snapshot (all fields, child order, namespace maps and their sharing, parent links, registry keys) is compared before and "
                "after every read-only operation, in random orders")
    b.rule = "a case is (tree, operation); non-trivial = the tree has more than one node"
    ops = operations()
    rnd = random.Random(seed)
    trees = []
    xml_path = os.path.join(common.REPO, "tests/data/eml.xml")
    xml = open(xml_path, encoding="utf-8").read() if os.path.exists(xml_path) else None
    small = '<eml:eml xmlns:eml="https://eml.ecoinformatics.org/eml-2.2.0" system="s" packageId="p"><dataset><title>a &lt;b&gt; &amp; c</title>' \
            '<abstract><para>x <emphasis>y</emphasis> z</para></abstract><creator id="c"><individualName><surName>s</surName></individualName></creator>' \
            '<contact><references>c</references></contact></dataset></eml:eml>'
    for k in range(6 if tier == "quick" else 60):
        Node.store.clear()
        t = metapype_io.from_xml(small if (k % 2 == 0 or xml is None) else xml)
        nodes = [t]
        i = 0
        while i < len(nodes):
            nodes.extend(nodes[i].children)
            i += 1
        for _ in range(k):
            x = rnd.choice(nodes)
            x._content = rnd.choice([None, "a<b", "x & y", "&amp;", "<para>q</para>", "nan"])
        order = list(ops)
        rnd.shuffle(order)
        for name in order:
            before = deep_snapshot([t])
            try:
                ops[name](t)
            except Exception as ex:  # noqa
                pass
            after = deep_snapshot([t])
            b.note((k, name), nontrivial=True, sample={"tree": "small" if k % 2 == 0 else "eml.xml", "mutations": k, "operation": name})
            if before != after:
                changed = "registry" if before[1] != after[1] else "node fields / order / namespace maps"
                b.failures.append(Failure("readonly:" + name, f"{name} changed the model ({changed})", {"tree": k, "operation": name}, changed))
    return b


def main(tier, seed):
    t0 = time.time()
    specs = [("props.C11", "task", {"which": n}) for n in names()]
    specs.append(("props.C11", "task_eval", {"which": "_datatable_rule"}))
    shards = [("props.C11", "task_eval", {"which": "_dataset_rule", "shard": [1, list(bits)]}) for bits in itertools.product((True, False), repeat=4)]
    results = common.run_tasks(specs, procs=16) + common.run_sharded(shards, "C19._dataset_rule")
    b = bounded(tier, seed)
    return common.decide(PID, tier, seed, results, b, t0, "DESIGN.md §4 C11", extra_assumptions=[
        "frame obligations of the functions verified functionally elsewhere are discharged there and not repeated: validate.node/tree and the "
        "Rule validators (C01-C05: only the errs list is written), Node.is_equal (C18)",
        "Rule.child_insert_index / is_allowed_child: frame proved for an arbitrary rule (instance built by the real constructor, its child-name list "
        "replaced by an arbitrary list of strings)",
        "evaluate._dataset_rule / _datatable_rule: the frame obligations come from their functional contracts (the C19 tasks, run here too)",
        "A-escape, A-json: xml.sax.saxutils.escape and json.dumps read their argument and return new strings",
        "out-parameter lists (descendants, warnings) are not the children list of any node"])
