"""C12 — copy is deep, equal and independent."""
import itertools, os, sys, time
sys.path.insert(0, os.path.dirname(os.path.dirname(os.path.abspath(__file__))))
from props import common
from props.common import Bounded, Failure

PID = "C12"


def task_copy():
    from pyvc.task import Task
    from contracts.prelude import make_world, Node
    from contracts import c12_copy
    w = make_world()
    con = c12_copy.install(w)
    return Task(w, Node.copy, con, name="C12/copy").run()


def all_nodes(n):
    out = [n]
    for c in n.children:
        out.extend(all_nodes(c))
    return out


def bounded(tier):
    import logging
    logging.disable(logging.CRITICAL)
    from metapype.model.node import Node
    from props import native as nat
    maxn = 4 if tier == "quick" else 5
    b = Bounded(f"all tree shapes with <= {maxn} nodes (fields from a palette incl. shared namespace dicts): copy() compared field by field with "
                "the original; fresh distinct registered ids; parent links inside the copy; then every single edit (content, attribute, extra, "
                "namespace, append child, remove child) applied to every node of the copy and of the original, checking the other side is unchanged")
    b.rule = "a case is (shape, copied node, edit, edited node, side); non-trivial = tree has more than one node"
    edits = ["content", "attr", "extras", "nsmap", "append", "remove", "tail", "name"]

    def fields(path):
        return {"name": "n%d" % len(path), "content": "c%s" % "".join(map(str, path)), "tail": "t", "prefix": "p", "attributes": {"a": "1"},
                "nsmap": {"p": "u"}, "extras": {"x:y": "z"} if len(path) != 1 else {}}     # the nodes at depth 1 have no extras

    for n in range(1, maxn + 1):
        for shape in nat.shapes(n):
            for root_path in nat.paths_of(shape):
                Node.store.clear()
                orig_root = nat.build(shape, fields)
                # share one namespace dict along the tree, as imports do
                shared = {"p": "u"}
                for x in all_nodes(orig_root):
                    x.nsmap = shared
                target = nat.node_at(orig_root, root_path)
                before_store = set(Node.store)
                cp = target.copy()
                on, cn = all_nodes(target), all_nodes(cp)
                b.note((shape, root_path, "copy"), nontrivial=n > 1, sample={"shape": str(shape), "copied": list(root_path)})
                bad = None
                if nat.snapshot(cp) != nat.snapshot(target):
                    bad = ("not-equal", "the copy differs from the original in some field or in child order")
                elif len({x.id for x in cn}) != len(cn) or any(x.id in before_store for x in cn):
                    bad = ("ids", "copied nodes do not all carry fresh, distinct ids")
                elif any(Node.get_node_instance(x.id) is not x for x in cn):
                    bad = ("registry", "a copied node is not registered under its id")
                elif any(c.parent is not p for p in cn for c in p.children):
                    bad = ("parent", "a parent link below the copy's root points outside the copy")
                elif {id(x) for x in cn} & {id(x) for x in on}:
                    bad = ("shared-node", "copy and original share a node")
                else:
                    # independence also among the copied nodes themselves: no container object occurs twice in the copy or is one of the original's
                    conts = [id(c) for x in cn for c in (x.attributes, x.nsmap, x.extras, x.children)]
                    if len(set(conts)) != len(conts) or set(conts) & {id(c) for x in on for c in (x.attributes, x.nsmap, x.extras, x.children)}:
                        bad = ("shared-container", "two nodes of the copy (or the copy and the original) share a dict or child-list object")
                if bad:
                    b.failures.append(Failure("copy:" + bad[0], bad[1], {"tree": nat.describe(orig_root), "copied": list(root_path)}, bad[1]))
                    continue
                for side in ("copy", "orig"):
                    for k in range(len(cn)):
                        for e in edits:
                            Node.store.clear()
                            o2 = nat.build(shape, fields)
                            sh = {"p": "u"}
                            for x in all_nodes(o2):
                                x.nsmap = sh
                            t2 = nat.node_at(o2, root_path)
                            c2 = t2.copy()
                            edited = (all_nodes(c2) if side == "copy" else all_nodes(t2))[k]
                            other = t2 if side == "copy" else c2
                            snap = nat.snapshot(other)
                            if e == "content":
                                edited.content = "changed"
                            elif e == "tail":
                                edited.tail = "changed"
                            elif e == "name":
                                edited.name = "changed"
                            elif e == "attr":
                                edited.add_attribute("a", "changed")
                            elif e == "extras":
                                edited.add_extras("x:y", "changed")
                            elif e == "nsmap":
                                edited.nsmap["p"] = "changed"
                            elif e == "append":
                                edited.add_child(Node("extra"))
                            elif e == "remove" and edited.children:
                                edited.remove_child(edited.children[0])
                            b.note((shape, root_path, side, k, e), nontrivial=True)
                            if nat.snapshot(other) != snap:
                                b.failures.append(Failure("copy:shared-state:" + e, f"editing ({e}) a node of the {side} is visible in the other tree",
                                                          {"tree": nat.describe(o2), "copied": list(root_path), "edit": e, "node": k, "side": side}, "changed"))
    return b


def main(tier, seed):
    t0 = time.time()
    results = common.run_tasks([("props.C12", "task_copy", {})])
    b = bounded(tier)
    return common.decide(PID, tier, seed, results, b, t0, "DESIGN.md §4 C12", extra_assumptions=[
        "A-uuid: str(uuid.uuid1()) differs from every registry key and from every earlier result; A-copy.copy: a shallow copy is a fresh "
        "object with the same attribute values; ghost copy_origin is defined once per allocated address",
        "independence: every container (attribute/namespace/extras dict, child list) of every node the call allocates is proved fresh "
        "(allocated by the call) and the call is proved to write no pre-existing object except the registry; with the frames of the C09/C13 "
        "mutators (they write only containers of the nodes they are applied to) an edit on one side cannot reach the other. Pairwise "
        "distinctness of containers *among* the copied nodes is proved only against the node under construction; the bounded pass edits "
        "every node of both trees",
        "precondition: the copied subtree is a tree (acyclic, disjoint sibling subtrees) whose containers are allocated and not the registry"])
