"""C13 — namespace operations stay inside the subtree they are applied to."""
import itertools, os, random, sys, time
sys.path.insert(0, os.path.dirname(os.path.dirname(os.path.abspath(__file__))))
from props import common
from props.common import Bounded, Failure

PID = "C13"


def _world():
    from contracts.prelude import make_world
    from contracts import c13_ns, node_ops
    w = make_world()
    cons = c13_ns.install(w)
    cons["add_child"] = node_ops.install_add_child(w)
    c13_ns.install_bulk(w, cons)
    return w, cons


def task(which, scenario):
    from pyvc.task import Task
    from contracts.prelude import Node
    w, cons = _world()
    f = {"add": Node.add_namespace, "remove": Node.remove_namespace, "add_child": Node.add_child,
         "set_nsmap": Node.set_nsmap, "fix_nsmap": Node.fix_nsmap.__func__}[which]
    params = {"nsmap_id": "int"} if scenario == "B" else {}
    if which == "fix_nsmap" and scenario == "A":
        params = {"nsmap": "opt:dict:str"}
    if which == "fix_nsmap" and scenario == "B":
        params = {"nsmap": "dict:str", "nsmap_id": "int"}
    name = {"add": "add_namespace", "remove": "remove_namespace"}.get(which, which)
    return Task(w, f, cons[which], name=f"C13/{name}[{scenario}]", params=params).run()


# ------------------------------------------------------------------------------------------------ bounded native pass
def subtree(n):
    out = [n]
    for c in n.children:
        out.extend(subtree(c))
    return out


def run_history(ops, nn):
    """replays one history on fresh real nodes against the independent map model; returns a Failure or None"""
    from metapype.model.node import Node
    Node.store.clear()
    nodes = [Node("n%d" % i) for i in range(nn)]
    model = [dict() for _ in range(nn)]
    idx = {id(n): i for i, n in enumerate(nodes)}
    for step, op in enumerate(ops):
        kind = op[0]
        before = [dict(m) for m in model]
        if kind == "attach":
            p, c = nodes[op[1]], nodes[op[2]]
            if c.parent is not None or p in subtree(c):
                return "skip"
            inside = [idx[id(x)] for x in subtree(c)]
            p.add_child(c)
            model[op[2]] = {**before[op[1]], **before[op[2]]}
            for i in inside:           # descendants of the attached child are not pinned down by the property
                if i != op[2]:
                    model[i] = dict(nodes[i].nsmap)
        elif kind == "declare":
            n = nodes[op[1]]
            inside = [idx[id(x)] for x in subtree(n)]
            n.add_namespace(op[2], op[3])
            for i in inside:
                model[i][op[2]] = op[3]
        elif kind in ("fix", "setmap"):
            n = nodes[op[1]]
            inside = [idx[id(x)] for x in subtree(n)]
            if kind == "fix":
                Node.fix_nsmap(n, {"a": "9"})
            else:
                n.set_nsmap({"c": "3"})
            for i in inside:           # what the bulk helpers do inside the subtree is not part of C13; only the frame is
                model[i] = dict(nodes[i].nsmap)
        elif kind == "remove":
            n = nodes[op[1]]
            inside = [idx[id(x)] for x in subtree(n)]
            n.remove_namespace(op[2])
            for i in inside:
                model[i].pop(op[2], None)
        for i in range(nn):
            if dict(nodes[i].nsmap) != model[i]:
                where = "inside" if i in inside else "outside"
                return Failure(f"{kind}:{where}-subtree-binding-wrong",
                               f"after {kind} the bindings seen on a node {where} the operated subtree are wrong",
                               {"nodes": nn, "history": [list(o) for o in ops[: step + 1]], "node": i},
                               str(dict(nodes[i].nsmap)), str(model[i]))
    return None


def all_ops(nn):
    ops = []
    for p in range(nn):
        for c in range(nn):
            if p != c:
                ops.append(("attach", p, c))
    for n in range(nn):
        for pf in ("a", "b"):
            for u in ("1", "2"):
                ops.append(("declare", n, pf, u))
            ops.append(("remove", n, pf))
        ops.append(("fix", n))
        ops.append(("setmap", n))
    return ops


def bounded(tier, seed):
    b = Bounded("all histories of attach / declare / re-declare / remove over 3 fresh nodes, prefixes {a,b}, URIs {1,2}, "
                "exhaustive to depth 3 (quick) or 4 (thorough), plus %d random histories of length 8 over 5 nodes; after every "
                "step every node's nsmap is compared with an independent map model" % (300 if tier == "quick" else 5000))
    b.rule = "a case is one operation history; non-trivial = it contains an attach and a declare/remove (skipped illegal attaches are not counted)"
    nn = 3
    ops = all_ops(nn)
    depth = 3 if tier == "quick" else 4
    for hist in itertools.product(ops, repeat=depth):
        kinds = {o[0] for o in hist}
        if "attach" not in kinds or len(kinds) < 2:
            continue
        r = run_history(hist, nn)
        if r == "skip":
            continue
        b.note(hist, True, sample=[list(o) for o in hist])
        if r is not None:
            b.failures.append(r)
            if len(b.failures) > 50:
                break
    rnd = random.Random(seed)
    ops5 = all_ops(5)
    for _ in range(300 if tier == "quick" else 5000):
        hist = tuple(rnd.choice(ops5) for _ in range(8))
        # drop illegal attaches instead of skipping the whole history
        legal = []
        for o in hist:
            if run_history(tuple(legal + [o]), 5) != "skip":
                legal.append(o)
        r = run_history(tuple(legal), 5)
        b.note(tuple(legal), True)
        if isinstance(r, Failure):
            b.failures.append(r)
    b.exhaustive = True
    return b


def main(tier, seed):
    t0 = time.time()
    specs = [("props.C13", "task", {"which": w, "scenario": s}) for w in ("add", "remove") for s in ("A", "B")]
    specs.append(("props.C13", "task", {"which": "add_child", "scenario": "A"}))
    specs.append(("props.C13", "task", {"which": "set_nsmap", "scenario": "A"}))
    specs.append(("props.C13", "task", {"which": "fix_nsmap", "scenario": "A"}))
    specs.append(("props.C13", "task", {"which": "fix_nsmap", "scenario": "B"}))
    results = common.run_tasks(specs)
    b = bounded(tier, seed)
    return common.decide(PID, tier, seed, results, b, t0, "DESIGN.md §4 C13",
                         extra_assumptions=["precondition: the subtree operated on is a tree (sibling subtrees disjoint, acyclic) — "
                                            "what every attach/import operation establishes",
                                            "bindings of the descendants of an attached child are not pinned down by the property; "
                                            "the contract states only the child's own map and the outside frame"])
