"""C14 — the node registry tracks exactly the live nodes."""
import itertools, os, random, sys, time
sys.path.insert(0, os.path.dirname(os.path.dirname(os.path.abspath(__file__))))
from props import common
from props.common import Bounded, Failure

PID = "C14"


def task(which):
    from pyvc.task import Task
    from contracts.prelude import make_world, Node
    from contracts import c14_registry, node_ops, c12_copy, c13_ns
    w = make_world()
    if which in ("init", "get", "set"):
        ci, cg, cs = c14_registry.install(w)
        f, con = {"init": (Node.__init__, ci), "get": (Node.get_node_instance.__func__, cg), "set": (Node.set_node_instance.__func__, cs)}[which]
        return Task(w, f, con, name=f"C14/Node.{f.__name__}").run()
    if which == "delete":
        con = node_ops.install_delete(w)
        return Task(w, Node.delete_node_instance.__func__, con, name="C14/Node.delete_node_instance").run()
    if which == "replace":
        c13_ns.install(w)
        node_ops.install_delete(w)
        con = node_ops.install_replace_child(w)
        return Task(w, Node.replace_child, con, name="C14/Node.replace_child").run()
    if which == "copy":
        con = c12_copy.install(w)
        return Task(w, Node.copy, con, name="C14/Node.copy").run()


def reachable(roots):
    out = []
    stack = list(roots)
    while stack:
        x = stack.pop()
        out.append(x)
        stack.extend(x.children)
    return out


def bounded(tier, seed):
    import logging
    logging.disable(logging.CRITICAL)
    from metapype.model.node import Node
    from metapype.model import metapype_io
    from metapype.eml import validate, references
    b = Bounded("random histories (length 12) of create / copy / import from XML and JSON / attach / replace with deletion / prune / "
                "reference expansion / delete by id (with and without descendants) over a pool of held roots; after every step Node.store's "
                "keys are compared with the ids of the nodes reachable from the held roots plus explicitly detached-but-held nodes")
    b.rule = "a case is one history; non-trivial = it contains a discarding operation"
    rnd = random.Random(seed)
    XML = '<dataset><title>t</title><creator id="c1"><individualName><surName>s</surName></individualName></creator>' \
          '<contact><references>c1</references></contact><bogus>x</bogus></dataset>'
    for h in range(150 if tier == "quick" else 3000):
        Node.store.clear()
        roots = []
        hist = []
        discarding = False
        fail = None
        for step in range(12):
            op = rnd.choice(["create", "copy", "xml", "json", "attach", "replace", "prune", "expand", "delete", "delete1"])
            try:
                if op == "create":
                    roots.append(Node(rnd.choice(["title", "dataset", "x"])))
                elif op == "copy" and roots:
                    roots.append(rnd.choice(reachable(roots)).copy())
                elif op == "xml":
                    roots.append(metapype_io.from_xml(XML))
                elif op == "json" and roots:
                    src = rnd.choice(roots)
                    js = metapype_io.to_json(src)
                    # loading re-uses the ids of the source: outside the claim ("do not deliberately reuse an id") unless the source is gone
                    for x in reachable([src]):
                        Node.store.pop(x.id, None)
                    roots.remove(src)
                    roots.append(metapype_io.from_json(js))
                elif op == "attach" and len(roots) >= 2:
                    c = roots.pop(rnd.randrange(len(roots)))
                    p = rnd.choice(reachable(roots))
                    p.add_child(c)
                elif op == "replace" and roots:
                    cands = [x for x in reachable(roots) if x.parent is not None and x in x.parent.children]
                    if cands:
                        old = rnd.choice(cands)
                        new = Node(old.name)
                        old.parent.replace_child(old, new, delete_old=True)
                        discarding = True
                elif op == "prune" and roots:
                    r = rnd.choice(roots)
                    if r.parent is not None:
                        continue     # a copied inner node keeps its origin's parent link without being listed there: not a tree root in prune's sense
                    gone = validate.prune(r, strict=rnd.choice([True, False]))
                    if any(g[0] is r for g in gone):
                        roots.remove(r)       # the root itself was discarded (unknown element name)
                    discarding = True
                elif op == "expand" and roots:
                    r = rnd.choice(roots)
                    if any(x.name == "references" and x.children for x in reachable([r])):
                        continue     # a references node with element children (an attach above made one) is outside expand's domain (C16: references are leaves)
                    try:
                        references.expand(r)
                        discarding = True
                    except ValueError:
                        pass
                elif op in ("delete", "delete1") and roots:
                    cands = reachable(roots)
                    x = rnd.choice(cands)
                    if op == "delete":
                        if x.parent is not None and x in x.parent.children:
                            x.parent.remove_child(x)
                        elif x in roots:
                            roots.remove(x)
                        Node.delete_node_instance(x.id)
                        discarding = True
                    elif not x.children:
                        if x.parent is not None and x in x.parent.children:
                            x.parent.remove_child(x)
                        elif x in roots:
                            roots.remove(x)
                        Node.delete_node_instance(x.id, children=False)
                        discarding = True
            except Exception as ex:  # noqa
                fail = f"{op} raised {type(ex).__name__}: {ex}"
            hist.append(op)
            live = reachable(roots)
            ids = [x.id for x in live]
            if fail is None:
                if len(set(ids)) != len(ids):
                    fail = "two live nodes carry the same id"
                elif set(Node.store) != set(ids):
                    extra = set(Node.store) - set(ids)
                    missing = set(ids) - set(Node.store)
                    fail = f"after {op}: {len(extra)} discarded node(s) still registered, {len(missing)} live node(s) not registered"
                elif any(Node.get_node_instance(x.id) is not x for x in live):
                    fail = "get_node_instance returns a different object for a live id"
            if fail:
                b.failures.append(Failure("registry:" + hist[-1], fail, {"history": hist}, fail))
                break
        b.note(tuple(hist), nontrivial=discarding, sample=hist)
    return b


def main(tier, seed):
    t0 = time.time()
    results = common.run_tasks([("props.C14", "task", {"which": w}) for w in ("init", "get", "set", "delete", "replace", "copy")])
    b = bounded(tier, seed)
    return common.decide(PID, tier, seed, results, b, t0, "DESIGN.md §4 C14", extra_assumptions=[
        "A-uuid: generated ids differ from every registry key and from each other",
        "delete_node_instance / replace_child(delete_old) preconditions: the subtree is a tree whose nodes are registered under their own ids",
        "prune, reference expansion and the importers are covered here by the bounded histories only; their registry deltas are part of C15 / C16 / C06 / C08"])
