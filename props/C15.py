"""C15 — prune removes exactly the offending subtrees and nothing else."""
import itertools, os, random, sys, time
sys.path.insert(0, os.path.dirname(os.path.dirname(os.path.abspath(__file__))))
from props import common
from props.common import Bounded, Failure

PID = "C15"

# node palette: (name, content, attributes)
PALETTE = {
    "dataset": ("dataset", None, {}),                    # known; invalid on its own when children are missing (child errors)
    "title": ("title", "t", {}),                         # valid leaf
    "title-empty": ("title", None, {}),                  # known, content error
    "title-attr": ("title", "t", {"~bad~": "1"}),        # known, attribute error
    "creator": ("creator", None, {}),                    # known, child errors
    "surName": ("surName", "s", {}),                     # known leaf, misplaced under most parents
    "unknown": ("~unknown~", "x", {}),
    "metadata": ("metadata", None, {}),
    "additionalMetadata": ("additionalMetadata", None, {}),
}


def permitted_but_unknown():
    """(parent element, child name) pairs where the parent's rule lists a child name that is no known element (C10's known findings): the
    only way the unknown-element branch of prune is reached below a known root"""
    from metapype.eml import rule as rule_mod
    out = []
    for el, rn in sorted(rule_mod.node_mappings.items()):
        try:
            r = rule_mod.Rule(rn)
        except Exception:  # noqa
            continue
        for c in r._rule_children_names:
            if c not in rule_mod.node_mappings and (el, c) not in out:
                out.append((el, c))
    return out


def all_nodes(n):
    out = [n]
    for c in n.children:
        out.extend(all_nodes(c))
    return out


def check_prune(root, strict, what):
    """oracle of C15 on one real tree (consumes it); returns a Failure or None"""
    from metapype.eml import validate, rule as rule_mod
    from metapype.eml.exceptions import MetapypeRuleError
    from metapype.model.node import Node
    from props import native as nat
    desc = nat.describe(root)
    before = all_nodes(root)
    order_before = {id(n): [id(c) for c in n.children] for n in before}
    fields_before = {id(n): (n.name, n.content, n.tail, n.prefix, dict(n.attributes), dict(n.extras)) for n in before}
    ids_before = {n.id for n in before}
    others = set(Node.store) - ids_before

    def fail(kind, msg):
        return Failure(f"prune:{kind}", msg, {"tree": desc, "strict": strict, "what": what}, msg)

    try:
        pruned = validate.prune(root, strict)
    except Exception as ex:  # noqa
        return fail("raises", f"prune raised {type(ex).__name__}: {ex}")
    removed_roots = [p[0] for p in pruned]
    if any(not (isinstance(p, tuple) and len(p) == 2 and isinstance(p[1], str)) for p in pruned):
        return fail("result-shape", "the returned list is not a list of (node, reason) pairs")
    root_gone = any(r is root for r in removed_roots)
    after = [] if root_gone else all_nodes(root)
    after_ids = {id(n) for n in after}
    # removed = exactly the returned roots' subtrees
    gone = [n for n in before if id(n) not in after_ids]
    claimed = set()
    for r in removed_roots:
        for x in all_nodes(r):
            claimed.add(id(x))
    if {id(n) for n in gone} != claimed:
        return fail("result-mismatch", "the returned roots do not name precisely the removed subtrees")
    # kept nodes untouched, relative order kept
    for n in after:
        if fields_before[id(n)] != (n.name, n.content, n.tail, n.prefix, dict(n.attributes), dict(n.extras)):
            return fail("kept-node-changed", f"a kept node ({n.name}) was modified")
        if [id(c) for c in n.children] != [c for c in order_before[id(n)] if c in after_ids]:
            return fail("order", f"the children of a kept node ({n.name}) are not the surviving ones in their old order")
    # post-state: nothing offending is left outside metadata content
    def walk(n, is_root):
        if n.name not in rule_mod.node_mappings:
            return f"unknown element {n.name} left in the tree"
        if n.name == "metadata":
            return None
        r = rule_mod.get_rule(n.name)
        for c in n.children:
            if c.name in rule_mod.node_mappings and not r.is_allowed_child(c.name):
                return f"{n.name} still has the child {c.name}, which its rule does not allow"
        if strict and not is_root:
            try:
                validate.node(n)
            except MetapypeRuleError as ex:
                return f"strict mode left the invalid node {n.name} ({ex})"
        for c in n.children:
            w = walk(c, False)
            if w:
                return w
        return None
    if not root_gone:
        w = walk(root, True)
        if w:
            return fail("left-offender", w)
    # every removed root was offending
    parent_of = {}
    for n in before:
        for cid in order_before[id(n)]:
            parent_of[cid] = n
    for r in removed_roots:
        p = parent_of.get(id(r))
        offending = r.name not in rule_mod.node_mappings
        if not offending and p is not None and p.name in rule_mod.node_mappings:
            offending = not rule_mod.get_rule(p.name).is_allowed_child(r.name)
        if not offending and strict:
            # strict mode may remove a node that fails single-node validation; the removed node still holds its (pruned) children, so ask again
            try:
                validate.node(r)
            except MetapypeRuleError:
                offending = True
        if not offending:
            return fail("removed-innocent", f"{r.name} was removed although it is known and allowed under {p.name if p is not None else None}")
    # registry
    live = {n.id for n in after}
    if (set(Node.store) - others) != live:
        return fail("registry", "removed nodes are still registered, or kept nodes were unregistered")
    # idempotence
    if not root_gone:
        try:
            again = validate.prune(root, strict)
        except Exception as ex:  # noqa
            return fail("second-raises", f"pruning a second time raised {type(ex).__name__}")
        if again:
            return fail("not-idempotent", f"pruning a second time removed {[p[0].name for p in again]}")
    return None


def bounded(tier, seed):
    import logging
    logging.disable(logging.CRITICAL)
    from metapype.model.node import Node
    from metapype.model import metapype_io
    from props import native as nat
    maxn = 4 if tier == "quick" else 5
    for el, c in permitted_but_unknown()[:2]:
        PALETTE.setdefault("host:" + el, (el, None, {}))
        PALETTE.setdefault("permitted-unknown:" + c, (c, None, {}))
    kinds = sorted(PALETTE)
    b = Bounded(f"all trees with <= {maxn} nodes whose root is a known element, over the palette {kinds} (valid, content error, attribute error, "
                "misplaced known element, unknown element, child name a rule permits although it is no known element, metadata), in both modes; plus plantings of unknown / misplaced / invalid nodes at "
                "random depths of tests/data/eml.xml")
    b.rule = "a case is (tree, mode); non-trivial = more than one node"
    rnd = random.Random(seed)
    root_kinds = [k for k in kinds if k != "unknown" and not k.startswith("permitted-unknown:")]
    for n in range(1, maxn + 1):
        for shape in nat.shapes(n):
            paths = list(nat.paths_of(shape))
            combos = itertools.product(root_kinds, *[kinds] * (len(paths) - 1))
            combos = list(combos)
            if len(combos) > (400 if tier == "quick" else 4000):
                combos = rnd.sample(combos, 400 if tier == "quick" else 4000)
            for combo in combos:
                for strict in (False, True):
                    Node.store.clear()
                    spec = {}
                    for i, p in enumerate(paths):
                        nm, content, attrs = PALETTE[combo[i]]
                        spec[p] = {"name": nm, "content": content, "attributes": attrs}
                    t = nat.build(shape, lambda p: spec[p])
                    f = check_prune(t, strict, "enumerated")
                    b.note((shape, combo, strict), nontrivial=n > 1, sample={"shape": str(shape), "kinds": list(combo), "strict": strict})
                    if f is not None:
                        b.failures.append(f)
                        if len(b.failures) > 200:
                            return b
    xml_path = os.path.join(common.REPO, "tests/data/eml.xml")
    if os.path.exists(xml_path):
        xml = open(xml_path, encoding="utf-8").read()
        for k in range(40 if tier == "quick" else 1000):
            Node.store.clear()
            t = metapype_io.from_xml(xml)
            nodes = all_nodes(t)
            plants = []
            for _ in range(rnd.randint(1, 3)):
                host = rnd.choice(nodes)
                kind = rnd.choice(["unknown", "surName", "title-empty", "title-attr", "creator"])
                nm, content, attrs = PALETTE[kind]
                x = Node(nm, content=content)
                for a, v in attrs.items():
                    x.add_attribute(a, v)
                host.children.insert(rnd.randint(0, len(host.children)), x)
                x.parent = host
                plants.append((kind, host.name))
            strict = bool(k % 2)
            f = check_prune(t, strict, f"eml.xml with plants {plants}")
            b.note(("plant", k), nontrivial=True)
            if f is not None:
                b.failures.append(f)
    return b


def task(case):
    from pyvc.task import Task
    from contracts.rules_common import rule_world
    from contracts import c15_prune
    from metapype.eml import validate
    w = rule_world()
    if case == "first-loop":
        con = c15_prune.install_first_loop(w)
        return Task(w, validate.prune, con, name="C15/prune[children the rule does not permit]", goal_timeout_ms=8000).run()
    if case == "clean":
        con = c15_prune.install_clean(w)
        return Task(w, validate.prune, con, name="C15/prune[a clean tree is left alone]").run()
    con = c15_prune.install(w, case)
    return Task(w, validate.prune, con, name=f"C15/prune[{case}]").run()


def main(tier, seed):
    t0 = time.time()
    results = common.run_tasks([("props.C15", "task", {"case": c}) for c in ("metadata", "unknown", "clean", "first-loop")])
    b = bounded(tier, seed)
    return common.decide(PID, tier, seed, results, b, t0, "DESIGN.md §4 C15", extra_assumptions=[
        "proved: the two loop-free cases of prune (metadata node: nothing happens; unknown element: detached from its parent's list by "
        "first-occurrence removal, its whole subtree unregistered, reported as (node, reason)), against the contracts of remove_child and "
        "delete_node_instance; and, for the full recursive function in both modes: a tree that is already clean (ghost prune_clean, unfolded one "
        "level: known names, only permitted children, in strict mode valid non-root nodes; nothing is said below metadata) is left exactly as it "
        "is, nothing is reported and nothing is raised — the second half of 'pruning a second time removes nothing'",
        "validate.node and the rule table enter that proof abstractly (node_valid: what C04 proves of validate.node; rule_child_names_of: "
        "is_allowed_child is membership in the rule's child-name list, C17)",
        "proved: prune on a known node whose own validation fails, up to the loop that recurses into the children: the loop over the snapshot removes "
        "children the rule does not permit without raising; every child left in the list is permitted and is one of the old children; the ones still to "
        "be looked at are still there in order; other nodes' lists are untouched; Forest / Linked / own-lists hold again; nodes of the subtrees not yet "
        "looked at are still registered. From the recursion loop on prune is NOT VERIFIED in this case",
        "BOUNDED, not proved: that the first pruning as a whole establishes prune_clean and removes exactly the offending subtrees (disallowed children, "
        "strict re-validation, exactness, order of kept nodes): all trees up to the stated size over a palette of valid / invalid / misplaced / "
        "unknown / permitted-but-unknown nodes, both modes"])
