"""C16 — reference expansion substitutes independent copies, atomically."""
import itertools, os, random, sys, time
sys.path.insert(0, os.path.dirname(os.path.dirname(os.path.abspath(__file__))))
from props import common
from props.common import Bounded, Failure

PID = "C16"


def task(unique):
    from pyvc.task import Task
    from contracts.prelude import make_world
    from contracts import c16_refs
    from metapype.eml import references
    w = make_world()
    con = c16_refs.install(w, unique)
    return Task(w, references._register_ids, con, name=f"C16/_register_ids[{'ids unique' if unique else 'any tree'}]").run()


def task_expand():
    """expand up to the loop that starts substituting: nothing written, ValueError leaves the heap as it was, and the substitution is
    reached only when every references node of the subtree names a registered id"""
    from pyvc.task import Task
    from contracts.prelude import make_world
    from contracts import c16_refs
    from metapype.eml import references
    w = make_world()
    con = c16_refs.install_expand(w)
    return Task(w, references.expand, con, name="C16/expand[before the substitution]").run()


def all_nodes(n):
    out = [n]
    for c in n.children:
        out.extend(all_nodes(c))
    return out


def party(Node, kind, pid=None, ref=None, role=False, extra=True):
    """a responsible party (creator/contact/...) either spelled out (with id) or as a reference (optionally followed by a role)"""
    n = Node(kind)
    if pid:
        n.add_attribute("id", pid)
    if ref is not None:
        r = Node("references", content=ref)
        n.add_child(r)
    else:
        ind = Node("individualName")
        ind.add_child(Node("surName", content="s-" + (pid or "x")))
        n.add_child(ind)
        if extra:
            n.add_child(Node("electronicMailAddress", content="m@" + (pid or "x")))
    if role:
        n.add_child(Node("role", content="r"))
    return n


def check_expand(root, what):
    from metapype.eml import references, validate
    from metapype.model.node import Node
    from props import native as nat
    desc = nat.describe(root)
    nodes = all_nodes(root)
    ids = {}
    dup = False
    for n in nodes:
        if "id" in n.attributes:
            if n.attributes["id"] in ids:
                dup = True
            ids[n.attributes["id"]] = n
    refs = [n for n in nodes if n.name == "references"]
    dangling = any(r.content not in ids for r in refs)
    snap_before = nat.snapshot(root)
    store_before = set(Node.store)
    src_snaps = {k: nat.snapshot(v) for k, v in ids.items()}
    expected_children = {}
    for r in refs:
        p = r.parent
        if id(p) not in expected_children:
            exp = []
            for c in p.children:
                if c.name == "references" and c.content in ids:
                    exp.extend(nat.snapshot(x) for x in ids[c.content].children)
                else:
                    exp.append(nat.snapshot(c))
            expected_children[id(p)] = (p, exp)
    valid_before = True
    try:
        validate.tree(root)
    except Exception:
        valid_before = False

    def fail(kind, msg):
        return Failure(f"expand:{kind}", msg, {"tree": desc, "what": what}, msg)
    try:
        references.expand(root)
        raised = None
    except ValueError:
        raised = "ValueError"
    except Exception as ex:  # noqa
        return fail("foreign-exception", f"expand raised {type(ex).__name__}: {ex}")
    if dup or dangling:
        if raised != "ValueError":
            return fail("no-error", "a duplicated id / dangling reference did not raise ValueError")
        if nat.snapshot(root) != snap_before or set(Node.store) != store_before:
            return fail("not-atomic", "expand raised ValueError but left the tree (or the registry) changed")
        return None
    if raised:
        return fail("spurious-error", "expand raised ValueError on a resolvable tree")
    after = all_nodes(root)
    if any(n.name == "references" for n in after):
        return fail("references-left", "a references node is left behind")
    for p, exp in expected_children.values():
        if [nat.snapshot(c) for c in p.children] != exp:
            return fail("wrong-place", f"the children of {p.name} are not the old ones with each references node replaced in place by the referenced element's children")
        if any(c.parent is not p for c in p.children):
            return fail("parent", "a substituted copy's parent link does not name the referencing node")
    for k, v in ids.items():
        if v in after and nat.snapshot(v) != src_snaps[k] and not any(r.parent is v for r in refs):
            return fail("source-changed", f"the referenced element {k} was changed")
    live = all_nodes(root)
    # the copies are independent at every depth: below the expanded tree every node's parent link names the node that lists it
    for x in live:
        for c in x.children:
            if c.parent is not x:
                return fail("parent-deep", f"after expansion the parent link of {c.name} (under {x.name}) names "
                                           f"{c.parent.name if c.parent is not None else None} instead of the node that lists it: the copy is not independent of its source")
    if len({id(x) for x in live}) != len(live):
        return fail("shared", "a node occurs twice in the expanded tree (copies are not independent)")
    if {x.id for x in live} - set(Node.store) or any(Node.store.get(x.id) is not x for x in live):
        return fail("registry", "a node of the expanded tree is not registered under its id")
    if valid_before:
        try:
            validate.tree(root)
        except Exception as ex:  # noqa
            return fail("invalidates", f"the tree validated before expansion and does not afterwards: {ex}")
    return None


def bounded(tier, seed):
    import logging
    logging.disable(logging.CRITICAL)
    from metapype.model.node import Node
    b = Bounded("datasets with 1..3 spelled-out parties (creator / contact / associatedParty / personnel under project, with ids) and 0..3 referencing "
                "parties (with and without a role after the references node), in all document orders of a small set; plus all placements of one "
                "dangling reference or one duplicated id (between siblings, between an element and its ancestor, between an element and its descendant, between an element and a grandchild of a later / earlier sibling, between two cousins' grandchildren); expansion compared with an independent substitution model, validity before/after, "
                "registry, independence")
    b.rule = "a case is one dataset tree; non-trivial = at least one reference"
    rnd = random.Random(seed)
    kinds = ["creator", "contact", "associatedParty"]
    count = 0
    for nsrc in (1, 2):
        for nref in (0, 1, 2, 3):
            for order_seed in range(6 if tier == "quick" else 40):
                for fault in (None, "dangling", "dup", "dup-ancestor", "dup-descendant", "dup-deep-later", "dup-deep-earlier", "dup-deep-cousins"):
                    Node.store.clear()
                    ds = Node("dataset")
                    ds.add_child(Node("title", content="t"))
                    items = []
                    for i in range(nsrc):
                        items.append(("src", i))
                    for j in range(nref):
                        items.append(("ref", j))
                    rr = random.Random(order_seed * 97 + nsrc * 7 + nref)
                    rr.shuffle(items)
                    # dataset rule wants creators before contacts: keep kinds consistent with validity where possible
                    for kind_i, (what, i) in enumerate(items):
                        k = "creator" if kind_i < max(1, len(items) // 2) else rr.choice(["contact", "associatedParty"])
                        if what == "src":
                            ds.add_child(party(Node, k, pid=f"p{i}"))
                        else:
                            target = f"p{rr.randrange(nsrc)}"
                            if fault == "dangling" and i == nref - 1:
                                target = "nobody"
                            ds.add_child(party(Node, k, ref=target, role=(k == "associatedParty")))
                    if fault == "dup":
                        if nsrc < 2:
                            continue
                        for c in ds.children:
                            if c.attributes.get("id") == "p1":
                                c.attributes["id"] = "p0"
                    if fault == "dangling" and nref == 0:
                        continue
                    if fault == "dup-ancestor":          # the same id on an element and on something inside it
                        ds.add_attribute("id", "p0")
                    if fault == "dup-descendant":
                        for c in ds.children:
                            if c.attributes.get("id") == "p0" and c.children:
                                c.children[0].add_attribute("id", "p0")
                    # creators must precede contacts for validity: sort children by the dataset rule order
                    order = {"title": 0, "creator": 1, "associatedParty": 2, "contact": 3}
                    ds._children.sort(key=lambda c: order.get(c.name, 9))
                    if fault and fault.startswith("dup-deep"):
                        # seeded/C16c: the second use of an id lies two or more levels below the nearest common ancestor of the two uses
                        spelled = [c for c in ds.children if c.attributes.get("id") and c.children and c.children[0].children]
                        if fault == "dup-deep-cousins":
                            if len(spelled) < 2:
                                continue
                            spelled[0].children[0].children[0].add_attribute("id", "deep")
                            spelled[-1].children[0].children[0].add_attribute("id", "deep")
                        else:
                            owner = spelled[-1] if fault == "dup-deep-later" else spelled[0]
                            others = [c for c in ds.children if c.attributes.get("id") and c is not owner
                                      and (ds.children.index(c) < ds.children.index(owner)) == (fault == "dup-deep-later")]
                            if not others:
                                continue
                            owner.children[0].children[0].add_attribute("id", others[0].attributes["id"])
                    f = check_expand(ds, f"sources={nsrc} refs={nref} fault={fault}")
                    count += 1
                    b.note((nsrc, nref, order_seed, fault), nontrivial=nref > 0, sample={"sources": nsrc, "references": nref, "fault": fault})
                    if f is not None:
                        b.failures.append(f)
    # the shipped fixture
    xml_path = os.path.join(common.REPO, "tests/data/eml.xml")
    if os.path.exists(xml_path):
        from metapype.model import metapype_io
        Node.store.clear()
        t = metapype_io.from_xml(open(xml_path, encoding="utf-8").read())
        f = check_expand(t, "tests/data/eml.xml")
        b.note(("fixture",), True)
        if f is not None:
            b.failures.append(f)
    return b


def main(tier, seed):
    t0 = time.time()
    results = common.run_tasks([("props.C16", "task", {"unique": u}) for u in (True, False)] + [("props.C16", "task_expand", {})])
    b = bounded(tier, seed)
    return common.decide(PID, tier, seed, results, b, t0, "DESIGN.md §4 C16", extra_assumptions=[
        "proved: references._register_ids returns a fresh dict mapping exactly the id attribute values of the subtree to their nodes, writes no "
        "pre-existing object, and cannot raise when ids are unique; the callees expand composes are proved elsewhere (Node.copy C12, add_child "
        "with insertion index / remove_child C09, delete_node_instance C14, find_all_descendants frame C11)",
        "proved for expand up to its substitution loop: collecting the references nodes (exact find_all_descendants contract, C09), building "
        "the register and checking every reference write nothing that existed before the call; a ValueError leaves the heap as it was; the "
        "substitution loop is reached only if every references node of the subtree names a registered id of the subtree (atomic failure)",
        "BOUNDED, not proved: the substitution loop of expand (copies in place and in order, no references left, referenced elements "
        "unchanged, validity preserved)"])
