"""C17 — suggested insertion index is schema-legal and restores validity when possible."""
import itertools, json, os, random, sys, time
sys.path.insert(0, os.path.dirname(os.path.dirname(os.path.abspath(__file__))))
from props import common
from props.common import Bounded, Failure

PID = "C17"
MIXED = {"textRule", "anyNameRule", "paraRule", "subscriptRule", "superscriptRule"}


def task(rule_name):
    from pyvc.task import Task
    from contracts.rules_common import rule_world, load_rules
    from contracts import c17_insert
    import metapype.eml.rule as rule_mod
    rules = load_rules()
    w = rule_world()
    con, con2, names, rank_of = c17_insert.install(w, rule_name, rules[rule_name][1], rule_name in MIXED)
    return [Task(w, rule_mod.Rule.child_insert_index, con, name=f"C17/{rule_name}/child_insert_index").run(),
            Task(w, rule_mod.Rule.is_allowed_child, con2, name=f"C17/{rule_name}/is_allowed_child").run()]


def lemmas():
    """spec-level lemmas per rule, decided exactly by automata constructions (ground obligations)"""
    from contracts import rulelang as RL, c17_insert
    rules = json.load(open(os.path.join(common.REPO, "src/metapype/eml/rules.json")))
    obs, fails = [], []
    for rn, (A, ch, c) in rules.items():
        ast = RL.parse(ch, rn in MIXED)
        names = RL.names_of(ast)
        rank_of = {}
        for i, a in enumerate(names):
            rank_of.setdefault(a, i)
        uniq = len(set(names)) == len(names)
        obs.append({"name": f"C17/{rn}/lemma:names-unique", "status": "proved" if uniq else "refuted", "time_s": 0.0, "detail": "", "path": "", "kind": "ground"})
        cex = c17_insert.insertion_lemma(ast, names, rank_of)
        obs.append({"name": f"C17/{rn}/lemma:suggested-position-restores-validity", "status": "proved" if cex is None else "refuted", "time_s": 0.0,
                    "detail": "" if cex is None else f"children {cex[0]} + new child {cex[1]}", "path": "", "kind": "ground"})
        if cex is not None:
            fails.append(Failure(f"insert:{rn}", f"rule {rn}: inserting '{cex[1]}' into {cex[0]} at the suggested index gives an invalid sequence although "
                                 f"another position gives a valid one", {"rule": rn, "children": cex[0], "new_child": cex[1]}, "invalid"))
        for a in sorted(set(names)):
            ok = c17_insert.occurs_in_some_word(ast, a)
            obs.append({"name": f"C17/{rn}/lemma:allowed-name-occurs-in-some-valid-sequence:{a}", "status": "proved" if ok else "refuted", "time_s": 0.0,
                        "detail": "", "path": "", "kind": "ground"})
    return obs, fails


def bounded(tier, seed):
    import logging
    logging.disable(logging.CRITICAL)
    from contracts import rulelang as RL
    from metapype.eml import rule as rule_mod
    from metapype.eml.exceptions import ChildNotAllowedError
    from metapype.model.node import Node
    rules = json.load(open(os.path.join(common.REPO, "src/metapype/eml/rules.json")))
    L = 3 if tier == "quick" else 4
    b = Bounded(f"every rule x every existing child sequence over its names up to length {L} (sampled when the alphabet is large) x every "
                "candidate name (and one foreign name): index in bounds, rank order kept, and if some position yields a sequence of L_lo then "
                "the suggested one yields a sequence of L_hi, judged by the independent automata; is_allowed_child versus the language")
    b.rule = "a case is (rule, sequence, candidate); non-trivial = sequence non-empty"
    rnd = random.Random(seed)
    for rn, (A, ch, c) in rules.items():
        ast = RL.parse(ch, rn in MIXED)
        names = RL.names_of(ast)
        dlo, dhi = RL.to_dfa(ast, False), RL.to_dfa(ast, True)
        r = rule_mod.Rule(rn)
        words = [()]
        for k in range(1, L + 1):
            allw = itertools.product(names, repeat=k)
            if len(names) ** k > (150 if tier == "quick" else 400):
                words += [tuple(rnd.choice(names) for _ in range(k)) for _ in range(150 if tier == "quick" else 400)]
            else:
                words += list(allw)
        for w in words:
            Node.store.clear()
            p = Node("x")
            for nm in w:
                p.children.append(Node(nm))
            for cand in names + ["~foreign~"]:
                try:
                    idx = r.child_insert_index(p, Node(cand))
                except ChildNotAllowedError:
                    idx = "not-allowed"
                except Exception as ex:  # noqa
                    idx = type(ex).__name__
                b.note((rn, w, cand), nontrivial=len(w) > 0)
                bad = None
                if cand == "~foreign~":
                    if idx != "not-allowed":
                        bad = f"foreign name not refused: {idx}"
                elif not isinstance(idx, int) or not (0 <= idx <= len(w)):
                    bad = f"index {idx} out of bounds"
                else:
                    rk = names.index(cand)
                    if any(names.index(x) > rk for x in w[:idx]) or (idx < len(w) and names.index(w[idx]) <= rk):
                        bad = f"index {idx} does not keep the declared order"
                    else:
                        some = any(dlo.accepts(w[:i] + (cand,) + w[i:]) for i in range(len(w) + 1))
                        if some and not dhi.accepts(w[:idx] + (cand,) + w[idx:]):
                            bad = f"index {idx} gives an invalid sequence although another position is valid"
                if bad:
                    b.failures.append(Failure("insert:" + bad.split(" ")[0], f"rule {rn}, children {list(w)}, new child {cand}: {bad}",
                                              {"rule": rn, "children": list(w), "new_child": cand}, bad))
        for a in names + ["~foreign~"]:
            if r.is_allowed_child(a) != (a in names):
                b.failures.append(Failure("allowed:query", f"rule {rn}: is_allowed_child({a}) is wrong", {"rule": rn, "name": a}, ""))
    return b


def main(tier, seed):
    t0 = time.time()
    from contracts.rules_common import load_rules
    rules = load_rules()
    results = common.run_tasks([("props.C17", "task", {"rule_name": r}) for r in rules], procs=16)
    obs, fails = lemmas()
    results.append({"task": "C17/lemmas (spec-level, decided exactly by automata constructions)", "paths": 0, "restarts": 0, "wall_s": 0.0,
                    "obligations": obs, "functions": {}, "assumptions": [], "crash": None})
    b = bounded(tier, seed)
    b.failures = fails + b.failures
    return common.decide(PID, tier, seed, results, b, t0, "DESIGN.md §4 C17", extra_assumptions=[
        "precondition from the property's quantifier: the existing children are names of the rule (a foreign existing child makes "
        "child_insert_index raise ValueError; outside the claim)",
        "'restores validity when possible' and 'allowed names occur in some valid sequence' are spec-level lemmas per rule, decided exactly by "
        "product-automaton search on the spec side (python), given the proved characterisation of the returned index"],
        extra_coverage={"rules": len(rules)})
