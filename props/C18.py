"""C18 — structural equality compares whole trees."""
import sys, os, time
sys.path.insert(0, os.path.dirname(os.path.dirname(os.path.abspath(__file__))))
from props import common
from props.common import Bounded, Failure

PID = "C18"


def task_is_equal():
    from pyvc.task import Task
    from contracts.prelude import make_world, Node
    from contracts import c18_equal
    w = make_world()
    con = c18_equal.install(w)
    return Task(w, Node.is_equal, con, name="C18/is_equal").run()


def task_lcard():
    """L-card is machine-checked: lemmas/LCard.lean (Lean 4 + Mathlib) is compiled on every run; no `sorry`, no extra axioms"""
    return common.lean_task("C18/lemma:L-card", "C18/lemma:L-card/lean-proof", "LCard.lean",
                            "L-card: proved in Lean 4 + Mathlib (lemmas/LCard.lean: lcard_le, lcard_eq) for the abstract model of an insertion-ordered dict (n positions, "
                            "an injective key function); the z3 side uses the two implications as instances for the dict pairs that is_equal compares — the "
                            "correspondence between the heap encoding's dkey/dpos bijection and that abstract model is by inspection of dict_wf")


def bounded(tier):
    from props import native as nat
    from metapype.model.node import Node
    b = Bounded("all ordered tree shapes with <= %d nodes; pairs (t, t') with t' an independently built copy of t "
                "changed in exactly one field of exactly one node (8 fields), or with one leaf added/removed; both argument "
                "orders, with private namespace maps and with maps shared between parent and child; "
                "compared with an independent structural-equality oracle; plus copy-then-edit: every single edit (9 kinds) of every node of a deep copy "
                "or of its original must make them compare unequal, in both argument orders" % (4 if tier == "quick" else 5))
    b.rule = "a case is a (shape, node position, mutated field, argument order) tuple; non-trivial = the trees differ or have >1 node"
    maxn = 4 if tier == "quick" else 5
    fields = ["name", "content", "tail", "prefix", "attributes", "nsmap", "extras", "attr-key"]

    def base(path):
        return {"name": "n%d" % len(path), "content": "c", "tail": None, "attributes": {"a": "1"}, "nsmap": {"p": "u"}, "extras": {"x:y": "z"}}

    def mutated(target, field):
        def namer(path):
            d = base(path)
            if path == target:
                if field == "name":
                    d["name"] = "other"
                elif field == "content":
                    d["content"] = "c2"
                elif field == "tail":
                    d["tail"] = "t"
                elif field == "prefix":
                    d["prefix"] = "p"
                elif field == "attributes":
                    d["attributes"] = {"a": "2"}
                elif field == "attr-key":
                    d["attributes"] = {"b": "1"}
                elif field == "nsmap":
                    d["nsmap"] = {"p": "u2"}
                elif field == "extras":
                    d["extras"] = {"x:y": "z2"}
            return d
        return namer

    for n in range(1, maxn + 1):
        for shape in nat.shapes(n):
            nat.reset_store()
            a = nat.build(shape, base)
            a2 = nat.build(shape, base)
            cases = [("equal", None, a2)]
            for p in nat.paths_of(shape):
                for f in fields:
                    cases.append((f, p, nat.build(shape, mutated(p, f))))
                # one extra leaf appended under p
                extra = nat.build(shape, base)
                leaf = Node("leaf")
                nat.node_at(extra, p).children.append(leaf)
                leaf.parent = nat.node_at(extra, p)
                cases.append(("extra-child", p, extra))
            # the same tree with the aliasing add_child / from_xml produce: a node whose map equals its parent's holds the parent's object
            a_shared = nat.build(shape, base)

            def share(n):
                for c in n.children:
                    if c.nsmap == n.nsmap:
                        c.nsmap = n.nsmap
                    share(c)
            share(a_shared)
            for (what, p, other) in cases:
                for x, y, order in ((a, other, "ab"), (other, a, "ba"), (a_shared, other, "ab/shared-maps"), (other, a_shared, "ba/shared-maps")):
                    exp = nat.spec_equal(x, y)
                    try:
                        got = Node.is_equal(x, y)
                    except Exception as ex:  # noqa
                        got = "raised %s" % type(ex).__name__
                    b.note((shape, what, p, order), nontrivial=(what != "equal" or n > 1),
                           sample={"shape": str(shape), "mutation": what, "at": str(p), "order": order, "expected": exp, "got": str(got)})
                    if got is not exp:
                        key = "is_equal:%s" % ("first-child-chain-only" if what != "equal" and got is True else "other")
                        b.failures.append(Failure(key, "Node.is_equal(%s) answered %s, structural equality is %s" % (order, got, exp),
                                                  {"a": nat.describe(x), "b": nat.describe(y), "mutation": what, "at": list(p) if p else None},
                                                  str(got), str(exp)))
    # a deep copy compares equal to its original until one of them is edited anywhere
    def edits():
        return {"name": lambda x: setattr(x, "name", x.name + "~"), "content": lambda x: setattr(x, "content", "edited"),
                "tail": lambda x: setattr(x, "tail", "edited"), "prefix": lambda x: setattr(x, "prefix", "pp"),
                "attribute": lambda x: x.add_attribute("edited", "1"), "extras-add": lambda x: x.add_extras("edited", "1"),
                "extras-change": lambda x: x.extras.__setitem__("x:y", "edited"), "namespace": lambda x: x.add_namespace("edited", "urn:e"),
                "child": lambda x: x.add_child(Node("added"))}

    def walk(t):
        out = [t]
        for c in t.children:
            out.extend(walk(c))
        return out
    for n in range(1, min(maxn, 4) + 1):
        for shape in nat.shapes(n):
            for pos in range(n):
                for ename in edits():
                    for side in ("copy", "original"):
                        nat.reset_store()
                        t = nat.build(shape, base)
                        cp = t.copy()
                        if not (Node.is_equal(t, cp) and Node.is_equal(cp, t)):
                            b.failures.append(Failure("is_equal:copy-not-equal", "a fresh deep copy does not compare equal to its original", {"a": nat.describe(t)}, "False", "True"))
                            break
                        target = walk(cp if side == "copy" else t)[pos]
                        edits()[ename](target)
                        got = (Node.is_equal(t, cp), Node.is_equal(cp, t))
                        b.note((shape, "copy-then-edit", pos, ename, side), nontrivial=True, sample={"shape": str(shape), "edit": ename, "at": pos, "side": side})
                        if got != (False, False):
                            b.failures.append(Failure("is_equal:copy-still-equal-after-edit", f"after the edit '{ename}' on node {pos} of the {side}, is_equal(original, copy) / "
                                                      f"(copy, original) answer {got}: copy and original are not independent, or the comparison misses the field",
                                                      {"a": nat.describe(t), "edit": ename, "at": pos, "side": side}, str(got), "(False, False)"))
    return b


def main(tier, seed):
    t0 = time.time()
    specs = [("props.C18", "task_is_equal", {}), ("props.C18", "task_lcard", {})]
    results = common.run_tasks(specs)
    b = bounded(tier)
    return common.decide(PID, tier, seed, results, b, t0, "DESIGN.md §4 C18",
                         extra_assumptions=[
                                            "precondition PD: positionally corresponding nodes of the two trees are distinct objects "
                                            "(implied by 'two distinct trees'; comparing a tree with itself is outside the property)"])
