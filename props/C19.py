"""C19 — evaluation is total and reports exactly the documented recommendations."""
import itertools, os, random, sys, time
sys.path.insert(0, os.path.dirname(os.path.dirname(os.path.abspath(__file__))))
from props import common
from props.common import Bounded, Failure

PID = "C19"
PROVED = ["_responsible_party_rule", "_associated_responsible_party_rule", "_contact_rule", "_creator_rule", "_metadata_provider_rule", "_personnel_rule",
          "_individual_name_rule", "_other_entity_rule", "_title_rule", "_description_rule"]


def task_lemma_lean():
    return common.lean_task("C19/lemma:fold-filter[Lean]", "C19/lemma:fold-filter/lean-proof", "Folds.lean",
                            "L-fold-filter is also proved in Lean 4 (lemmas/Folds.lean: fold_filter) by induction over abstract functions that satisfy the ghosts' "
                            "one-level unfoldings, so the induction principle itself is machine-checked; the z3 obligations tie base and step to the actual ghost symbols")


def task_tree_order():
    from pyvc.task import Task
    from contracts.prelude import make_world
    from contracts import c19_eval
    from metapype.eml import evaluate
    w = make_world()
    con = c19_eval.install_tree_order(w)
    return Task(w, evaluate.tree, con, name="C19/evaluate.tree[document order]").run()


def task_text_content():
    from pyvc.task import Task
    from contracts.prelude import make_world
    from contracts import c19_eval
    from metapype.eml import evaluate
    w = make_world()
    con = c19_eval.install_text_content(w)
    return Task(w, evaluate.get_text_content, con, name="C19/get_text_content[emptiness]").run()


def task_lemma():
    """L-fold-filter (induction over the child index; base and step discharged by z3)"""
    from pyvc.task import TaskResult
    from pyvc.core import ObRec
    from contracts import c19_eval
    r = TaskResult("C19/lemma:fold-filter")
    for nm, ok, t in c19_eval.fold_filter_lemma():
        r.obs.append(ObRec(f"C19/lemma:fold-filter/{nm}", "proved" if ok else "undecided", t, kind="lemma"))
    r.assumptions.add("induction over the naturals is applied outside the solver (base case and step are the two obligations)")
    return r


def task(which, shard=None, preload=None):
    from pyvc.task import Task
    from contracts.prelude import make_world
    from contracts import c19_eval, c11_frames
    w = make_world()
    if which in ("node", "tree"):
        fs = c11_frames.install(w)
        f, con = fs["evaluate." + which]
        con.ignore_exceptions = False      # totality: nothing may escape (the evaluators enter by their contracts, which raise nothing)
        return Task(w, f, con, name=f"C19/evaluate.{which}[total]").run()
    fs = c19_eval.install(w)
    if which in ("_description_rule", "_dataset_rule"):
        w.add(fs["__gtc"])
    if which == "_dataset_rule":
        from contracts import c09_queries as Q9
        Q9.install_find_all_children(w)
    f, con = fs[which]
    if shard is not None:
        return Task(w, f, con, name=f"C19/{which}[paths {''.join('T' if b else 'F' for b in shard[1])} at decisions {shard[0]}..]", shard=(shard[0], tuple(shard[1])),
                    max_paths=20000, preload=preload).run()
    return Task(w, f, con, name=f"C19/{which}", max_paths=20000).run()


# ------------------------------------------------------------------------------------------------ independent oracle
def text_of(n):
    """text under a TextType node: own content plus the content of para / markdown descendants"""
    out = n.content or ""
    def walk(x, name):
        r = []
        for c in x.children:
            if c.name == name:
                r.append(c)
            r.extend(walk(c, name))
        return r
    for p in walk(n, "para") + walk(n, "markdown"):
        if p.content:
            out += "\n" + p.content
    return out


def expected(n):
    """documented recommendations for one node, as a list of warning names (None when the node type has no evaluator or nothing to say)"""
    kids = n.children
    has = lambda nm: any(c.name == nm and c.content for c in kids)
    if n.name in ("associatedParty", "contact", "creator", "metadataProvider", "personnel"):
        w = []
        orcid = any(c.name == "userId" and c.content and c.attributes.get("directory") == "https://orcid.org" for c in kids)
        if not orcid:
            w.append("ORCID_ID_MISSING")
        if not has("userId"):
            w.append("USER_ID_MISSING")
        if not has("electronicMailAddress"):
            w.append("EMAIL_MISSING")
        return w
    if n.name == "individualName":
        return None if (has("givenName") and has("surName")) else ["INDIVIDUAL_NAME_INCOMPLETE"]
    if n.name == "otherEntity":
        return [] if has("entityDescription") else ["OTHER_ENTITY_DESCRIPTION_MISSING"]
    if n.name == "title":
        if n.content is not None and n.parent is not None and n.parent.name == "dataset" and len(" ".join(n.content.replace("\xa0", " ").split()).split(" ")) < 5:
            return ["TITLE_TOO_SHORT"]
        return []
    if n.name == "description":
        table = {"connectionDefinition": "CONNECTION_DEFINITION_DESCRIPTION_MISSING", "designDescription": "DESIGN_DESCRIPTION_DESCRIPTION_MISSING",
                 "maintenance": "MAINTENANCE_DESCRIPTION_MISSING", "methodStep": "METHOD_STEP_DESCRIPTION_MISSING",
                 "procedureStep": "PROCEDURE_STEP_DESCRIPTION_MISSING", "qualityControl": "QUALITY_CONTROL_DESCRIPTION_MISSING",
                 "samplingDescription": "SAMPLING_DESCRIPTION_DESCRIPTION_MISSING", "studyExtent": "STUDY_EXTENT_DESCRIPTION_MISSING"}
        if not text_of(n) and n.parent is not None and n.parent.name in table:
            return [table[n.parent.name]]
        return []
    if n.name == "dataset":
        w = []
        last = lambda nm: next((c for c in reversed(kids) if c.name == nm), None)
        ab = last("abstract")
        if ab is None:
            w.append("DATASET_ABSTRACT_MISSING")
        else:
            t = text_of(ab)
            if not t:
                w.append("DATASET_ABSTRACT_MISSING")
            elif len(t.split()) < 20:
                w.append("DATASET_ABSTRACT_TOO_SHORT")
        cov = last("coverage")
        if not (cov is not None and cov.children):
            w.append("DATASET_COVERAGE_MISSING")
        if last("dataTable") is None:
            w.append("DATATABLE_MISSING")
        ir = last("intellectualRights")
        if not (ir is not None and ir.content):
            w.append("INTELLECTUAL_RIGHTS_MISSING")
        ks = [c for c in kids if c.name == "keywordSet"]
        if not ks:
            w.append("KEYWORDS_MISSING")
        elif sum(len([k for k in s.children if k.name == "keyword"]) for s in ks) < 5:
            w.append("KEYWORDS_INSUFFICIENT")
        if last("methods") is None:
            w.append("DATASET_METHOD_STEPS_MISSING")
        if last("project") is None:
            w.append("DATASET_PROJECT_MISSING")
        return w
    if n.name == "dataTable":
        w = []
        if not has("entityDescription"):
            w.append("DATATABLE_DESCRIPTION_MISSING")
        first = lambda x, nm: next((c for c in x.children if c.name == nm), None) if x is not None else None
        lastc = lambda x, nm: next((c for c in reversed(x.children) if c.name == nm), None) if x is not None else None
        phys = first(n, "physical")
        size, auth, rd = lastc(phys, "size"), lastc(phys, "authentication"), lastc(phys, "recordDelimiter")
        tf = first(lastc(phys, "dataFormat"), "textFormat")
        rd2 = first(tf, "recordDelimiter")
        if rd2 is not None:
            rd = rd2
        nr = first(n, "numberOfRecords")
        if not (size is not None and size.content):
            w.append("DATATABLE_SIZE_MISSING")
        if not (auth is not None and auth.content):
            w.append("DATATABLE_MD5_CHECKSUM_MISSING")
        if not (nr is not None and nr.content):
            w.append("DATATABLE_NUMBER_OF_RECORDS_MISSING")
        if not (rd is not None and rd.content):
            w.append("DATATABLE_RECORD_DELIMITER_MISSING")
        return w
    return None


def expected_tree(root):
    out = []
    e = expected(root)
    if e:
        out.extend((x, id(root)) for x in e)
    for c in root.children:
        out.extend(expected_tree(c))
    return out


def check_tree(t, what):
    from metapype.eml import evaluate
    from props import native as nat
    pre = [("sentinel", "x", None)]
    warnings = list(pre)
    try:
        evaluate.tree(t, warnings)
    except Exception as ex:  # noqa
        return Failure(f"evaluate:raises:{type(ex).__name__}", f"evaluate.tree raised {type(ex).__name__}: {ex}", {"what": what, "tree": nat.describe(t) if len(str(nat.describe(t))) < 3000 else "large"}, str(ex))
    if warnings[:1] != pre:
        return Failure("evaluate:clobbers", "earlier entries of the warnings list were disturbed", {"what": what}, "")
    got = warnings[1:]
    if any(not (isinstance(w, tuple) and len(w) == 3 and isinstance(w[1], str)) for w in got):
        return Failure("evaluate:shape", "an appended entry is not a (code, message, node) triple", {"what": what}, "")
    g = [(w[0].name, id(w[2])) for w in got]
    e = expected_tree(t)
    if g != e:
        miss = [x[0] for x in e if x not in g][:4]
        extra = [x[0] for x in g if x not in e][:4]
        return Failure("evaluate:wrong-warnings:" + (miss + extra + ["order"])[0], f"warnings differ from the documented recommendations: missing {miss}, unexpected {extra}",
                       {"what": what, "tree": nat.describe(t) if len(str(nat.describe(t))) < 3000 else "large"}, str([x[0] for x in g])[:300], str([x[0] for x in e])[:300])
    return None


def bounded(tier, seed):
    import logging
    logging.disable(logging.CRITICAL)
    from metapype.model.node import Node
    from metapype.model import metapype_io
    b = Bounded("tests/data/eml.xml and hand-built datasets mutated around every threshold (title 4/5 words incl. nbsp and double spaces, abstract "
                "missing / empty / 19 / 20 words / text only in inline para children, keywords 0/4/5 over one or two sets, each recommended child "
                "present / absent / empty, parties with and without ORCID / userId / e-mail and with several userIds in either order, incomplete names, data tables with each of size / "
                "checksum / record count / delimiter (both places) missing, descriptions empty under every listed parent and parentless); "
                "evaluate.tree compared with an independent declarative oracle; earlier list entries must survive")
    b.rule = "a case is one tree; non-trivial = it contains an evaluated element"
    rnd = random.Random(seed)
    N = Node

    def words(k, sep=" "):
        return sep.join(["w%d" % i for i in range(k)])

    def dataset(title_words=6, abstract=("content", 25), keywords=(5,), coverage="geo", datatable=True, rights="r", methods=True, project=True,
                party="full", tsep=" "):
        ds = N("dataset")
        t = N("title", content=words(title_words, tsep) if title_words is not None else None)
        ds.add_child(t)
        cr = N("creator")
        ind = N("individualName")
        if party != "nogiven":
            ind.add_child(N("givenName", content="g"))
        ind.add_child(N("surName", content="s" if party != "emptysur" else None))
        cr.add_child(ind)
        if party in ("full", "nogiven", "emptysur"):
            u = N("userId", content="0000")
            u.add_attribute("directory", "https://orcid.org")
            cr.add_child(u)
            cr.add_child(N("electronicMailAddress", content="a@b"))
        elif party == "plainid":
            u = N("userId", content="77")
            u.add_attribute("directory", "elsewhere")
            cr.add_child(u)
        elif party in ("orcid-then-other", "other-then-orcid", "orcid-then-empty"):
            first, second = N("userId", content="0000"), N("userId", content="77" if party != "orcid-then-empty" else None)
            first.add_attribute("directory", "https://orcid.org")
            second.add_attribute("directory", "elsewhere")
            for u in ((second, first) if party == "other-then-orcid" else (first, second)):
                cr.add_child(u)
            cr.add_child(N("electronicMailAddress", content="a@b"))
        ds.add_child(cr)
        if abstract is not None:
            ab = N("abstract")
            kind, k = abstract
            if kind == "content":
                ab.content = words(k) if k else None
            elif kind == "para":
                p = N("para", content=words(k) if k else None)
                ab.add_child(p)
            elif kind == "inline-only":
                p = N("para")
                p.add_child(N("emphasis", content=words(k)))
                ab.add_child(p)
            elif kind == "markdown":
                ab.add_child(N("markdown", content=words(k) if k else None))
            ds.add_child(ab)
        for kcount in keywords:
            ks = N("keywordSet")
            for i in range(kcount):
                ks.add_child(N("keyword", content="k%d" % i))
            ds.add_child(ks)
        if rights is not None:
            ds.add_child(N("intellectualRights", content=rights or None))
        if coverage is not None:
            cov = N("coverage")
            if coverage == "geo":
                cov.add_child(N("geographicCoverage"))
            ds.add_child(cov)
        if methods:
            ms = N("methods")
            st = N("methodStep")
            st.add_child(N("description"))
            ms.add_child(st)
            ds.add_child(ms)
        if project:
            pj = N("project")
            pj.add_child(N("title", content="p"))
            pe = N("personnel")
            pj.add_child(pe)
            ds.add_child(pj)
        if datatable:
            ds.add_child(table())
        return ds

    def table(desc="d", size="1", auth="x", nrec="3", delim="inner"):
        dt = N("dataTable")
        if desc is not None:
            dt.add_child(N("entityDescription", content=desc or None))
        ph = N("physical")
        if size is not None:
            ph.add_child(N("size", content=size or None))
        if auth is not None:
            ph.add_child(N("authentication", content=auth or None))
        df = N("dataFormat")
        tf = N("textFormat")
        if delim == "inner":
            tf.add_child(N("recordDelimiter", content="\\n"))
        elif delim == "outer":
            ph.add_child(N("recordDelimiter", content="\\n"))
        elif delim == "inner-empty-outer-set":
            tf.add_child(N("recordDelimiter"))
            ph.add_child(N("recordDelimiter", content="\\n"))
        df.add_child(tf)
        ph.add_child(df)
        dt.add_child(ph)
        if nrec is not None:
            dt.add_child(N("numberOfRecords", content=nrec or None))
        return dt

    cases = []
    for tw in (None, 1, 4, 5, 6):
        for sep in (" ", "  ", "\xa0"):
            cases.append(("title", dict(title_words=tw, tsep=sep)))
    for ab in (None, ("content", 0), ("content", 19), ("content", 20), ("para", 0), ("para", 19), ("para", 20), ("inline-only", 30), ("markdown", 0), ("markdown", 19), ("markdown", 20)):
        cases.append(("abstract", dict(abstract=ab)))
    for kw in ((), (0,), (4,), (5,), (2, 2), (2, 3)):
        cases.append(("keywords", dict(keywords=kw)))
    for cov in (None, "empty", "geo"):
        cases.append(("coverage", dict(coverage=cov)))
    for flag in ("datatable", "methods", "project"):
        cases.append((flag, {flag: False}))
    for r in (None, "", "r"):
        cases.append(("rights", dict(rights=r)))
    for pt in ("full", "none", "plainid", "nogiven", "emptysur", "orcid-then-other", "other-then-orcid", "orcid-then-empty"):
        cases.append(("party", dict(party=pt)))
    for (what, kw) in cases:
        Node.store.clear()
        t = dataset(**kw)
        f = check_tree(t, f"{what}: {kw}")
        b.note((what, str(kw)), True, sample={"varied": what, "args": str(kw)})
        if f is not None:
            b.failures.append(f)
    for kw in itertools.product(("d", "", None), ("1", "", None), ("x", None), ("3", "", None), ("inner", "outer", "none", "inner-empty-outer-set")):
        Node.store.clear()
        dt = table(*kw)
        f = check_tree(dt, f"dataTable {kw}")
        b.note(("table", kw), True)
        if f is not None:
            b.failures.append(f)
    for parent in ("connectionDefinition", "designDescription", "maintenance", "methodStep", "procedureStep", "qualityControl", "samplingDescription",
                   "studyExtent", "dataset", None):
        for variant in ("empty", "content", "para", "empty-para", "inline-only", "markdown", "markdown-in-section", "para-then-markdown"):
            Node.store.clear()
            d = N("description")
            if variant == "content":
                d.content = "x"
            elif variant == "para":
                d.add_child(N("para", content="x"))
            elif variant == "empty-para":
                d.add_child(N("para"))
            elif variant == "inline-only":
                p = N("para")
                p.add_child(N("emphasis", content="x"))
                d.add_child(p)
            elif variant == "markdown":
                d.add_child(N("markdown", content="x"))
            elif variant == "markdown-in-section":
                sec = N("section")
                sec.add_child(N("markdown", content="x"))
                d.add_child(sec)
            elif variant == "para-then-markdown":
                d.add_child(N("para"))
                md = N("markdown", content="x")
                md.add_child(N("emphasis"))
                d.add_child(md)
            root = d
            if parent is not None:
                root = N(parent)
                root.add_child(d)
            f = check_tree(root, f"description under {parent}: {variant}")
            b.note(("desc", parent, variant), True)
            if f is not None:
                b.failures.append(f)
    xml_path = os.path.join(common.REPO, "tests/data/eml.xml")
    if os.path.exists(xml_path):
        xml = open(xml_path, encoding="utf-8").read()
        for k in range(30 if tier == "quick" else 600):
            Node.store.clear()
            t = metapype_io.from_xml(xml)
            nodes = [t]
            i = 0
            while i < len(nodes):
                nodes.extend(nodes[i].children)
                i += 1
            for _ in range(k % 4):
                x = rnd.choice(nodes)
                m = rnd.choice(["drop", "empty", "dup"])
                if m == "drop" and x.parent is not None and x in x.parent.children:
                    x.parent.children.remove(x)
                elif m == "empty":
                    x._content = None
                elif m == "dup" and x.parent is not None:
                    c = x.copy()
                    x.parent.children.append(c)
                    c.parent = x.parent
            f = check_tree(t, f"eml.xml with {k % 4} mutations")
            b.note(("fixture", k), True)
            if f is not None:
                b.failures.append(f)
    return b


def main(tier, seed):
    t0 = time.time()
    specs = [("props.C19", "task", {"which": w}) for w in PROVED + ["node", "tree", "_datatable_rule"]]
    # _dataset_rule has ~450 paths: they are partitioned by the decisions 1..4 (abstract present / has text / short / coverage present) over 16 tasks
    specs.append(("props.C19", "task_lemma", {}))
    specs.append(("props.C19", "task_tree_order", {}))
    specs.append(("props.C19", "task_lemma_lean", {}))
    specs.append(("props.C19", "task_text_content", {}))
    shards = [("props.C19", "task", {"which": "_dataset_rule", "shard": [1, list(bits)]}) for bits in itertools.product((True, False), repeat=4)]
    results = common.run_tasks(specs, procs=16) + common.run_sharded(shards, "C19._dataset_rule")
    b = bounded(tier, seed)
    return common.decide(PID, tier, seed, results, b, t0, "DESIGN.md §4 C19", extra_assumptions=[
        "proved: all twelve evaluator functions return exactly the documented warnings as (code, message, node) triples in the documented order and "
        "raise nothing; evaluate.node / evaluate.tree let no exception escape given that (their frames are C11). For _dataset_rule and _datatable_rule "
        "the specification names the child each check looks at (the last child with a name for the loops that keep overwriting, the first for "
        "the loops that break), the keyword total is a fold over the keywordSet children (related to the code's fold over its filtered list by "
        "the lemma fold-filter, proved by induction), and the path space of _dataset_rule is partitioned over 16 tasks by four early decisions",
        "word counts are integer comparisons on the uninterpreted functions normalize_text / py_split_count (A-str); get_text_content enters by name",
        "evaluate.tree appends exactly the per-node lists concatenated in document order (ghost warning_owner, unfolded one level; evaluate.node "
        "enters by contract) and keeps earlier entries",
        "get_text_content: proved that the collected text is empty exactly when neither the node nor any para / markdown descendant has content (what the "
        "description and abstract checks depend on); WHICH text is collected (the word count of an abstract) enters by name only and is exercised by "
        "the bounded pass"])
