"""Shared driver: run verification tasks in a process pool, run the bounded native pass, decide, write evidence."""
import hashlib
import json
import multiprocessing as mp
import os
import subprocess
import sys
import time
import traceback

ROOT = os.path.dirname(os.path.dirname(os.path.abspath(__file__)))
sys.path.insert(0, ROOT)

REPO = os.environ.get("VERIF_REPO", "/repo")
EVID = os.environ.get("VERIF_EVID", os.path.join(ROOT, "evidence"))
REPLAYS = os.environ.get("VERIF_REPLAYS", os.path.join(ROOT, "replays"))
BASELINE_DIR = os.path.join(ROOT, "baseline")
KNOWN = os.path.join(ROOT, "known_findings.json")

TRUSTED_ENGINE = [
    "T-engine: pyvc's encoding of the Python subset into SMT (direct-style symbolic executor; mitigated by the "
    "CPython differential self-test and the seeded-mutant self-test)",
    "T-solver: z3 5.1.0 (E-matching, MBQI off for proofs)",
    "T-schema: every allocated Node's fields hold values of the declared types (inputs assumed; every store by verified "
    "code is checked); every dict is a well-formed insertion-ordered map",
    "T-frame/T-unfold: ghost predicates are defined by their one-level unfolding over a well-founded child relation",
]


def _run_task(spec):
    """worker: spec = (module, function name, kwargs) -> TaskResult json"""
    modname, fname, kwargs = spec
    t0 = time.time()
    try:
        import importlib
        m = importlib.import_module(modname)
        res = getattr(m, fname)(**kwargs)
        if isinstance(res, list):
            return [r.to_json() for r in res]
        return [res.to_json()]
    except Exception:
        return [{"task": f"{modname}.{fname}{kwargs}", "paths": 0, "restarts": 0, "wall_s": time.time() - t0,
                 "obligations": [], "functions": {}, "assumptions": [], "crash": traceback.format_exc()}]


def run_tasks(specs, procs=None):
    procs = procs or min(16, max(1, len(specs)))
    if len(specs) == 1 or os.environ.get("VERIF_SERIAL"):
        out = []
        for s in specs:
            out.extend(_run_task(s))
        return out
    ctx = mp.get_context("fork")
    with ctx.Pool(procs) as pool:
        res = pool.map(_run_task, specs, chunksize=1)
    out = []
    for r in res:
        out.extend(r)
    return out


def lean_task(task_name, ob_name, lean_file, note):
    """one obligation = a Lean 4 + Mathlib file under lemmas/ compiles (no sorry / axiom / admit); compiled on every run"""
    import shutil
    from pyvc.task import TaskResult
    from pyvc.core import ObRec
    r = TaskResult(task_name)
    path = os.path.join(ROOT, "lemmas", lean_file)
    src = open(path, encoding="utf-8").read()
    t0 = time.time()
    if shutil.which("lean") is None:
        r.obs.append(ObRec(ob_name, "undecided", 0.0, "lean is not on PATH", kind="lemma-lean"))
        return r
    code = "\n".join(l for l in src.split("\n") if not l.strip().startswith("--"))
    if any(w in code for w in ("sorry", "\naxiom ", "admit")):
        r.obs.append(ObRec(ob_name, "undecided", 0.0, "the Lean file contains sorry / axiom / admit", kind="lemma-lean"))
        return r
    try:
        p = subprocess.run(["lean", path], capture_output=True, text=True, timeout=900, cwd=os.path.dirname(path))
        ok = p.returncode == 0 and "error" not in p.stdout and "sorry" not in p.stdout
        detail = (p.stdout + p.stderr)[-600:]
    except Exception as ex:  # noqa
        ok, detail = False, repr(ex)
    r.obs.append(ObRec(ob_name, "proved" if ok else "undecided", time.time() - t0, "" if ok else detail, kind="lemma-lean"))
    r.assumptions.add(note)
    return r


def _learned_union(results):
    loops, promote = {}, set()
    for r in results:
        L = r.get("learned") or {"loops": {}, "promote": []}
        for k, d in L["loops"].items():
            e = loops.setdefault(k, {"arrays": set(), "fields": set()})
            e["arrays"].update(d["arrays"])
            e["fields"].update(tuple(x) for x in d["fields"])
        promote.update(L["promote"])
    return {"loops": {k: {"arrays": sorted(d["arrays"]), "fields": sorted(list(x) for x in d["fields"])} for k, d in sorted(loops.items())}, "promote": sorted(promote)}


def _learned_norm(L):
    L = L or {"loops": {}, "promote": []}
    return (tuple(sorted((k, tuple(d["arrays"]), tuple(tuple(x) for x in d["fields"])) for k, d in L["loops"].items() if d["arrays"] or d["fields"])), tuple(L["promote"]))


def run_sharded(specs, hint_name, procs=16):
    """Tasks that explore disjoint parts of the path space of ONE function (Task(shard=...)).  What the executor learns about a loop while
    exploring (which arrays and fields its body writes, which lists turn into heap lists) decides what is havocked at that loop, and a
    shard that never executes the writing branch would havoc too little.  So: run all shards, take the union of what they learnt, and
    re-run every shard that knew less, until all shards have run with the same knowledge and none has learnt anything new.  Since the
    shards together cover every path, that knowledge is then complete.  A hint from cache/learned/ (never trusted: it only seeds the
    first round) usually makes one round enough."""
    hint_path = os.path.join(ROOT, "cache", "learned", hint_name + ".json")
    preload = None
    if os.path.exists(hint_path):
        try:
            preload = json.load(open(hint_path))
        except Exception:  # noqa
            preload = None
    todo = list(range(len(specs)))
    results = [None] * len(specs)
    converged = False
    for rnd in range(6):
        batch = [(m, f, dict(kw, preload=preload)) for (m, f, kw) in (specs[i] for i in todo)]
        if os.environ.get("VERIF_SERIAL"):
            res = [_run_task(b) for b in batch]
        else:
            ctx = mp.get_context("fork")
            with ctx.Pool(min(procs, len(batch))) as pool:
                res = pool.map(_run_task, batch, chunksize=1)
        for i, r in zip(todo, res):
            results[i] = r
        union = _learned_union([x for r in results if r for x in r])
        target = _learned_norm(union)
        todo = [i for i, r in enumerate(results) if any(_learned_norm(x.get("learned")) != target for x in r)]
        preload = union
        if not todo:
            converged = True
            break
    out = []
    for r in results:
        out.extend(r)
    if not converged:
        out.append({"task": hint_name + "/shards", "paths": 0, "restarts": 0, "wall_s": 0.0, "functions": {}, "assumptions": [], "crash": None,
                    "obligations": [{"name": hint_name + "/shards-agree-on-loop-knowledge", "status": "undecided", "time_s": 0.0, "path": None, "kind": "shards",
                                     "detail": "the shards did not converge on a common havoc set"}]})
    if os.environ.get("VERIF_WRITE_BASELINE"):
        os.makedirs(os.path.dirname(hint_path), exist_ok=True)
        json.dump(preload, open(hint_path, "w"), indent=1)
    return out


def ob_key(name):
    """obligation identity used for the committed baseline: the name without anything path-specific."""
    return name


def load_known(pid):
    if not os.path.exists(KNOWN):
        return [], []
    d = json.load(open(KNOWN))
    known = [e for e in d.get("known", []) if e["property"] == pid]
    fixed = [e for e in d.get("fixed", []) if e["property"] == pid]
    return known, fixed


def load_baseline(pid):
    p = os.path.join(BASELINE_DIR, pid + ".json")
    if not os.path.exists(p):
        return None
    return json.load(open(p))


def repo_head():
    try:
        return subprocess.run(["git", "-C", REPO, "rev-parse", "--short", "HEAD"], capture_output=True, text=True).stdout.strip()
    except Exception:
        return "?"


def source_digest(paths):
    h = hashlib.sha256()
    for p in paths:
        try:
            h.update(open(os.path.join(REPO, p), "rb").read())
        except OSError:
            h.update(b"missing:" + p.encode())
    return h.hexdigest()[:16]


class Failure:
    """a real failing input found natively (bounded pass or replay of a counter-model)."""

    def __init__(self, key, what, input_desc, observed, expected=None):
        self.key, self.what, self.input, self.observed, self.expected = key, what, input_desc, observed, expected

    def to_json(self):
        return {"key": self.key, "what": self.what, "input": self.input, "observed": self.observed, "expected": self.expected}


class Bounded:
    def __init__(self, scope):
        self.scope = scope
        self.evaluations = 0
        self.distinct = set()
        self.failures = []
        self.samples = []
        self.exhaustive = True
        self.rule = ""

    def note(self, key, nontrivial=True, sample=None):
        self.evaluations += 1
        if nontrivial:
            self.distinct.add(key)
        if sample is not None and len(self.samples) < 5:
            self.samples.append(sample)

    def to_json(self):
        return {"label": "bounded (never counted as proved)", "scope": self.scope, "evaluations": self.evaluations,
                "distinct_nontrivial": len(self.distinct), "rule": self.rule, "samples": self.samples,
                "exhaustive_within_scope": self.exhaustive, "failures": [f.to_json() for f in self.failures[:20]]}


def decide(pid, tier, seed, task_results, bounded, t0, design_ref, extra_assumptions=(), functions_note=None,
           replay_hook=None, extra_coverage=None, min_obligations=1):
    """Common verdict + evidence + exit code.  Returns the process exit code."""
    os.makedirs(EVID, exist_ok=True)
    os.makedirs(REPLAYS, exist_ok=True)
    known, fixed = load_known(pid)
    baseline = load_baseline(pid)
    obs = []
    crashes = []
    functions = {}
    assumptions = set(extra_assumptions)
    paths = 0
    for tr in task_results:
        if tr.get("crash"):
            crashes.append((tr["task"], tr["crash"]))
        paths += tr.get("paths", 0)
        for o in tr["obligations"]:
            o = dict(o)
            o["task"] = tr["task"]
            obs.append(o)
        for q, d in tr.get("functions", {}).items():
            f = functions.setdefault(q, {"inlined": False, "by_contract": False})
            f["inlined"] |= d["inlined"]
            f["by_contract"] |= d["by_contract"]
        assumptions.update(tr.get("assumptions", []))
    n = len(obs)
    proved = [o for o in obs if o["status"] == "proved"]
    refuted = [o for o in obs if o["status"] == "refuted"]
    undecided = [o for o in obs if o["status"] == "undecided"]
    solver_time = sum(o["time_s"] for o in obs)
    lines = []
    violations = []
    exit_code = 0

    # ---- known findings are matched against natively reproduced failures only
    known_keys = {e["key"]: e for e in known}
    seen_known = set()
    new_failures = []
    for f in (bounded.failures if bounded else []):
        if f.key in known_keys:
            seen_known.add(f.key)
        else:
            new_failures.append(f)
    for k in sorted(seen_known):
        lines.append(f"KNOWN-FINDING: property={pid} {known_keys[k]['what']}")

    # obligations excused by a known finding (declared per finding as obligation-name prefixes), only while it reproduces
    def excused(o):
        for k in seen_known:
            for pref in known_keys[k].get("obligations", []):
                if o["name"].startswith(pref) or pref in o["name"]:
                    return True
        return False

    bad = [o for o in refuted + undecided if not excused(o)]

    def write_replay(tag, payload):
        p = os.path.join(REPLAYS, f"{pid}_{tag}.json")
        json.dump(payload, open(p, "w"), indent=1, default=str)
        return p

    if new_failures:
        # group by key so one defect gives one line
        bykey = {}
        for f in new_failures:
            bykey.setdefault(f.key, f)
        for i, (k, f) in enumerate(sorted(bykey.items())):
            related = [o for o in bad][:10]
            p = write_replay(f"fail{i}", {"property": pid, "kind": "native-failing-input", "failure": f.to_json(),
                                           "failed_obligations": related, "repo_head": repo_head()})
            lines.append(f"VIOLATION property={pid} replay={p}")
            violations.append(k)
        exit_code = 1
    elif bad:
        base_names = set(baseline["proved"]) if baseline else set()
        real = []
        unsure = []
        for o in bad:
            if o["status"] == "refuted" or ob_key(o["name"]) in base_names or o.get("kind") == "exception":
                real.append(o)
            else:
                unsure.append(o)
        # try to turn a counter-model into a real failing input
        replayed = None
        if replay_hook is not None and real:
            try:
                replayed = replay_hook(real)
            except Exception:
                replayed = None
        if replayed is not None and replayed.key not in known_keys:
            p = write_replay("cex0", {"property": pid, "kind": "counter-model-replayed", "failure": replayed.to_json(),
                                      "failed_obligations": real[:10], "repo_head": repo_head()})
            lines.append(f"VIOLATION property={pid} replay={p}")
            violations.append(replayed.key)
            exit_code = 1
        elif real:
            names = sorted({o["name"] for o in real})
            p = write_replay("ob0", {"property": pid, "kind": "failed-obligation", "failed_obligations": real[:20],
                                     "note": "obligation(s) discharged on the unchanged tree are no longer provable; the solver's "
                                             "verdict and (where sat) counter-model are attached; the native search around it found no "
                                             "failing input within its scope", "repo_head": repo_head()})
            lines.append(f"VIOLATION property={pid} replay={p} obligations={','.join(names[:3])} no-failing-input-found")
            violations.append("obligation")
            exit_code = 1
        elif unsure:
            for o in unsure[:10]:
                lines.append(f"UNDECIDED property={pid} obligation={o['name']} detail={o.get('detail','')[:160]}")
            exit_code = 2
    if crashes:
        for t, tb in crashes[:5]:
            lines.append(f"CHECKER-CRASH task={t}\n{tb}")
        if exit_code == 0:
            exit_code = 3
    if n < min_obligations or (baseline and n < baseline.get("min_obligations", 1)):
        lines.append(f"UNDECIDED property={pid} only {n} obligations generated (minimum {baseline.get('min_obligations') if baseline else min_obligations}): vacuous run")
        if exit_code == 0:
            exit_code = 2

    slowest = sorted(obs, key=lambda o: -o["time_s"])[:5]
    samples = [{"name": o["name"], "status": o["status"], "time_s": o["time_s"], "path": o.get("path"), "kind": o.get("kind")}
               for o in (obs[:2] + obs[len(obs) // 2: len(obs) // 2 + 2] + obs[-2:])]
    kinds = {}
    for o in obs:
        kinds[o.get("kind", "goal")] = kinds.get(o.get("kind", "goal"), 0) + 1
    excused_obs = [o for o in refuted + undecided if excused(o)]
    coverage = {
        # obligations excused by a listed known finding (while its witness still reproduces) are reported separately
        "obligations": n - len(excused_obs),
        "discharged": len(proved),
        "excused_by_known_findings": [o["name"] for o in excused_obs],
        "refuted": len(refuted),
        "undecided": len(undecided),
        "checker_cmd": f"bin/check {pid} {tier}",
        "trusted_base": TRUSTED_ENGINE,
        "backends": {k: v for k, v in (("z3-5.1.0 (python API, E-matching)", n - sum(1 for o in obs if o.get("kind") == "lemma-lean")),
                                        ("lean-4 + Mathlib (lemmas/*.lean compiled on every run)", sum(1 for o in obs if o.get("kind") == "lemma-lean"))) if v},
        "solver_time_s": round(solver_time, 3),
        "paths": paths,
        "tasks": len(task_results),
        "obligation_kinds": kinds,
        "functions_under_contract": {q: ("verified against its contract" if d["inlined"] and d["by_contract"] else
                                         "inlined real code" if d["inlined"] else "used by contract only")
                                     for q, d in sorted(functions.items())},
        "slowest": [{"name": o["name"], "time_s": o["time_s"]} for o in slowest],
        "undecided_list": [o["name"] for o in undecided][:20],
        "refuted_list": [o["name"] for o in refuted][:20],
        "known_findings": [known_keys[k]["what"] for k in sorted(seen_known)],
        "samples": samples,
        "repo_head": repo_head(),
    }
    if bounded is not None:
        coverage["bounded"] = bounded.to_json()
    if extra_coverage:
        coverage.update(extra_coverage)
    ev = {
        "property_id": pid, "tier": tier, "seed": seed, "level": "proof", "coverage": coverage,
        "assumptions": sorted(assumptions), "wall_s": round(time.time() - t0, 2), "violations": len(violations),
    }
    json.dump(ev, open(os.path.join(EVID, pid + ".json"), "w"), indent=1, default=str)
    if os.environ.get("VERIF_WRITE_BASELINE") and exit_code == 0:
        os.makedirs(BASELINE_DIR, exist_ok=True)
        json.dump({"proved": sorted({ob_key(o["name"]) for o in proved}), "min_obligations": max(1, int(n * 0.6)),
                   "repo_head": repo_head()}, open(os.path.join(BASELINE_DIR, pid + ".json"), "w"), indent=1)
    for ln in lines:
        print(ln)
    print(f"[{pid}] tier={tier} obligations={n} proved={len(proved)} refuted={len(refuted)} undecided={len(undecided)} "
          f"bounded_evals={bounded.evaluations if bounded else 0} bounded_failures={len(bounded.failures) if bounded else 0} "
          f"wall={time.time() - t0:.1f}s exit={exit_code}")
    return exit_code
