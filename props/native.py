"""Native helpers for the bounded pass and for replaying counter-models on the real code."""
import itertools
from metapype.model.node import Node


def reset_store():
    Node.store.clear()


def shapes(n):
    """all ordered rooted trees with n nodes, as nested tuples of children."""
    if n == 1:
        return [()]
    out = []
    # distribute n-1 nodes over an ordered forest
    def forests(m):
        if m == 0:
            return [()]
        res = []
        for first in range(1, m + 1):
            for t in shapes(first):
                for rest in forests(m - first):
                    res.append((t,) + rest)
        return res
    return forests(n - 1)


def build(shape, namer=None, path=()):
    """build a real Node tree from a shape; namer(path) -> dict of fields."""
    spec = namer(path) if namer else {}
    n = Node(spec.get("name", "n"), content=spec.get("content"))
    n.tail = spec.get("tail")
    n.prefix = spec.get("prefix")
    for k, v in spec.get("attributes", {}).items():
        n.add_attribute(k, v)
    for k, v in spec.get("extras", {}).items():
        n.add_extras(k, v)
    n.nsmap = dict(spec.get("nsmap", {}))
    for i, ch in enumerate(shape):
        c = build(ch, namer, path + (i,))
        n.children.append(c)
        c.parent = n
    return n


def paths_of(shape, path=()):
    yield path
    for i, ch in enumerate(shape):
        yield from paths_of(ch, path + (i,))


def node_at(root, path):
    n = root
    for i in path:
        n = n.children[i]
    return n


def snapshot(n):
    """deep, identity-free picture of a tree (fields + children, in order)."""
    return (n.name, n.content, n.tail, n.prefix, tuple(n.attributes.items()), tuple(n.nsmap.items()),
            tuple(n.extras.items()), tuple(snapshot(c) for c in n.children))


def snapshot_ids(n):
    return (n.id, id(n), id(n.parent) if n.parent is not None else None, tuple(snapshot_ids(c) for c in n.children))


def spec_equal(a, b):
    """independent structural equality (the specification of C18)."""
    if a.name != b.name or a.content != b.content or a.tail != b.tail or a.prefix != b.prefix:
        return False
    if dict(a.attributes) != dict(b.attributes) or dict(a.nsmap) != dict(b.nsmap) or dict(a.extras) != dict(b.extras):
        return False
    if len(a.children) != len(b.children):
        return False
    return all(spec_equal(x, y) for x, y in zip(a.children, b.children))


def describe(n, depth=0):
    d = {"name": n.name}
    for k in ("content", "tail", "prefix"):
        v = getattr(n, k)
        if v is not None:
            d[k] = v
    for k in ("attributes", "nsmap", "extras"):
        v = getattr(n, k)
        if v:
            d[k] = dict(v)
    if n.children:
        d["children"] = [describe(c, depth + 1) for c in n.children]
    return d
