import importlib, os, sys, traceback


def main():
    pid = sys.argv[1]
    tier = sys.argv[2] if len(sys.argv) > 2 else os.environ.get("VERIF_TIER", "quick")
    seed = int(os.environ.get("VERIF_SEED", "0"))
    try:
        m = importlib.import_module("props." + pid)
        rc = m.main(tier, seed)
    except SystemExit:
        raise
    except Exception:
        traceback.print_exc()
        rc = 3
    sys.exit(rc)


if __name__ == "__main__":
    main()
