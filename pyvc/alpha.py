"""Alpha-normalisation of local variable names.

Loop invariants and merge invariants necessarily name the locals they talk about.  So that a harmless renaming of a local in
/repo does not turn into an alarm, the intake compares the current AST of a function with the reference text recorded when the
contracts were written (baseline/src/<module>.<qualname>.py, written by bin/rebaseline): when the two are identical up to a
bijective renaming of *local* variables (names assigned in the function; parameters, globals, attributes, constants and the
whole statement structure must be equal), the current AST is executed with the reference names.  Anything else — any
structural difference at all — leaves the current AST exactly as it is.  The renaming is reported in the evidence."""
import ast
import copy
import os

REF_DIR = os.path.join(os.path.dirname(os.path.dirname(os.path.abspath(__file__))), "baseline", "src")


def ref_file(func):
    # a property's getter and setter share one qualified name: the number of parameters tells them apart
    n = getattr(getattr(func, "__code__", None), "co_argcount", 0)
    return os.path.join(REF_DIR, f"{func.__module__}.{func.__qualname__}.{n}.py")


def _strip_doc(fdef):
    b = fdef.body
    if b and isinstance(b[0], ast.Expr) and isinstance(b[0].value, ast.Constant) and isinstance(b[0].value.value, str):
        return b[1:]
    return b


def locals_of(fdef):
    params = {a.arg for a in fdef.args.posonlyargs + fdef.args.args + fdef.args.kwonlyargs}
    if fdef.args.vararg:
        params.add(fdef.args.vararg.arg)
    if fdef.args.kwarg:
        params.add(fdef.args.kwarg.arg)
    out, declared = set(), set()
    for n in ast.walk(fdef):
        if isinstance(n, ast.Name) and isinstance(n.ctx, (ast.Store, ast.Del)):
            out.add(n.id)
        elif isinstance(n, ast.ExceptHandler) and n.name:
            out.add(n.name)
        elif isinstance(n, (ast.Global, ast.Nonlocal)):
            declared.update(n.names)
    return out - params - declared


def _has_nested_scope(fdef):
    return any(isinstance(n, (ast.FunctionDef, ast.AsyncFunctionDef, ast.Lambda, ast.ClassDef)) for n in ast.walk(fdef) if n is not fdef)


class _Mismatch(Exception):
    pass


def _match(cur, ref, cl, rl, fwd, bwd):
    if type(cur) is not type(ref):
        raise _Mismatch
    if isinstance(cur, ast.Name):
        _name(cur.id, ref.id, cl, rl, fwd, bwd)
        if type(cur.ctx) is not type(ref.ctx):
            raise _Mismatch
        return
    for field in cur._fields:
        a, b = getattr(cur, field, None), getattr(ref, field, None)
        if isinstance(cur, ast.ExceptHandler) and field == "name":
            if (a is None) != (b is None):
                raise _Mismatch
            if a is not None:
                _name(a, b, cl, rl, fwd, bwd)
            continue
        if isinstance(cur, ast.FunctionDef) and field == "body":
            a, b = _strip_doc(cur), _strip_doc(ref)
        if isinstance(a, list):
            if not isinstance(b, list) or len(a) != len(b):
                raise _Mismatch
            for x, y in zip(a, b):
                if isinstance(x, ast.AST):
                    _match(x, y, cl, rl, fwd, bwd)
                elif x != y:
                    raise _Mismatch
        elif isinstance(a, ast.AST):
            if not isinstance(b, ast.AST):
                raise _Mismatch
            _match(a, b, cl, rl, fwd, bwd)
        elif a != b:
            if field in ("type_comment", "kind"):
                continue
            if isinstance(cur, ast.Constant) and field == "value" and type(a) is type(b):
                continue        # the reference only chooses names; a literal that differs does not affect the soundness of a renaming
            raise _Mismatch


def _name(a, b, cl, rl, fwd, bwd):
    if (a in cl) != (b in rl):
        raise _Mismatch
    if a not in cl:
        if a != b:
            raise _Mismatch
        return
    if fwd.setdefault(a, b) != b or bwd.setdefault(b, a) != a:
        raise _Mismatch


def mapping(cur_fdef, ref_fdef):
    """{current local name: reference local name} when the two definitions are alpha-equivalent in their locals, else None"""
    if _has_nested_scope(cur_fdef) or _has_nested_scope(ref_fdef):
        return {} if ast.dump(cur_fdef) == ast.dump(ref_fdef) else None
    fwd, bwd = {}, {}
    try:
        _match(cur_fdef, ref_fdef, locals_of(cur_fdef), locals_of(ref_fdef), fwd, bwd)
    except _Mismatch:
        return None
    return fwd


class _Rename(ast.NodeTransformer):
    def __init__(self, m):
        self.m = m

    def visit_Name(self, n):
        n.id = self.m.get(n.id, n.id)
        return n

    def visit_ExceptHandler(self, n):
        if n.name:
            n.name = self.m.get(n.name, n.name)
        self.generic_visit(n)
        return n


def normalise(func, fdef):
    """(AST to execute, {current: reference} for the locals that were renamed back)"""
    p = ref_file(func)
    if not os.path.exists(p):
        return fdef, {}
    try:
        ref = ast.parse(open(p, encoding="utf-8").read()).body[0]
    except (SyntaxError, IndexError):
        return fdef, {}
    # the reference is unparse()d text: bring the current definition into the same normal form before comparing (unparse merges
    # adjacent string pieces of implicitly concatenated f-strings); the renaming itself is applied to the real AST
    try:
        cur_nf = ast.parse(ast.unparse(fdef)).body[0]
    except SyntaxError:
        return fdef, {}
    m = mapping(cur_nf, ref)
    if not m:
        return fdef, {}
    m = {a: b for a, b in m.items() if a != b}
    if not m:
        return fdef, {}
    # independent safety check of the alpha-conversion: injective, and no new name is already in use in the function
    used = {n.id for n in ast.walk(fdef) if isinstance(n, ast.Name)} | {a.arg for a in ast.walk(fdef) if isinstance(a, ast.arg)}
    if len(set(m.values())) != len(m) or any(b in used and b not in m for b in m.values()):
        return fdef, {}
    new = copy.deepcopy(fdef)
    _Rename(m).visit(new)
    return new, m


def write_reference(func, fdef):
    os.makedirs(REF_DIR, exist_ok=True)
    text = ast.unparse(fdef) + "\n"
    p = ref_file(func)
    if not os.path.exists(p) or open(p, encoding="utf-8").read() != text:
        with open(p + f".{os.getpid()}.tmp", "w", encoding="utf-8") as fh:
            fh.write(text)
        os.replace(p + f".{os.getpid()}.tmp", p)


def current_names(func):
    """{reference local name: current local name} for native tracers that read frame locals"""
    from .interp import srcinfo
    si = srcinfo(func)
    return {b: a for a, b in si.alpha.items()}


def _loop_sig(n):
    if isinstance(n, ast.For):
        return ("for", ast.unparse(n.iter))
    if isinstance(n, ast.While):
        return ("while", ast.unparse(n.test))
    return ("comp", ast.unparse(n.generators[0].iter))


def _loops_in_order(node):
    out = []

    def walk(x):
        if isinstance(x, (ast.For, ast.While, ast.ListComp, ast.GeneratorExp)):
            out.append(x)
        for c in ast.iter_child_nodes(x):
            walk(c)
    walk(node)
    return out


def loop_ordinals(func, loops):
    """ordinal (1-based, in the numbering of the reference text) of every loop of the current definition"""
    own = list(range(1, len(loops) + 1))
    p = ref_file(func)
    if not os.path.exists(p):
        return own
    try:
        ref = ast.parse(open(p, encoding="utf-8").read()).body[0]
    except (SyntaxError, IndexError):
        return own
    rs = [_loop_sig(n) for n in _loops_in_order(ref)]
    cs = [_loop_sig(n) for n in loops]
    if rs == cs:
        return own
    out = []
    for i, sgn in enumerate(cs):
        if cs.count(sgn) == 1 and rs.count(sgn) == 1:
            out.append(rs.index(sgn) + 1)
        elif len(cs) == len(rs):
            out.append(i + 1)
        else:
            out.append(1000 + i + 1)       # no reference loop corresponds: no contract applies
    if len(set(out)) != len(out):
        return own
    return out
