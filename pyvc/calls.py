"""Call dispatch: builtins, container methods, inlined repository functions, modular (contract) calls."""
import builtins
import copy as _copy
import enum
import inspect
import logging
import types
import uuid as _uuid
import z3

from . import smt, prims
from .smt import Val, I, B, S, kind, KIND_NODE, KIND_LIST, KIND_DICT
from .values import *
from .core import *
from .interp import Frame, srcinfo, _Return

MAX_DEPTH = 60


def call(ip, f, args, kwargs):
    c = ip.c
    if isinstance(f, BoundMethod):
        return call_function(ip, f.func, [f.recv] + list(args), kwargs)
    if isinstance(f, BuiltinMethod):
        return call_method(ip, f.recv, f.name, args, kwargs)
    if isinstance(f, types.FunctionType):
        return call_function(ip, f, args, kwargs)
    if isinstance(f, type):
        return instantiate(ip, f, args, kwargs)
    ext = _ext_lookup(ip, f)
    if ext is not None:
        return ext(ip, *args, **kwargs)
    h = BUILTINS.get(_key(f))
    if h is not None:
        return h(ip, *args, **kwargs)
    raise Unsupported(f"call of {f!r}")


def _key(f):
    try:
        hash(f)
        return f
    except TypeError:
        return id(f)


def _ext_lookup(ip, f):
    e = ip.w.externals.get(_key(f))
    if e is None and getattr(f, "__self__", None) is not None:
        # builtin bound methods (datetime.strptime, time.fromisoformat) are fresh objects on every attribute access
        e = ip.w.externals_by_name.get((getattr(f.__self__, "__name__", None), getattr(f, "__name__", None)))
    if e is None and getattr(f, "__objclass__", None) is not None:
        e = ip.w.externals_by_name.get((f.__objclass__.__name__, getattr(f, "__name__", None)))
    return e


def qualname(f):
    return f"{f.__module__}:{f.__qualname__}"


def call_function(ip, f, args, kwargs):
    c = ip.c
    ext = ip.w.externals.get(f)
    if ext is not None:
        return ext(ip, *args, **kwargs)
    q = qualname(f)
    if not ip.w.in_scope(f):
        raise Unsupported(f"call into unmodelled library function {q}")
    try:
        ba = inspect.signature(f).bind(*args, **kwargs)
    except TypeError as ex:
        ip.py_raise(TypeError, str(ex))
    ba.apply_defaults()
    con = ip.w.contract_for_call(q, ip)
    if con is not None:
        return contract_call(ip, f, q, con, ba.arguments)
    return inline_call(ip, f, q, ba.arguments)


def inline_call(ip, f, q, arguments):
    if len(ip.frames) >= MAX_DEPTH:
        raise Unsupported(f"inlining depth exceeded at {q} (recursive function without a contract?)")
    si = srcinfo(f)
    ip.c.task.note_function(q, si, inlined=True)
    fr = Frame(f, q, {k: ip.wrap(v) if not _is_engine_value(v) else v for k, v in arguments.items()}, f.__globals__, si)
    ip.frames.append(fr)
    try:
        ip.exec_block(si.node.body)
        return None
    except _Return as r:
        return r.v
    finally:
        ip.frames.pop()


def _is_engine_value(v):
    return isinstance(v, (Sym, PList, PDict, PObj, BoundMethod, BuiltinMethod, DictView, RangeV, EnumerateV)) or v is None \
        or isinstance(v, (bool, int, float, str, tuple, type, types.FunctionType, enum.Enum))


def spec_args(ip, arguments):
    from .loops import spec_value
    return {k: spec_value(ip, v) for k, v in arguments.items()}


def contract_call(ip, f, q, con, arguments):
    """modular call: assert pre; havoc frame; assume post."""
    c = ip.c
    c.task.note_function(q, None, inlined=False)
    arguments = dict(arguments)
    for pn, ty in con.params.items():
        v = arguments.get(pn)
        if isinstance(ty, str) and isinstance(v, Sym) and v.t.sort() == Val and not ty.startswith("opt:") and ty != "val":
            c.prove(f"{ip.frames[-1].qual}/call:{q.split(':')[1]}/arg-type:{pn}", c.ty_fact(v.t, ty), kind="call-pre")
            arguments[pn] = c.narrow(v.t, ty)
    a = spec_args(ip, arguments)
    s0 = SV(c.heap.snapshot())
    lem = ip.w.call_lemmas.get((ip.frames[-1].qual, q))
    if lem is not None:
        from .loops import NS
        for nm, fml in _clauses(lem(SV(c.heap0), s0, NS(ip, dict(ip.frames[-1].locals))), "lemma"):
            if nm.startswith("prove:"):
                c.prove(f"{ip.frames[-1].qual}/call:{q.split(':')[1]}/lemma:{nm[6:]}", fml, kind="lemma")
            else:
                c.assume(fml)
    pre = con.requires(s0, **a) if con.requires else True
    for nm, fml in _clauses(pre, "requires"):
        c.prove(f"{ip.frames[-1].qual}/call:{q.split(':')[1]}/{nm}", fml, kind="call-pre")
    # decreases for recursive calls
    if con.decreases is not None and c.task.rec_measure is not None and q == c.task.qual:
        m = con.decreases(s0, **a)
        c.prove(f"{ip.frames[-1].qual}/call:{q.split(':')[1]}/decreases", z3.And(m >= 0, m < c.task.rec_measure), kind="termination")
    # exceptional outcomes
    conds = [cond(s0, **a) if cond is not None else c.fresh("may_raise", B) for (cls, cond, post) in con.raises]
    for ri, (cls, cond, post) in enumerate(con.raises):
        b = conds[ri]
        # several classes under the same condition: the contract leaves open which one is raised
        later_same = any(z3.is_expr(b) and z3.is_expr(conds[rj]) and z3.eq(b, conds[rj]) for rj in range(ri + 1, len(conds)))
        if c.branch(b, "raises:" + cls.__name__) and (not later_same or c.branch(c.fresh("pick_" + cls.__name__, B), "pick")):
            if post is not None:
                _havoc_frame(ip, con, s0, a)
                c.assume(smt.conj([x for _, x in _clauses(post(s0, c.sv(), **a), "rpost")]))
            raise PyRaise(ip.mk_exc(cls, Sym(c.fresh("s_msg", S), "str")))
    _havoc_frame(ip, con, s0, a)
    res = None
    rterm = None
    if con.result_ty is not None:
        if con.result_ty == "none":
            res = None
        else:
            rterm = c.fresh("res", Val)
            res = c.from_val(rterm, con.result_ty)
    post = con.ensures(s0, c.sv(), **a, result=rterm) if con.ensures else True
    for nm, fml in _clauses(post, "ensures"):
        c.assume(fml)
    c.assumptions_used.update(con.assumptions)
    return res


def _res_term(res, rterm):
    if isinstance(res, Sym):
        return res.t
    return rterm


def _havoc_frame(ip, con, s0, a):
    c = ip.c
    writes = set(con.writes)
    if con.allocates:
        writes.add("top")
    r = z3.Int("fr_r")
    for arr in sorted(writes):
        if arr == "top":
            nt = c.fresh("top", I)
            c.assume(nt >= c.heap.top)
            for lp in c.loop_stack:
                if "top" not in lp["arrays"]:
                    c.task.learn_array(lp["key"], "top")
                    raise Restart("allocation in loop")
            c.heap.top = nt
            continue
        old = c.heap.get(arr)
        new = c.fresh("cw_" + arr.replace(":", "_"), arr_sort(arr))
        c.write_array(arr, new)
        from .task import mod_of
        mf = mod_of(con, arr)
        if mf is not None:
            m = mf(s0, r, **a)
            c.assume(smt.forall_pat([r], z3.Implies(z3.And(r > 0, r < s0.top, z3.Not(m)), new[r] == old[r]), new, r))
        # objects beyond the old top were unallocated: nothing is known about them anyway


def _clauses(x, default):
    if x is True or x is None:
        return []
    if isinstance(x, dict):
        return list(x.items())
    if isinstance(x, (list, tuple)):
        return [(f"{default}{i}", y) for i, y in enumerate(x)]
    return [(default, x)]


# --------------------------------------------------------------------------------- instantiation
def instantiate(ip, cls, args, kwargs):
    c = ip.c
    if cls is ip.w.node_class:
        r = c.alloc(KIND_NODE)
        for lp in c.loop_stack:
            pass
        self_v = Sym(r, "Node")
        # fields of a fresh object are unset; __init__ is executed as real code
        call_function(ip, inspect.getattr_static(cls, "__init__"), [self_v] + list(args), kwargs)
        return self_v
    if isinstance(cls, type) and issubclass(cls, BaseException):
        return ip.mk_exc(cls, *args)
    if cls is list:
        if not args:
            return ip.new_list([])
        return to_list(ip, args[0])
    if cls is dict:
        if not args and not kwargs:
            return prims.new_heap_dict(ip)
        raise Unsupported("dict(...) with arguments")
    if cls is str:
        if not args:
            return ""
        return prims.to_str(ip, args[0])
    if cls is int:
        ext = ip.w.externals.get(int)
        if ext:
            return ext(ip, *args, **kwargs)
        raise Unsupported("int()")
    if cls is float:
        ext = ip.w.externals.get(float)
        if ext:
            return ext(ip, *args, **kwargs)
        raise Unsupported("float()")
    if cls is bool:
        return prims.mk_bool(ip, ip.truth_term(args[0])) if args else False
    if cls is tuple:
        if not args:
            return ()
        v = args[0]
        if isinstance(v, PList) and v.ref is None:
            return tuple(v.items)
        raise Unsupported("tuple() of symbolic")
    if cls is type:
        return type_of(ip, args[0])
    if cls is range:
        a = [prims.as_int(ip, x, "range") for x in args]
        if len(a) == 1:
            return RangeV(0, a[0], 1)
        if len(a) == 2:
            return RangeV(a[0], a[1], 1)
        return RangeV(a[0], a[1], a[2])
    if cls is enumerate:
        return EnumerateV(args[0])
    if ip.w.in_scope_class(cls):
        o = PObj(cls, {}, c.next_serial(), c.epoch)
        c.pobjs[o.serial] = o
        init = inspect.getattr_static(cls, "__init__", None)
        if isinstance(init, types.FunctionType):
            call_function(ip, init, [o] + list(args), kwargs)
        return o
    ext = ip.w.externals.get(cls)
    if ext is not None:
        return ext(ip, *args, **kwargs)
    raise Unsupported(f"instantiation of {cls!r}")


def to_list(ip, v):
    c = ip.c
    if isinstance(v, PList):
        return prims.list_copy(ip, v)
    if isinstance(v, tuple):
        return ip.new_list(list(v))
    if prims.is_list(v):
        return prims.list_copy(ip, v)
    if isinstance(v, DictView) and v.what == "keys":
        v = v.d
    if isinstance(v, PDict):
        return ip.new_list(list(v.d.keys()))
    if prims.is_dict(v):
        d = v.t
        r = c.alloc(KIND_LIST)
        c.write_array("llen", z3.Store(c.heap.get("llen"), r, c.heap.get("dn")[d]))
        c.write_array("lelem", z3.Store(c.heap.get("lelem"), r, c.heap.get("dkey")[d]))
        return Sym(r, "list:val")
    raise Unsupported(f"list() of {v!r}")


def type_of(ip, v):
    c = ip.c
    if isinstance(v, Sym):
        v = ip.resolve(v)
    if isinstance(v, Sym):
        if v.t.sort() == S:
            return str
        if v.t.sort() == B:
            return bool
        if v.t.sort() == I:
            if v.ty == "int":
                return int
            if v.ty == "Node":
                return ip.w.node_class
            if v.ty.startswith("list"):
                return list
            if v.ty.startswith("dict"):
                return dict
        if v.ty == "float":
            return float
        raise Unsupported("type() of untyped symbolic value")
    if isinstance(v, PList):
        return list
    if isinstance(v, PDict):
        return dict
    if isinstance(v, PObj):
        return v.cls
    return type(v)


# --------------------------------------------------------------------------------- builtins
def b_len(ip, v):
    c = ip.c
    if isinstance(v, Sym) and v.t.sort() == Val:
        v = ip.resolve(v)
    if v is None:
        ip.py_raise(TypeError, "object of type 'NoneType' has no len()")
    if isinstance(v, (str, tuple)):
        return len(v)
    if isinstance(v, PDict):
        return len(v.d)
    if prims.is_list(v):
        return prims.list_len(ip, v)
    if prims.is_dict(v):
        return prims.mk_int(ip, c.heap.get("dn")[v.t])
    if prims.is_strv(v):
        return prims.mk_int(ip, z3.Length(v.t))
    if type(v).__name__ == "SplitV":
        lst = v.as_list(ip)        # (allocates: must happen before the length array is read)
        return prims.mk_int(ip, c.heap.get("llen")[lst])
    if isinstance(v, Sym) and v.t.sort() == Val:
        raise Unsupported("len() of untyped symbolic value")
    ip.py_raise(TypeError, f"object of type '{type(v).__name__}' has no len()")


def b_isinstance(ip, v, cls):
    clss = cls if isinstance(cls, tuple) else (cls,)
    if isinstance(v, Sym):
        if v.t.sort() == Val and (v.ty or "val") != "val":
            v = ip.resolve(v)
    if isinstance(v, Sym):
        if v.t.sort() == Val:
            t = v.t
            alts = []
            for k in clss:
                if k is str:
                    alts.append(Val.is_strv(t))
                elif k is int:
                    alts.append(z3.Or(Val.is_intv(t), Val.is_boolv(t)))
                elif k is bool:
                    alts.append(Val.is_boolv(t))
                elif k is list:
                    alts.append(z3.And(Val.is_ref(t), kind(Val.r(t)) == KIND_LIST))
                elif k is dict:
                    alts.append(z3.And(Val.is_ref(t), kind(Val.r(t)) == KIND_DICT))
                elif k is ip.w.node_class:
                    alts.append(z3.And(Val.is_ref(t), kind(Val.r(t)) == KIND_NODE))
                else:
                    raise Unsupported(f"isinstance(sym, {k})")
            return prims.mk_bool(ip, smt.disj(alts))
        pyt = type_of(ip, v)
        return any(issubclass(pyt, k) for k in clss)
    if isinstance(v, PList):
        return any(issubclass(list, k) for k in clss)
    if isinstance(v, PDict):
        return any(issubclass(dict, k) for k in clss)
    if isinstance(v, PObj):
        return any(issubclass(v.cls, k) for k in clss)
    return isinstance(v, clss)


def b_id(ip, v):
    """A-id: id() is injective on simultaneously live objects; modelled as the reference itself."""
    c = ip.c
    c.assumptions_used.add("A-id")
    if isinstance(v, Sym):
        v = ip.resolve(v)
    if isinstance(v, Sym) and v.t.sort() == I and v.ty != "int":
        return Sym(v.t, "int")
    if isinstance(v, PList):
        return Sym(prims.list_ref(ip, v), "int")
    if isinstance(v, PDict):
        # concrete dicts live at distinct negative pseudo-addresses
        return -1000 - v.serial
    if isinstance(v, PObj):
        return -1000 - v.serial
    if v is None:
        return -1
    raise Unsupported(f"id() of {v!r}")


def b_any(ip, v):
    if isinstance(v, bool):
        return v
    if isinstance(v, PList) and v.ref is None:
        for x in v.items:
            if ip.truth(x):
                return True
        return False
    raise Unsupported("any() over symbolic list")


def b_all(ip, v):
    if isinstance(v, bool):
        return v
    if isinstance(v, PList) and v.ref is None:
        for x in v.items:
            if not ip.truth(x):
                return False
        return True
    raise Unsupported("all() over symbolic list")


def b_print(ip, *a, **k):
    return None


def b_hasattr(ip, o, name):
    raise Unsupported("hasattr")


BUILTINS = {
    builtins.len: b_len,
    builtins.isinstance: b_isinstance,
    builtins.id: b_id,
    builtins.any: b_any,
    builtins.all: b_all,
    builtins.print: b_print,
}


# --------------------------------------------------------------------------------- methods of builtin containers
def call_method(ip, recv, name, args, kwargs):
    c = ip.c
    if isinstance(recv, (logging.LoggerAdapter, logging.Logger)):
        return None  # arguments were already evaluated (they can raise); the call itself is dropped
    if prims.is_list(recv):
        if name == "append":
            return prims.list_append(ip, recv, args[0])
        if name == "insert":
            return prims.list_insert(ip, recv, args[0], args[1])
        if name == "remove":
            return prims.list_remove(ip, recv, args[0])
        if name == "index":
            if len(args) != 1:
                raise Unsupported("list.index with range")
            return prims.list_index(ip, recv, args[0])
        if name == "copy":
            return prims.list_copy(ip, recv)
        if name == "extend":
            return prims.list_extend(ip, recv, args[0])
        raise Unsupported(f"list.{name}")
    if isinstance(recv, PDict) or prims.is_dict(recv):
        if name == "items":
            return DictView(recv, "items")
        if name == "keys":
            return DictView(recv, "keys")
        if name == "values":
            return DictView(recv, "values")
        if name == "get":
            k = args[0]
            default = args[1] if len(args) > 1 else None
            if isinstance(recv, PDict):
                if not isinstance(k, Sym):
                    return recv.d.get(k, default)
                for kk, vv in recv.d.items():
                    if c.branch(prims._b(prims.py_eq(ip, k, kk)), "dictget"):
                        return vv
                return default
            cell = c.heap.get("dmap")[recv.t][c.to_val(k)]
            if c.branch(cell != smt.absent, "haskey"):
                return c.from_val(cell, prims.elt_ty(recv))
            return default
        if name == "popitem":
            if isinstance(recv, PDict):
                if recv.frozen:
                    raise Unsupported("mutation of module table data")
                if not recv.d:
                    ip.py_raise(KeyError, "popitem(): dictionary is empty")
                k = list(recv.d.keys())[-1]
                return (k, recv.d.pop(k))
            return dict_popitem(ip, recv)
        if name == "copy":
            return prims.dict_copy(ip, recv)
        raise Unsupported(f"dict.{name}")
    if prims.is_strv(recv):
        from . import strings
        return strings.method(ip, recv, name, args, kwargs)
    if isinstance(recv, DictView):
        raise Unsupported(f"dictview.{name}")
    if type(recv).__name__ == "MatchObj":
        return ip.w.match_method(ip, recv, name, list(args), kwargs)
    if type(recv).__name__ == "Opaque":
        h = getattr(ip.w, "opaque_methods", {}).get(recv.tag)
        if h is not None:
            return h(ip, recv, name, args, kwargs)
    raise Unsupported(f"method {name} of {recv!r}")


def dict_popitem(ip, recv):
    c = ip.c
    d = recv.t
    n = c.heap.get("dn")[d]
    if not c.branch(n > 0, "nonempty"):
        ip.py_raise(KeyError, "popitem(): dictionary is empty")
    c.fact(c.sv().dict_wf(d))
    kv = c.heap.get("dkey")[d][n - 1]
    k = c.from_val(kv, "val")
    v = c.from_val(c.heap.get("dmap")[d][kv], prims.elt_ty(recv))
    prims.delitem(ip, recv, k)
    return (k, v)
