"""Path context: decision log, solver, heap arrays, obligations, coercions between engine values and z3."""
import time
import z3
from . import smt
from .smt import Val, I, B, S, R, kind, KIND_NODE, KIND_LIST, KIND_DICT
from .values import *


class Infeasible(Exception):
    pass


class PathEnd(Exception):
    """Path stops here (after a loop back edge)."""


class Restart(Exception):
    """Something learnt (array / field / list to havoc at a loop cut); the whole task re-runs."""


class PyRaise(Exception):
    """A python exception raised by the code under verification. exc: PObj of the exception class."""

    def __init__(self, exc):
        self.exc = exc


_HQ_CACHE = {}


def has_quant(t):
    """does the formula contain a quantifier?  (memoised; the cache keeps the terms alive so ids cannot be reused)"""
    if len(_HQ_CACHE) > 400000:
        _HQ_CACHE.clear()
    stack = [t]
    order = []
    while stack:
        x = stack.pop()
        k = x.get_id()
        if k in _HQ_CACHE:
            continue
        if z3.is_quantifier(x):
            _HQ_CACHE[k] = (x, True)
            continue
        ch = x.children()
        pending = [c for c in ch if c.get_id() not in _HQ_CACHE]
        if pending:
            stack.append(x)
            stack.extend(pending)
            continue
        _HQ_CACHE[k] = (x, any(_HQ_CACHE[c.get_id()][1] for c in ch))
    return _HQ_CACHE[t.get_id()][1]


class ObRec:
    __slots__ = ("name", "status", "time", "detail", "model", "path", "kind")

    def __init__(self, name, status, t, detail="", model=None, path=None, kind="goal"):
        self.name, self.status, self.time, self.detail, self.model, self.path, self.kind = name, status, t, detail, model, path, kind

    def to_json(self):
        return {"name": self.name, "status": self.status, "time_s": round(self.time, 4), "detail": self.detail,
                "path": self.path, "kind": self.kind}


def arr_sort(name):
    if name.startswith("F:"):
        return smt.FieldArr
    if name in ("llen", "dn"):
        return smt.IntArr
    if name in ("lelem", "dkey"):
        return smt.LElemArr
    if name == "dmap":
        return smt.DMapArr
    if name == "dpos":
        return smt.DPosArr
    raise KeyError(name)


class Heap:
    """name -> current z3 array term; unmodified arrays are the deterministic initial constants h0_<name>."""

    def __init__(self, cur=None, top=None):
        self.cur = dict(cur or {})
        self.top = top if top is not None else z3.Int("top0")

    def get(self, name):
        a = self.cur.get(name)
        if a is None:
            a = z3.Const("h0_" + name, arr_sort(name))
        return a

    def set(self, name, term):
        self.cur[name] = term

    def snapshot(self):
        return Heap(self.cur, self.top)


class SV:
    """Spec view of a heap, used by contracts."""

    def __init__(self, heap):
        self.h = heap
        self.top = heap.top

    def arr(self, name):
        return self.h.get(name)

    @property
    def cs(self):
        """the children structure (ghost tree predicates are functions of exactly these three arrays)"""
        return (self.h.get("F:_children"), self.h.get("llen"), self.h.get("lelem"))

    def f(self, field, n):
        return self.h.get("F:" + field)[n]

    def fs(self, field, n):
        return Val.s(self.f(field, n))

    def fr(self, field, n):
        return Val.r(self.f(field, n))

    def name(self, n):
        return Val.s(self.f("_name", n))

    def kids(self, n):
        return Val.r(self.f("_children", n))

    def len(self, l):
        return self.h.get("llen")[l]

    def elems(self, l):
        return self.h.get("lelem")[l]

    def at(self, l, i):
        return self.h.get("lelem")[l][i]

    def nat(self, l, i):
        return Val.r(self.at(l, i))

    def nkids(self, n):
        return self.len(self.kids(n))

    def kid(self, n, i):
        return self.nat(self.kids(n), i)

    def dmap(self, d):
        return self.h.get("dmap")[d]

    def dn(self, d):
        return self.h.get("dn")[d]

    def dkey(self, d):
        return self.h.get("dkey")[d]

    def dpos(self, d):
        return self.h.get("dpos")[d]

    def alloc(self, r):
        return z3.And(r > 0, r < self.top)

    def is_node(self, r):
        return z3.And(r > 0, r < self.top, kind(r) == KIND_NODE)

    def dict_wf(self, d):
        """Insertion-ordered dict well-formedness: dkey/dpos are inverse bijections on the present keys."""
        i = z3.Int("wf_i")
        k = z3.Const("wf_k", Val)
        dm, dk, dp, n = self.dmap(d), self.dkey(d), self.dpos(d), self.dn(d)
        return z3.And(
            n >= 0,
            dm[smt.absent] == smt.absent,
            smt.FA([i], z3.Implies(z3.And(0 <= i, i < n), z3.And(dm[dk[i]] != smt.absent, dp[dk[i]] == i)),
                      patterns=[dk[i]]),
            smt.FA([k], z3.Implies(dm[k] != smt.absent, z3.And(0 <= dp[k], dp[k] < n, dk[dp[k]] == k)),
                      patterns=[dm[k]]),
        )


class Ctx:
    """One path of one task."""

    def __init__(self, task, log):
        self.task = task
        self.log = list(log)
        self.given = len(self.log)       # decisions inherited from the parent path: obligations met while replaying them are the parent's
        self.pos = 0
        self.solver = z3.Solver()
        self.solver.set("auto_config", False)
        self.solver.set("smt.mbqi", False)
        self.solver.set("timeout", task.branch_timeout_ms)
        self.qf = z3.Solver()
        self.qf.set("timeout", 400)
        self.nquant = 0
        self.synced = 0
        self.pc = []
        self.heap = Heap()
        self.heap0 = None
        self.counter = 0
        self.serial = 0
        self.epoch = 0
        self.loop_stack = []
        self.obs = []
        self.facts = {}
        self.objtab = ObjTab()              # python object <-> objv id (per path)
        self.pobjs = {}
        self.depth = 0
        self.assumptions_used = set()
        self.path_id = None
        self.trace = []

    # ---- fresh names -------------------------------------------------------------------------
    def fresh(self, base, sort):
        self.counter += 1
        return z3.Const(f"{base}!{self.counter}", sort)

    def def_array(self, name, idx_sort, body_fn):
        """fresh array constant a with (forall j. a[j] == body_fn(j)); keeps heap terms first order (no lambdas inside
        arguments of ghost functions, where E-matching cannot see through them)."""
        j = z3.Const("da_j", idx_sort)
        body = body_fn(j)
        a = self.fresh(name, z3.ArraySort(idx_sort, body.sort()))
        self.assume(z3.ForAll([j], a[j] == body, patterns=[a[j]]))
        return a

    def next_serial(self):
        self.serial += 1
        return self.serial

    # ---- path condition ----------------------------------------------------------------------
    def assume(self, f):
        if isinstance(f, bool):
            if not f:
                raise Infeasible()
            return
        if z3.is_true(f):
            return
        self.pc.append(f)

    def fact(self, f):
        """assume a schema/type fact once."""
        key = f.get_id()
        if key in self.facts:
            return
        self.facts[key] = f      # keeps the term alive so its id cannot be reused
        self.assume(f)

    def sync(self):
        """push the path condition collected so far into the solvers (lazily: while a prefix is only replayed nothing is asked of
        the solvers, and a merge-point reset discards everything before it)"""
        while self.synced < len(self.pc):
            f = self.pc[self.synced]
            self.synced += 1
            self.solver.add(f)
            if not has_quant(f):
                self.qf.add(f)
            else:
                self.nquant += 1

    def feasible(self, f):
        self.sync()
        t0 = time.time()
        self.qf.push()
        self.qf.add(f)
        r = self.qf.check()
        self.qf.pop()
        self.task.t_qf = getattr(self.task, 't_qf', 0.0) + time.time() - t0
        if r != z3.unsat and self.nquant and self.task.full_feasibility:
            self.solver.push()
            self.solver.set("timeout", 400)
            self.solver.add(f)
            r = self.solver.check()
            self.solver.pop()
            self.solver.set("timeout", self.task.branch_timeout_ms)
        self.task.t_feas += time.time() - t0
        return r != z3.unsat

    def branch(self, cond, tag=""):
        """Decide a symbolic condition; forks by pushing the alternative on the task's worklist."""
        if isinstance(cond, bool):
            return cond
        cond = z3.simplify(cond)
        if z3.is_true(cond):
            return True
        if z3.is_false(cond):
            return False
        sh = getattr(self.task, "shard", None)
        forced = None
        if sh is not None:
            if isinstance(sh[0], str):
                # shard by the first len(bits) decisions carrying a given tag (e.g. the first four `if` statements): stable when the number
                # of decisions before them varies from path to path
                if tag == sh[0]:
                    k = getattr(self, "_tagged", 0)
                    self._tagged = k + 1
                    if k < len(sh[1]):
                        forced = bool(sh[1][k])
            elif sh[0] <= self.pos < sh[0] + len(sh[1]):
                forced = bool(sh[1][self.pos - sh[0]])
        if self.pos < len(self.log):
            d = self.log[self.pos]
        elif forced is not None:
            # sharded exploration: at these decisions this task follows its own bit pattern only (the other patterns are other tasks)
            d = forced
            if not self.feasible(cond if d else z3.Not(cond)):
                raise PathEnd()
            self.log.append(d)
        else:
            ft = self.feasible(cond)
            ff = self.feasible(z3.Not(cond))
            if ft and ff:
                d = True
                self.task.worklist.append(self.log[: self.pos] + [False])
            elif ft:
                d = True
            elif ff:
                d = False
            else:
                raise Infeasible()
            self.log.append(d)
        self.pos += 1
        self.trace.append((tag, d))
        self.assume(cond if d else z3.Not(cond))
        return d

    def reset_to_base(self):
        """fresh context at a merge point: only the function-entry facts survive"""
        self.solver = z3.Solver()
        self.solver.set("auto_config", False)
        self.solver.set("smt.mbqi", False)
        self.solver.set("timeout", self.task.branch_timeout_ms)
        self.qf = z3.Solver()
        self.qf.set("timeout", 400)
        self.nquant = 0
        self.synced = 0
        base = list(getattr(self, "base_pc", []))
        self.pc = []
        self.facts = {}
        for f in base:
            self.assume(f)

    # ---- obligations -------------------------------------------------------------------------
    def prove(self, name, goal, kind="goal", detail=""):
        if isinstance(goal, bool):
            goal = z3.BoolVal(goal)
        if self.pos < self.given:
            # replaying the prefix shared with the parent path: the parent already decided this very obligation
            try:
                self.assume(goal)
            except Infeasible:
                pass
            return True
        t0 = time.time()
        goal_s = z3.simplify(goal)
        if z3.is_true(goal_s):
            self.obs.append(ObRec(name, "proved", 0.0, "trivial", path=self.path_id, kind=kind))
            return True
        status, model = self.task.check_goal(self, goal)
        dt = time.time() - t0
        rec = ObRec(name, status, dt, detail, model=model, path=self.path_id, kind=kind)
        if status != "proved":
            rec.detail = (detail + " goal=" + str(goal_s)[:600]).strip()
            rec.model = self.task.describe_model(self, model) if model is not None else None
        self.obs.append(rec)
        # assert-then-assume: continue the path with the goal as a fact
        try:
            self.assume(goal)
        except Infeasible:
            pass
        return status == "proved"

    def fail(self, name, detail, kind="goal"):
        """An obligation that fails by construction on this (feasible) path, e.g. an unexpected exception."""
        if self.pos < self.given:
            return
        self.sync()
        model = None
        r = self.solver.check()
        if r == z3.sat:
            model = self.task.describe_model(self, self.solver.model())
            status = "refuted"
        elif r == z3.unsat:
            return  # path is infeasible after all
        else:
            # the path could not be shown infeasible; a model of its quantifier-free part guides the native replay
            status = "undecided"
            detail += " (path not shown infeasible)"
            if self.qf.check() == z3.sat:
                model = self.task.describe_model(self, self.qf.model())
            elif self.qf.check() == z3.unsat:
                return
        self.obs.append(ObRec(name, status, 0.0, detail, model=model, path=self.path_id, kind=kind))

    # ---- heap writes (with loop-cut learning) ------------------------------------------------------
    def write_array(self, name, term):
        for lp in self.loop_stack:
            if name not in lp["arrays"]:
                self.task.learn_array(lp["key"], name)
                raise Restart(f"array {name} written in loop {lp['key']}")
        self.heap.set(name, term)

    def note_pobj_write(self, obj, field):
        for lp in self.loop_stack:
            if obj.epoch < lp["epoch"] and (obj.serial, field) not in lp["fields"]:
                self.task.learn_field(lp["key"], obj.serial, field)
                raise Restart(f"field {field} of {obj} written in loop {lp['key']}")

    def note_plist_write(self, pl):
        if pl.ref is not None:
            return
        for lp in self.loop_stack:
            if pl.epoch < lp["epoch"]:
                self.task.learn_promote(pl.serial)
                raise Restart(f"list {pl} mutated in loop {lp['key']}")

    # ---- allocation -------------------------------------------------------------------------------
    def alloc(self, k):
        for lp in self.loop_stack:
            if "top" not in lp["arrays"]:
                self.task.learn_array(lp["key"], "top")
                raise Restart("allocation in loop")
        r = self.heap.top
        self.assume(kind(r) == k)   # r >= top at entry: nothing was known about kind(r)
        self.heap.top = z3.simplify(r + 1)
        return r

    def sv(self):
        return SV(self.heap)

    # ---- object table for opaque python objects -----------------------------------------------------
    def obj_id(self, o):
        return self.objtab.intern(o)

    # ---- coercions --------------------------------------------------------------------------------
    def to_val(self, v):
        """engine value -> z3 term of sort Val"""
        if v is None:
            return Val.none
        if isinstance(v, bool):
            return Val.boolv(z3.BoolVal(v))
        if isinstance(v, int):
            return Val.intv(z3.IntVal(v))
        if isinstance(v, str):
            return Val.strv(z3.StringVal(v))
        if isinstance(v, float):
            import math
            if math.isnan(v):
                return Val.fltv(1, z3.RealVal(0))
            if math.isinf(v):
                return Val.fltv(2 if v > 0 else 3, z3.RealVal(0))
            return Val.fltv(0, z3.RealVal(repr(v)) if "e" not in repr(v) and "E" not in repr(v) else z3.RealVal(str(__import__("fractions").Fraction(v))))
        if isinstance(v, Sym):
            s = v.t.sort()
            if s == Val:
                return v.t
            # a value that was unboxed from a Val term goes back as that very term (its type fact is re-asserted), which keeps
            # constructor/accessor round trips out of the queries
            if z3.is_app(v.t) and v.t.num_args() == 1 and v.t.arg(0).sort() == Val:
                d, x = v.t.decl(), v.t.arg(0)
                if s == S and d.eq(Val.s):
                    self.fact(Val.is_strv(x))
                    return x
                if s == I and v.ty == "int" and d.eq(Val.i):
                    self.fact(Val.is_intv(x))
                    return x
                if s == I and v.ty != "int" and d.eq(Val.r):
                    self.fact(Val.is_ref(x))
                    return x
                if s == B and d.eq(Val.b):
                    self.fact(Val.is_boolv(x))
                    return x
            if s == I:
                if v.ty == "int":
                    return Val.intv(v.t)
                return Val.ref(v.t)
            if s == B:
                return Val.boolv(v.t)
            if s == S:
                return Val.strv(v.t)
            raise Unsupported(f"to_val of sort {s}")
        if isinstance(v, PList):
            if v.ref is None:
                self.promote(v)
            return Val.ref(v.ref)
        if isinstance(v, tuple):
            tid = self.fresh("tup", I)
            self.assume(smt.TLEN(tid) == len(v))
            for j, x in enumerate(v):
                self.assume(smt.TITEM(tid, j) == self.to_val(x))
            return Val.tupv(tid)
        if isinstance(v, PDict):
            return self.to_val(self.promote_dict(v))
        # opaque python object (enum member, class, function, PObj ...)
        return Val.objv(z3.IntVal(self.obj_id(v)))

    def promote(self, pl, elt="val"):
        """concrete-mode PList -> heap list object (in place)."""
        if pl.ref is not None:
            return pl.ref
        r = self.alloc(KIND_LIST)
        items = pl.items
        pl.items = None
        pl.ref = r
        pl.elt = elt
        ea = z3.K(I, Val.none)
        for j, x in enumerate(items):
            ea = z3.Store(ea, j, self.to_val(x))
        self.heap.set("llen", z3.Store(self.heap.get("llen"), r, len(items)))
        self.heap.set("lelem", z3.Store(self.heap.get("lelem"), r, ea))
        return r

    def promote_dict(self, pd, valty="val"):
        """concrete PDict -> fresh heap dict (a copy; used only for fresh dict displays)."""
        r = self.alloc(KIND_DICT)
        dm = z3.K(Val, smt.absent)
        dk = z3.K(I, Val.none)
        dp = z3.K(Val, z3.IntVal(-1))
        for j, (k, x) in enumerate(pd.d.items()):
            kv = self.to_val(k)
            dm = z3.Store(dm, kv, self.to_val(x))
            dk = z3.Store(dk, j, kv)
            dp = z3.Store(dp, kv, j)
        self.heap.set("dn", z3.Store(self.heap.get("dn"), r, len(pd.d)))
        self.heap.set("dmap", z3.Store(self.heap.get("dmap"), r, dm))
        self.heap.set("dkey", z3.Store(self.heap.get("dkey"), r, dk))
        self.heap.set("dpos", z3.Store(self.heap.get("dpos"), r, dp))
        return Sym(r, "dict:" + valty)

    def from_val(self, t, ty):
        """Val-sorted term + static type -> engine value, emitting the type facts the schema promises."""
        t = z3.simplify(t)
        if ty is None or ty == "val":
            return self.concretise(Sym(t, "val"))
        if ty.startswith("opt:"):
            inner = ty[4:]
            self.fact(z3.Or(t == Val.none, self.ty_fact(t, inner)))
            return self.concretise(Sym(t, ty))
        self.fact(self.ty_fact(t, ty))
        return self.concretise(self.narrow(t, ty))

    def narrow(self, t, ty):
        if ty == "str":
            return Sym(z3.simplify(Val.s(t)), "str")
        if ty == "int":
            return Sym(z3.simplify(Val.i(t)), "int")
        if ty == "bool":
            return Sym(z3.simplify(Val.b(t)), "bool")
        if ty == "Node" or ty.startswith("list") or ty.startswith("dict"):
            return Sym(z3.simplify(Val.r(t)), ty)
        return Sym(t, ty)

    def ty_fact(self, t, ty):
        top = self.heap.top
        if ty == "str":
            return Val.is_strv(t)
        if ty == "int":
            return Val.is_intv(t)
        if ty == "bool":
            return Val.is_boolv(t)
        if ty == "Node":
            r = Val.r(t)
            return z3.And(Val.is_ref(t), r > 0, r < top, kind(r) == KIND_NODE)
        if ty.startswith("list"):
            r = Val.r(t)
            return z3.And(Val.is_ref(t), r > 0, r < top, kind(r) == KIND_LIST, self.heap.get("llen")[r] >= 0)
        if ty.startswith("dict"):
            r = Val.r(t)
            return z3.And(Val.is_ref(t), r > 0, r < top, kind(r) == KIND_DICT, self.heap.get("dn")[r] >= 0)
        if ty == "float":
            return Val.is_fltv(t)
        if ty == "val" or ty == "tuple":
            return z3.BoolVal(True)
        if ty.startswith("opt:"):
            return z3.Or(t == Val.none, self.ty_fact(t, ty[4:]))
        raise Unsupported(f"type {ty}")

    def concretise(self, v):
        """turn a Sym whose term is a literal into the python value."""
        if not isinstance(v, Sym):
            return v
        t = v.t
        s = t.sort()
        if s == I and z3.is_int_value(t) and v.ty == "int":
            return t.as_long()
        if s == B:
            if z3.is_true(t):
                return True
            if z3.is_false(t):
                return False
        if s == S and z3.is_string_value(t):
            return t.as_string()
        if s == Val and z3.is_app(t):
            d = t.decl()
            if d.eq(Val.none):
                return None
            if d.eq(Val.intv) and z3.is_int_value(t.arg(0)):
                return t.arg(0).as_long()
            if d.eq(Val.boolv) and (z3.is_true(t.arg(0)) or z3.is_false(t.arg(0))):
                return z3.is_true(t.arg(0))
            if d.eq(Val.strv) and z3.is_string_value(t.arg(0)):
                return t.arg(0).as_string()
            if d.eq(Val.objv) and z3.is_int_value(t.arg(0)):
                return self.objtab.lookup(t.arg(0).as_long())
            if d.eq(Val.strv):
                return Sym(t.arg(0), "str")
            if d.eq(Val.intv):
                return Sym(t.arg(0), "int")
            if d.eq(Val.boolv):
                return Sym(t.arg(0), "bool")
        return v


_GLOBAL_OBJS = []
_GLOBAL_KEYS = {}
PO_BASE = 10_000_000


def global_obj_id(o):
    """process-wide stable id of an immutable opaque python object (enum member, class, function)"""
    k = _GLOBAL_KEYS.get(id(o))
    if k is None:
        k = len(_GLOBAL_OBJS)
        _GLOBAL_KEYS[id(o)] = k
        _GLOBAL_OBJS.append(o)
    return k


def obj_term(o):
    return Val.objv(z3.IntVal(global_obj_id(o)))


class ObjTab:
    """opaque python objects that flow into Val terms: global ids for immutable objects, per-path ids for PObj"""

    def __init__(self):
        self.pobjs = {}

    def intern(self, o):
        if isinstance(o, PObj):
            self.pobjs[o.serial] = o
            return PO_BASE + o.serial
        return global_obj_id(o)

    def lookup(self, k):
        if k >= PO_BASE:
            return self.pobjs[k - PO_BASE]
        return _GLOBAL_OBJS[k]
