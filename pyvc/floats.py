"""Float values (kind, real) with IEEE comparison rules for nan; filled in for C02."""
import z3
from .smt import Val
from .values import *


def is_flt(v):
    return isinstance(v, float) or (isinstance(v, Sym) and v.ty == "float")


def parts(ip, v):
    """(kind term, real term) of a float / int value"""
    import math
    if isinstance(v, bool):
        v = int(v)
    if isinstance(v, int):
        return z3.IntVal(0), z3.RealVal(v)
    if isinstance(v, float):
        if math.isnan(v):
            return z3.IntVal(1), z3.RealVal(0)
        if math.isinf(v):
            return z3.IntVal(2 if v > 0 else 3), z3.RealVal(0)
        from fractions import Fraction
        return z3.IntVal(0), z3.RealVal(str(Fraction(v)))
    if isinstance(v, Sym) and v.ty == "float":
        return Val.fk(v.t), Val.fx(v.t)
    if isinstance(v, Sym) and v.ty == "int":
        return z3.IntVal(0), z3.ToReal(v.t)
    return None


def compare(ip, op, a, b):
    if not (is_flt(a) or is_flt(b)):
        return NotImplemented
    if isinstance(a, (int, float)) and isinstance(b, (int, float)):
        return {"Lt": a < b, "LtE": a <= b, "Gt": a > b, "GtE": a >= b}[op]
    pa, pb = parts(ip, a), parts(ip, b)
    if pa is None or pb is None:
        return NotImplemented
    (ka, xa), (kb, xb) = pa, pb
    # total order on {-inf < finite < +inf}; nan compares false with everything
    def rank(k, x):
        return z3.If(k == 3, z3.RealVal(-1), z3.If(k == 2, z3.RealVal(1), z3.RealVal(0)))
    nonan = z3.And(ka != 1, kb != 1)
    ra, rb = rank(ka, xa), rank(kb, xb)
    lt = z3.Or(ra < rb, z3.And(ra == rb, ka == 0, kb == 0, xa < xb))
    eq = z3.And(ka == kb, z3.Or(ka != 0, xa == xb))
    if op == "Lt":
        return z3.And(nonan, lt)
    if op == "LtE":
        return z3.And(nonan, z3.Or(lt, eq))
    if op == "Gt":
        return z3.And(nonan, z3.Not(lt), z3.Not(eq))
    if op == "GtE":
        return z3.And(nonan, z3.Not(lt))
    return NotImplemented


def binop(ip, op, a, b):
    return NotImplemented
