"""Symbolic interpreter for the supported Python subset (direct style; forking through the decision log)."""
import ast
import os
import builtins
import enum
import inspect
import logging
import types
import z3

from . import smt
from .smt import Val, I, B, S, R, kind, KIND_NODE, KIND_LIST, KIND_DICT
from .values import *
from .core import *
from . import prims


class _Return(Exception):
    def __init__(self, v):
        self.v = v


class _Break(Exception):
    pass


class _Continue(Exception):
    pass


class Frame:
    __slots__ = ("func", "locals", "globals", "qual", "loop_ord", "srcinfo")

    def __init__(self, func, qual, locals_, globals_, srcinfo):
        self.func, self.qual, self.locals, self.globals, self.srcinfo = func, qual, locals_, globals_, srcinfo


_SRC_CACHE = {}


class SrcInfo:
    """AST of one function, re-read from the working tree."""

    def __init__(self, func):
        f = inspect.unwrap(func)
        path = inspect.getsourcefile(f)
        text = open(path, encoding="utf-8").read()
        key = (path, hash(text))
        tree = _SRC_CACHE.get(key)
        if tree is None:
            tree = ast.parse(text)
            _SRC_CACHE[key] = tree
        target = None
        line = f.__code__.co_firstlineno
        for n in ast.walk(tree):
            if isinstance(n, (ast.FunctionDef,)) and n.name == f.__name__:
                first = min([n.lineno] + [d.lineno for d in n.decorator_list])
                if first == line or n.lineno == line:
                    target = n
                    break
        if target is None:
            raise Unsupported(f"source of {f.__qualname__} not found in {path}")
        from . import alpha
        if os.environ.get("VERIF_WRITE_BASELINE"):
            alpha.write_reference(f, target)
        # locals renamed since the contracts were written are mapped back (pure alpha-renaming only; see alpha.py)
        target, self.alpha = alpha.normalise(f, target)
        self.qualname = f"{f.__module__}:{f.__qualname__}"
        self.node = target
        self.path = path
        self.text = ast.get_source_segment(text, target)
        # number the loops of the function in source order (cut points are keyed by ordinal, not by line); when the function no
        # longer has the loops of the reference text one for one, a loop keeps the ordinal of the reference loop that iterates over
        # the same expression, so that a loop added or removed elsewhere in the function does not shift the contracts of the others
        self.loop_ord = {}
        loops_here = [n for n in _walk_in_order(target) if isinstance(n, (ast.For, ast.While, ast.ListComp, ast.GeneratorExp))]
        ords = alpha.loop_ordinals(f, loops_here)
        for n, k in zip(loops_here, ords):
            self.loop_ord[id(n)] = k


def _walk_in_order(node):
    yield node
    for c in ast.iter_child_nodes(node):
        yield from _walk_in_order(c)


_SRCINFO = {}


def srcinfo(func):
    k = id(inspect.unwrap(func).__code__)
    si = _SRCINFO.get(k)
    if si is None:
        si = SrcInfo(func)
        _SRCINFO[k] = si
    return si


def assigned_names(stmts):
    out = set()
    for st in stmts:
        for n in ast.walk(st):
            if isinstance(n, ast.Name) and isinstance(n.ctx, (ast.Store, ast.Del)):
                out.add(n.id)
    return out


class Interp:
    def __init__(self, ctx, world):
        self.c = ctx
        self.w = world          # World: contracts, schema, externals
        self.frames = []
        self.conv_cache = {}

    # ------------------------------------------------------------------ helpers
    def mk_exc(self, cls, *args):
        c = self.c
        return PObj(cls, {"args": tuple(args)}, c.next_serial(), c.epoch)

    def py_raise(self, cls, msg=""):
        raise PyRaise(self.mk_exc(cls, msg))

    def new_list(self, items, frozen=False):
        c = self.c
        pl = PList(list(items), c.next_serial(), c.epoch, frozen)
        if pl.serial in c.task.promote_serials:
            c.promote(pl)
        return pl

    def new_dict(self, d, frozen=False):
        c = self.c
        return PDict(dict(d), c.next_serial(), c.epoch, frozen)

    def wrap(self, o):
        """python object from a module namespace -> engine value (deep conversion of containers, cached per path)."""
        if o is None or isinstance(o, (bool, int, str, float)):
            return o
        if isinstance(o, (list, dict)):
            k = id(o)
            v = self.conv_cache.get(k)
            if v is None:
                if isinstance(o, list):
                    v = PList([self.wrap(x) for x in o], self.c.next_serial(), -1, frozen=True)
                else:
                    hk = self.w.heap_globals.get(k)
                    if hk is not None:
                        v = hk(self)
                    else:
                        v = PDict({kk: self.wrap(x) for kk, x in o.items()}, self.c.next_serial(), -1, frozen=True)
                self.conv_cache[k] = v
            return v
        if isinstance(o, tuple):
            return tuple(self.wrap(x) for x in o)
        return o

    # ------------------------------------------------------------------ expressions
    def ev(self, e):
        m = getattr(self, "ev_" + type(e).__name__, None)
        if m is None:
            raise Unsupported(f"expression {type(e).__name__}")
        return m(e)

    def ev_Constant(self, e):
        v = e.value
        if v is None or isinstance(v, (bool, int, str, float)):
            return v
        raise Unsupported(f"constant {v!r}")

    def ev_Name(self, e):
        fr = self.frames[-1]
        if e.id in fr.locals:
            return fr.locals[e.id]
        if e.id in fr.globals:
            return self.wrap(fr.globals[e.id])
        if hasattr(builtins, e.id):
            return getattr(builtins, e.id)
        self.py_raise(NameError, e.id)

    def ev_Tuple(self, e):
        return tuple(self.ev(x) for x in e.elts)

    def ev_List(self, e):
        return self.new_list([self.ev(x) for x in e.elts])

    def ev_Dict(self, e):
        if any(k is None for k in e.keys):
            parts = [self.ev(v) for v in e.values]
            if all(k is None for k in e.keys):
                return prims.dict_merge(self, parts)
            raise Unsupported("mixed dict display")
        d = {}
        for k, v in zip(e.keys, e.values):
            kk = self.ev(k)
            if isinstance(kk, Sym):
                kk = self.c.concretise(kk)
            if isinstance(kk, Sym):
                # single symbolic key: build heap dict
                if len(e.keys) == 1:
                    hd = self.c.promote_dict(self.new_dict({}))
                    prims.dict_setitem(self, hd, kk, self.ev(v))
                    return hd
                raise Unsupported("dict display with several symbolic keys")
            d[kk] = self.ev(v)
        # dicts built by the code under verification live on the heap (they may later receive symbolic keys)
        return self.c.promote_dict(self.new_dict(d))

    def ev_JoinedStr(self, e):
        parts = []
        allc = True
        for p in e.values:
            if isinstance(p, ast.Constant):
                parts.append(p.value)
            else:
                v = self.ev(p.value)
                if p.format_spec is not None:
                    self.ev(p.format_spec)
                sv = prims.to_str(self, v, conv=p.conversion)
                if isinstance(sv, str):
                    parts.append(sv)
                else:
                    allc = False
                    parts.append(sv)
        if allc:
            return "".join(parts)
        return prims.str_concat(self, parts)

    def ev_FormattedValue(self, e):
        return prims.to_str(self, self.ev(e.value))

    def ev_BoolOp(self, e):
        is_and = isinstance(e.op, ast.And)
        v = None
        for i, x in enumerate(e.values):
            v = self.ev(x)
            if i == len(e.values) - 1:
                return v
            t = self.truth(v)
            if is_and and not t:
                return v
            if not is_and and t:
                return v
        return v

    def ev_UnaryOp(self, e):
        v = self.ev(e.operand)
        if isinstance(e.op, ast.Not):
            t = self.truth_term(v)
            if isinstance(t, bool):
                return not t
            return self.c.concretise(Sym(z3.simplify(z3.Not(t)), "bool"))
        if isinstance(e.op, ast.USub):
            if isinstance(v, (int, float)) and not isinstance(v, bool):
                return -v
            if isinstance(v, Sym) and v.ty == "int":
                return Sym(-v.t, "int")
        raise Unsupported(f"unary {type(e.op).__name__}")

    def ev_BinOp(self, e):
        a = self.ev(e.left)
        b = self.ev(e.right)
        return prims.binop(self, type(e.op).__name__, a, b)

    def ev_IfExp(self, e):
        if self.truth(self.ev(e.test)):
            return self.ev(e.body)
        return self.ev(e.orelse)

    def ev_Compare(self, e):
        left = self.ev(e.left)
        result = True
        for op, rc in zip(e.ops, e.comparators):
            right = self.ev(rc)
            r = prims.compare(self, type(op).__name__, left, right)
            if len(e.ops) == 1:
                return r
            if not self.truth(r):
                return False
            left = right
        return result

    def ev_Attribute(self, e):
        o = self.ev(e.value)
        return self.getattr(o, e.attr)

    def ev_Subscript(self, e):
        o = self.ev(e.value)
        if isinstance(e.slice, ast.Slice):
            lo = self.ev(e.slice.lower) if e.slice.lower is not None else None
            hi = self.ev(e.slice.upper) if e.slice.upper is not None else None
            if e.slice.step is not None:
                raise Unsupported("slice step")
            return prims.getslice(self, o, lo, hi)
        k = self.ev(e.slice)
        return prims.getitem(self, o, k)

    def ev_Call(self, e):
        f = self.ev(e.func)
        args = []
        if (f is builtins.any or f is builtins.all) and len(e.args) == 1 and isinstance(e.args[0], ast.GeneratorExp):
            from . import loops
            g = e.args[0]
            return loops.comprehension(self, g, g.elt, g.generators, mode="any" if f is builtins.any else "all")
        for a in e.args:
            if isinstance(a, ast.Starred):
                raise Unsupported("starred call argument")
            # generator expressions as sole argument of any/all/join are handled lazily
            if isinstance(a, ast.GeneratorExp):
                args.append(self.ev_comp(a, a.elt, a.generators))
            else:
                args.append(self.ev(a))
        kwargs = {}
        for k in e.keywords:
            if k.arg is None:
                raise Unsupported("**kwargs call")
            kwargs[k.arg] = self.ev(k.value)
        return self.call(f, args, kwargs)

    def ev_ListComp(self, e):
        return self.ev_comp(e, e.elt, e.generators)

    def ev_GeneratorExp(self, e):
        return self.ev_comp(e, e.elt, e.generators)

    def ev_comp(self, e, elt, gens):
        from . import loops
        return loops.comprehension(self, e, elt, gens)

    # ------------------------------------------------------------------ truth
    def truth_term(self, v):
        """python truthiness as bool or z3 Bool."""
        c = self.c
        if isinstance(v, Sym):
            t = v.t
            s = t.sort()
            if s == B:
                return t
            if s == I:
                if v.ty == "int":
                    return t != 0
                if v.ty == "Node":
                    return True
                if v.ty.startswith("list"):
                    return c.heap.get("llen")[t] > 0
                if v.ty.startswith("dict"):
                    return c.heap.get("dn")[t] > 0
                raise Unsupported(f"truth of {v.ty}")
            if s == S:
                return z3.Length(t) > 0
            if s == Val:
                r = Val.r(t)
                return z3.And(
                    t != Val.none,
                    z3.Implies(Val.is_boolv(t), Val.b(t)),
                    z3.Implies(Val.is_intv(t), Val.i(t) != 0),
                    z3.Implies(Val.is_strv(t), z3.Length(Val.s(t)) > 0),
                    z3.Implies(z3.And(Val.is_ref(t), kind(r) == KIND_LIST), c.heap.get("llen")[r] > 0),
                    z3.Implies(z3.And(Val.is_ref(t), kind(r) == KIND_DICT), c.heap.get("dn")[r] > 0),
                    z3.Implies(Val.is_tupv(t), smt.TLEN(Val.tid(t)) > 0),
                    z3.Implies(Val.is_fltv(t), z3.Or(Val.fk(t) != 0, Val.fx(t) != 0)),
                    t != smt.absent,
                )
        if isinstance(v, PList):
            if v.ref is None:
                return len(v.items) > 0
            return c.heap.get("llen")[v.ref] > 0
        if isinstance(v, PDict):
            return len(v.d) > 0
        if isinstance(v, (PObj, BoundMethod, BuiltinMethod)):
            return True
        if isinstance(v, (DictView, RangeV, EnumerateV)):
            raise Unsupported("truth of view")
        return bool(v)

    def truth(self, v, tag=""):
        return self.c.branch(self.truth_term(v), tag)

    # ------------------------------------------------------------------ attributes
    def mangle(self, name):
        """private name mangling: inside a method of class C, `x.__attr` means `x._C__attr`"""
        if name.startswith("__") and not name.endswith("__") and self.frames:
            q = self.frames[-1].qual.split(":")[-1]
            if "." in q:
                cls = q.split(".")[-2].lstrip("_")
                if cls:
                    return f"_{cls}{name}"
        return name

    def getattr(self, o, name):
        c = self.c
        name = self.mangle(name)
        if isinstance(o, Sym):
            o = self.resolve(o)
        if isinstance(o, Sym) and o.t.sort() == Val and (o.ty or "val") == "val":
            o = self.resolve_untyped(o)
            if o is None:
                self.py_raise(AttributeError, f"'NoneType' object has no attribute '{name}'")
        if isinstance(o, Sym):
            ty = o.ty
            if ty == "Node":
                fields = self.w.schema["Node"]
                if name in fields:
                    return c.from_val(c.heap.get("F:" + name)[o.t], fields[name])
                return self.class_attr(self.w.node_class, name, o)
            if ty == "str":
                return BuiltinMethod(o, name)
            if ty.startswith("list") or ty.startswith("dict"):
                return BuiltinMethod(o, name)
            raise Unsupported(f"attribute {name} of symbolic {ty}")
        if o is None:
            self.py_raise(AttributeError, f"'NoneType' object has no attribute '{name}'")
        if isinstance(o, PObj):
            if name in o.fields:
                return o.fields[name]
            if issubclass(o.cls, BaseException) and name == "args":
                return o.fields.get("args", ())
            return self.class_attr(o.cls, name, o)
        if isinstance(o, (PList, PDict, str, DictView)):
            return BuiltinMethod(o, name)
        if type(o).__name__ in ("Opaque", "MatchObj"):
            return BuiltinMethod(o, name)
        if isinstance(o, type) and not issubclass(o, enum.Enum):
            hk = self.w.class_heap_attrs.get((o, name))
            if hk is not None:
                return hk(self)
            return self.class_attr(o, name, None, via_class=o)
        if isinstance(o, (bool, int, float, tuple)):
            raise Unsupported(f"attribute {name} of {type(o).__name__}")
        if isinstance(o, logging.LoggerAdapter) or isinstance(o, logging.Logger):
            return BuiltinMethod(o, name)
        # real python object (module, enum class, enum member, function ...)
        try:
            v = getattr(o, name)
        except AttributeError as ex:
            self.py_raise(AttributeError, str(ex))
        return self.wrap(v)

    def class_attr(self, cls, name, inst, via_class=None):
        try:
            raw = inspect.getattr_static(cls, name)
        except AttributeError:
            self.py_raise(AttributeError, f"'{cls.__name__}' object has no attribute '{name}'")
        if isinstance(raw, property):
            if inst is None:
                return raw
            return self.call_function(raw.fget, [inst], {})
        if isinstance(raw, staticmethod):
            return raw.__func__
        if isinstance(raw, classmethod):
            return BoundMethod(raw.__func__, via_class or cls)
        if isinstance(raw, types.FunctionType):
            if inst is None:
                return raw
            return BoundMethod(raw, inst)
        hk = self.w.class_heap_attrs.get((cls, name))
        if hk is not None:
            return hk(self)
        return self.wrap(raw)

    def setattr(self, o, name, v):
        name = self.mangle(name)
        c = self.c
        if isinstance(o, Sym):
            o = self.resolve(o)
        if isinstance(o, Sym) and o.ty == "Node":
            fields = self.w.schema["Node"]
            if name in fields:
                self.store_field(o.t, name, v)
                return
            raw = inspect.getattr_static(self.w.node_class, name, None)
            if isinstance(raw, property) and raw.fset is not None:
                self.call_function(raw.fset, [o, v], {})
                return
            raise Unsupported(f"store to undeclared Node attribute {name}")
        if isinstance(o, PObj):
            raw = inspect.getattr_static(o.cls, name, None)
            if isinstance(raw, property):
                if raw.fset is None:
                    self.py_raise(AttributeError, f"can't set attribute {name}")
                self.call_function(raw.fset, [o, v], {})
                return
            c.note_pobj_write(o, name)
            o.fields[name] = v
            return
        if o is None:
            self.py_raise(AttributeError, f"'NoneType' object has no attribute '{name}'")
        raise Unsupported(f"attribute store on {type(o).__name__}")

    def store_field(self, n, name, v):
        c = self.c
        ty = self.w.schema["Node"][name]
        tv = c.to_val(v)
        # schema conformance of the stored value (keeps T-schema an invariant rather than an assumption)
        ok = self.conforms(v, tv, ty)
        if ok is not True:
            c.prove(f"{self.frames[-1].qual}/schema:{name}", ok, kind="schema")
        arr = c.heap.get("F:" + name)
        c.write_array("F:" + name, z3.Store(arr, n, tv))

    def conforms(self, v, tv, ty):
        if isinstance(v, Sym) and (v.ty == ty or (ty.startswith("opt:") and v.ty == ty[4:])):
            return True
        if isinstance(v, Sym) and ty.split(":")[0] in ("list", "dict") and v.ty.split(":")[0] == ty.split(":")[0]:
            return True
        if isinstance(v, Sym) and ty.startswith("opt:") and ty[4:].split(":")[0] in ("list", "dict") and v.ty.split(":")[0] == ty[4:].split(":")[0]:
            return True
        if v is None and ty.startswith("opt:"):
            return True
        if isinstance(v, str) and ty in ("str", "opt:str"):
            return True
        if isinstance(v, PList) and ty.split(":")[0] == "list":
            return True
        return z3.simplify(self.c.ty_fact(tv, ty))

    def resolve_untyped(self, v):
        """fork an untyped symbolic value over the run-time classes that have attributes here"""
        c = self.c
        t = v.t
        if c.branch(t == Val.none, "isnone"):
            return None
        r = Val.r(t)
        if c.branch(z3.And(Val.is_ref(t), kind(r) == KIND_NODE), "isnode"):
            c.fact(z3.And(r > 0, r < c.heap.top))
            return Sym(r, "Node")
        if c.branch(z3.And(Val.is_ref(t), kind(r) == KIND_LIST), "islist"):
            return Sym(r, "list:val")
        if c.branch(z3.And(Val.is_ref(t), kind(r) == KIND_DICT), "isdict"):
            return Sym(r, "dict:val")
        if c.branch(Val.is_strv(t), "isstr"):
            return Sym(Val.s(t), "str")
        c.sync()
        if c.solver.check() == z3.unsat:      # the quantified facts rule the remaining classes out
            raise Infeasible()
        raise Unsupported("attribute access on a symbolic value of unknown class")

    def resolve(self, v):
        """fork an optional symbolic value into None / the narrowed inner value."""
        c = self.c
        if isinstance(v, Sym) and v.t.sort() == Val:
            ty = v.ty or "val"
            if ty.startswith("opt:"):
                if c.branch(v.t == Val.none, "isnone"):
                    return None
                return c.concretise(c.narrow(v.t, ty[4:]))
            if ty == "val":
                return v
            return c.concretise(c.narrow(v.t, ty))
        return v

    # ------------------------------------------------------------------ calls
    def call(self, f, args, kwargs):
        from . import calls
        return calls.call(self, f, args, kwargs)

    def call_function(self, f, args, kwargs):
        from . import calls
        return calls.call_function(self, f, args, kwargs)

    # ------------------------------------------------------------------ statements
    def exec_block(self, stmts):
        for st in stmts:
            self.exec(st)

    def exec(self, st):
        m = getattr(self, "ex_" + type(st).__name__, None)
        if m is None:
            raise Unsupported(f"statement {type(st).__name__}")
        return m(st)

    def ex_Pass(self, st):
        pass

    def ex_Expr(self, st):
        if isinstance(st.value, ast.Constant):
            return
        self.ev(st.value)

    def ex_Return(self, st):
        raise _Return(self.ev(st.value) if st.value is not None else None)

    def ex_Break(self, st):
        raise _Break()

    def ex_Continue(self, st):
        raise _Continue()

    def ex_Assign(self, st):
        v = self.ev(st.value)
        for t in st.targets:
            self.assign(t, v)

    def ex_AnnAssign(self, st):
        if st.value is not None:
            self.assign(st.target, self.ev(st.value))

    def ex_AugAssign(self, st):
        t = st.target
        op = type(st.op).__name__
        if isinstance(t, ast.Name):
            cur = self.ev(ast.Name(id=t.id, ctx=ast.Load()))
            new = prims.binop(self, op, cur, self.ev(st.value), inplace=True)
            self.frames[-1].locals[t.id] = new
        elif isinstance(t, ast.Attribute):
            o = self.ev(t.value)
            cur = self.getattr(o, t.attr)
            new = prims.binop(self, op, cur, self.ev(st.value), inplace=True)
            self.setattr(o, t.attr, new)
        elif isinstance(t, ast.Subscript):
            o = self.ev(t.value)
            k = self.ev(t.slice)
            cur = prims.getitem(self, o, k)
            new = prims.binop(self, op, cur, self.ev(st.value), inplace=True)
            prims.setitem(self, o, k, new)
        else:
            raise Unsupported("augassign target")

    def assign(self, t, v):
        if isinstance(t, ast.Name):
            self.frames[-1].locals[t.id] = v
        elif isinstance(t, ast.Attribute):
            self.setattr(self.ev(t.value), t.attr, v)
        elif isinstance(t, ast.Subscript):
            o = self.ev(t.value)
            if isinstance(t.slice, ast.Slice):
                raise Unsupported("slice assignment")
            prims.setitem(self, o, self.ev(t.slice), v)
        elif isinstance(t, (ast.Tuple, ast.List)):
            items = prims.unpack(self, v, len(t.elts))
            for tt, x in zip(t.elts, items):
                self.assign(tt, x)
        else:
            raise Unsupported(f"assignment target {type(t).__name__}")

    def ex_Delete(self, st):
        for t in st.targets:
            if isinstance(t, ast.Subscript):
                prims.delitem(self, self.ev(t.value), self.ev(t.slice))
            elif isinstance(t, ast.Name):
                self.frames[-1].locals.pop(t.id, None)
            else:
                raise Unsupported("del target")

    def ex_If(self, st):
        if self.truth(self.ev(st.test), "if"):
            self.exec_block(st.body)
        else:
            self.exec_block(st.orelse)

    def ex_Raise(self, st):
        if st.exc is None:
            raise Unsupported("bare raise")
        v = self.ev(st.exc)
        if isinstance(v, type) and issubclass(v, BaseException):
            v = self.mk_exc(v)
        if not (isinstance(v, PObj) and issubclass(v.cls, BaseException)):
            raise Unsupported("raise of non-exception")
        raise PyRaise(v)

    def ex_Try(self, st):
        if st.finalbody:
            raise Unsupported("try/finally")
        try:
            self.exec_block(st.body)
        except PyRaise as pr:
            for h in st.handlers:
                if h.type is None:
                    match = True
                else:
                    tv = self.ev(h.type)
                    clss = tv if isinstance(tv, tuple) else (tv,)
                    match = any(isinstance(k, type) and issubclass(pr.exc.cls, k) for k in clss)
                if match:
                    if h.name:
                        self.frames[-1].locals[h.name] = pr.exc
                    self.exec_block(h.body)
                    return
            raise
        else:
            self.exec_block(st.orelse)

    def ex_Assert(self, st):
        if not self.truth(self.ev(st.test)):
            self.py_raise(AssertionError)

    def ex_For(self, st):
        from . import loops
        loops.for_loop(self, st)
        # optional merge point right after a loop (World.after_loop): the paths through the loop are joined at an invariant
        fr = self.frames[-1]
        mc = self.w.after_loop.get((fr.qual, fr.srcinfo.loop_ord.get(id(st))))
        if mc is not None:
            loops.merge_point(self, (fr.qual, fr.srcinfo.loop_ord[id(st)], "after"), mc)

    def ex_While(self, st):
        from . import loops
        loops.while_loop(self, st)

    def ex_Import(self, st):
        raise Unsupported("import inside function")

    def ex_Global(self, st):
        raise Unsupported("global")
