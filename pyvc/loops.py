"""Loops: exact unrolling over concrete iterables, invariant cuts over symbolic ones."""
import ast
import os
import z3
from . import smt, prims
from .smt import Val, I, B, S
from .values import *
from .core import *
from .interp import _Break, _Continue, _Return, assigned_names

MAX_UNROLL = 400


class NS:
    """locals as seen by a loop invariant: z3 terms for symbolic values, python values otherwise."""

    def __init__(self, ip, d):
        object.__setattr__(self, "_ip", ip)
        object.__setattr__(self, "_d", d)

    def __getattr__(self, name):
        d = object.__getattribute__(self, "_d")
        if name not in d:
            raise AttributeError(name)
        return spec_value(object.__getattribute__(self, "_ip"), d[name])

    def V(self, name):
        """the local as a Val-sorted term, whatever its engine representation"""
        ip = object.__getattribute__(self, "_ip")
        return ip.c.to_val(object.__getattribute__(self, "_d")[name])

    def has(self, name):
        return name in object.__getattribute__(self, "_d")

    def raw(self, name):
        return object.__getattribute__(self, "_d")[name]

    def loop_index(self, ordinal):
        """the (symbolic) iteration index of the enclosing cut loop with that ordinal, for invariants of nested loops"""
        ip = object.__getattribute__(self, "_ip")
        for lp in reversed(ip.c.loop_stack):
            if lp["key"][1] == ordinal and "k" in lp:
                return lp["k"]
        raise AttributeError(f"no enclosing cut loop {ordinal}")


class PObjView:
    def __init__(self, ip, o):
        self._ip, self._o = ip, o

    def __getattr__(self, name):
        return spec_value(self._ip, self._o.fields[name])


def spec_value(ip, v):
    if isinstance(v, Sym):
        return v.t
    if isinstance(v, PList) and not v.frozen:
        if v.ref is None:
            ip.c.promote(v)     # specs talk about heap lists; promotion only changes the representation
        return v.ref
    if isinstance(v, PObj):
        return PObjView(ip, v)
    return v


def havoc_like(ip, old, ty=None, name="v"):
    c = ip.c
    if ty is None:
        if isinstance(old, bool):
            ty = "bool"
        elif isinstance(old, int):
            ty = "int"
        elif isinstance(old, str):
            ty = "str"
        elif isinstance(old, Sym):
            ty = old.ty
            if old.t.sort() == Val and ty is None:
                ty = "val"
        elif old is None:
            ty = "val"
        elif isinstance(old, PList):
            if old.ref is None:
                c.task.learn_promote(old.serial)
                raise Restart(f"list {name} assigned in loop")
            ty = "list:" + old.elt
        else:
            raise Unsupported(f"cannot havoc loop variable {name} of {type(old).__name__}")
    if ty == "int":
        return Sym(c.fresh(name, I), "int")
    if ty == "bool":
        return Sym(c.fresh(name, B), "bool")
    if ty == "str":
        return Sym(c.fresh(name, S), "str")
    t = c.fresh(name, Val)
    return c.from_val(t, ty)


def type_claim(c, v, ty):
    """formula (or python bool) saying that engine value v has the static type ty that a loop contract declares for a local"""
    if ty is None or ty == "val":
        return True
    if v is None:
        return ty.startswith("opt:")
    base = ty[4:] if ty.startswith("opt:") else ty
    if isinstance(v, bool):
        return base == "bool"
    if isinstance(v, int):
        return base == "int"
    if isinstance(v, str):
        return base == "str"
    if isinstance(v, float):
        return base == "float"
    if isinstance(v, PList):
        return base.startswith("list")
    if isinstance(v, PDict):
        return base.startswith("dict")
    if isinstance(v, Sym):
        t = v.t
        if t.sort() == Val:
            return c.ty_fact(t, ty)
        if t.sort() == I and v.ty is not None and (v.ty == "Node" or v.ty.startswith("list") or v.ty.startswith("dict")):
            return c.ty_fact(Val.ref(t), ty)
        if t.sort() == I:
            return base == "int"
        if t.sort() == B:
            return base == "bool"
        if t.sort() == S:
            return base == "str"
    return True     # engine objects (PObj, bound methods, ...): not typed by loop contracts


def iter_kind(ip, it):
    """-> ('conc', python list of values) | ('list', ref, elt) | ('dict', ref, what, valty) | ('range', start, stop, step) | ('enum', inner)"""
    c = ip.c
    if isinstance(it, Sym) and it.t.sort() == Val:
        it = ip.resolve(it)
        if isinstance(it, Sym) and it.t.sort() == Val:
            it = ip.resolve_untyped(it)
    if it is None:
        ip.py_raise(TypeError, "'NoneType' object is not iterable")
    if isinstance(it, tuple):
        return ("conc", list(it))
    if isinstance(it, str):
        return ("conc", list(it))
    if isinstance(it, PList):
        if it.ref is None:
            return ("live", it)
        return ("list", it.ref, it.elt)
    if isinstance(it, PDict):
        return ("conc", list(it.d.keys()))
    if isinstance(it, Sym) and it.t.sort() == I:
        if it.ty.startswith("list"):
            return ("list", it.t, prims.elt_ty(it))
        if it.ty.startswith("dict"):
            return ("dict", it.t, "keys", prims.elt_ty(it))
    if isinstance(it, DictView):
        d = it.d
        if isinstance(d, PDict):
            if it.what == "keys":
                return ("conc", list(d.d.keys()))
            if it.what == "values":
                return ("conc", list(d.d.values()))
            return ("conc", [(k, v) for k, v in d.d.items()])
        return ("dict", d.t, it.what, prims.elt_ty(d))
    from .strings import SplitV
    if isinstance(it, SplitV):
        return ("list", it.as_list(ip), "str")
    if isinstance(it, RangeV):
        if all(isinstance(x, int) for x in (it.start, it.stop, it.step)):
            return ("conc", list(range(it.start, it.stop, it.step)))
        return ("range", it.start, it.stop, it.step)
    if isinstance(it, EnumerateV):
        inner = iter_kind(ip, it.it)
        if inner[0] == "conc":
            return ("conc", [(i, x) for i, x in enumerate(inner[1])])
        if inner[0] == "live":
            return ("conc", [(i, x) for i, x in enumerate(inner[1].items)])
        return ("enum", inner)
    raise Unsupported(f"iteration over {it!r}")


def for_loop(ip, st, key=None):
    if st.orelse:
        raise Unsupported("for/else")
    fr = ip.frames[-1]
    it = ip.ev(st.iter)
    ik = iter_kind(ip, it)
    if ik[0] in ("conc", "live"):
        i = 0
        mf = ip.w.merge_factories.get((fr.qual, fr.srcinfo.loop_ord.get(id(st)))) if key is None else None
        while True:
            items = ik[1] if ik[0] == "conc" else ik[1].items
            if ik[0] == "live" and items is None:
                raise Restart("list promoted during concrete iteration")  # cannot happen: promotion raises Restart earlier
            if i >= len(items):
                break
            ip.assign(st.target, items[i])
            if mf is not None:
                r = mf(ip, i)
                if r is not None:
                    merge_point(ip, (fr.qual, fr.srcinfo.loop_ord[id(st)], r[0]), r[1])
            i += 1
            if i > MAX_UNROLL:
                raise Unsupported("concrete loop too long")
            try:
                ip.exec_block(st.body)
            except _Break:
                break
            except _Continue:
                continue
        return
    if key is None:
        key = (fr.qual, fr.srcinfo.loop_ord[id(st)])
    assigned = assigned_names(st.body) | assigned_names([ast.Assign(targets=[st.target], value=ast.Constant(value=None))])
    c = ip.c
    dn0 = None
    if ik[0] == "dict":
        c.fact(c.sv().dict_wf(ik[1]))
        dn0 = c.heap.get("dn")[ik[1]]

    def element(kind_, k):
        if kind_[0] == "list":
            return c.from_val(c.heap.get("lelem")[kind_[1]][k], kind_[2])
        if kind_[0] == "dict":
            d = kind_[1]
            kv = c.from_val(c.heap.get("dkey")[d][k], "str")   # T-schema: dict keys are strings
            if kind_[2] == "keys":
                return kv
            vv = c.from_val(c.heap.get("dmap")[d][c.to_val(kv)], kind_[3])
            if kind_[2] == "values":
                return vv
            return (kv, vv)
        if kind_[0] == "range":
            start, stop, step = kind_[1:]
            if not isinstance(step, int):
                raise Unsupported("symbolic range step")
            return prims.mk_int(ip, prims.int_term(start) + k * step)
        if kind_[0] == "enum":
            return (prims.mk_int(ip, k), element(kind_[1], k))
        raise Unsupported(kind_[0])

    def length(kind_):
        if kind_[0] == "list":
            return c.heap.get("llen")[kind_[1]]
        if kind_[0] == "dict":
            return c.heap.get("dn")[kind_[1]]
        if kind_[0] == "range":
            start, stop, step = kind_[1:]
            a, b = prims.int_term(start), prims.int_term(stop)
            if step == 1:
                return z3.If(b > a, b - a, 0)
            if step == -1:
                return z3.If(a > b, a - b, 0)
            raise Unsupported("range step")
        if kind_[0] == "enum":
            return length(kind_[1])

    def guard(k):
        if ik[0] == "dict":
            # CPython: RuntimeError when the dict changed size during iteration
            if not c.branch(c.heap.get("dn")[ik[1]] == dn0, "dictsize"):
                ip.py_raise(RuntimeError, "dictionary changed size during iteration")
        return c.branch(k < length(ik), "for")

    _, lc_decl = ip.w.loop_contract(key, ip)

    def bind(k):
        el = element(ik, k)
        # an untyped list (built by the code itself): the contract may declare the element type of the loop target; it is proved, then used
        if (lc_decl is not None and isinstance(st.target, ast.Name) and st.target.id in lc_decl.var_types and ik[0] == "list"
                and ik[2] in ("val", None) and lc_decl.var_types[st.target.id] not in ("val", None)):
            ty = lc_decl.var_types[st.target.id]
            t = c.heap.get("lelem")[ik[1]][k]
            c.prove(f"{key[0]}/loop{key[1]}/element-type:{st.target.id}", c.ty_fact(t, ty), kind="loop-type")
            el = c.from_val(t, ty)
        ip.assign(st.target, el)

    cut_loop(ip, key, assigned, guard, bind, st.body, extra={"_iter": ik})


def merge_point(ip, key, mc):
    c = ip.c
    from .calls import _clauses
    name = f"{key[0]}/merge{key[1]}[{key[2]}]"

    def clauses():
        out = list(_clauses(mc.inv(SV(c.heap0), c.sv(), ip), "inv"))
        changed = [a for a in c.heap.cur if not z3.eq(c.heap.cur[a], c.heap0.get(a))]
        out.extend(c.task.auto_frame(c, changed))       # objects outside the function's modifies set are unchanged
        out.append(("top", c.heap.top >= c.heap0.top))
        return out

    for nm, f in clauses():
        c.prove(f"{name}/{nm}", f, kind="merge")
    prefix = tuple(c.log[: c.pos])
    owner = c.task.merge_owner.get(key)
    if owner is None:
        c.task.merge_owner[key] = prefix
    elif owner != prefix:
        raise PathEnd()
    c.epoch += 1
    mc.havoc(ip)
    c.reset_to_base()
    for nm, f in clauses():
        c.assume(f)


def while_loop(ip, st):
    if st.orelse:
        raise Unsupported("while/else")
    fr = ip.frames[-1]
    key = (fr.qual, fr.srcinfo.loop_ord[id(st)])
    key, lc = ip.w.loop_contract(key, ip)
    if lc is None or (lc is ip.w.default_loop and not getattr(ip.w, "cut_all_whiles", False)):
        n = 0
        while ip.truth(ip.ev(st.test), "while"):
            n += 1
            if n > MAX_UNROLL:
                raise Unsupported(f"while loop {key} needs an invariant")
            try:
                ip.exec_block(st.body)
            except _Break:
                break
            except _Continue:
                continue
        return
    assigned = assigned_names(st.body)

    def guard(k):
        return ip.truth(ip.ev(st.test), "while")

    cut_loop(ip, key, assigned, guard, lambda k: None, st.body, lc=lc)


def cut_loop(ip, key, assigned, guard, bind, body, extra=None, lc=None):
    c = ip.c
    fr = ip.frames[-1]
    if lc is None:
        key, lc = ip.w.loop_contract(key, ip)
    learned = c.task.learned.setdefault(key, {"arrays": set(), "fields": set()})
    if lc is not None:
        learned["arrays"].update(lc.arrays)
        for (vn, fld) in lc.fields:
            o = fr.locals.get(vn)
            if isinstance(o, PObj):
                learned["fields"].add((o.serial, fld))
    name = f"{key[0]}/loop{key[1]}" + (f"[{key[2]}]" if len(key) > 2 else "")

    ghost = {}

    def view(k):
        d = dict(fr.locals)
        d.update(ghost)
        d["_k"] = k if isinstance(k, int) else Sym(k, "int")
        if extra:
            d.update({kk: vv for kk, vv in extra.items() if not isinstance(vv, tuple)})
        return NS(ip, d)

    def inv_clauses(k):
        out = []
        if lc is not None and lc.inv is not None:
            # specs talk about heap lists: promote the frame's concrete lists first (promotion allocates, so it must precede the state view)
            for lv in list(fr.locals.values()):
                if isinstance(lv, PList) and not lv.frozen and lv.ref is None:
                    c.promote(lv)
            r = lc.inv(SV(c.heap0), c.sv(), view(k))
            if isinstance(r, dict):
                out.extend(r.items())
            elif isinstance(r, (list, tuple)):
                out.extend((f"c{i}", x) for i, x in enumerate(r))
            else:
                out.append(("inv", r))
        auto = c.task.auto_frame(c, learned["arrays"])
        out.extend(auto)
        return out

    if lc is not None and lc.stop is not None:
        for lv in list(fr.locals.values()):
            if isinstance(lv, PList) and not lv.frozen and lv.ref is None:
                c.promote(lv)
        from .calls import _clauses
        for nm, f in _clauses(lc.stop(SV(c.heap0), c.sv(), view(0)), "stop"):
            c.prove(f"{name}/reached-only-if/{nm}", f, kind="region-end")
        # up to here nothing allocated before the call has been written
        c.task.check_frame(c, SV(c.heap0), c.task.spec_args, f"{name}/reached-with", unchanged=lc.stop_unchanged)
        c.assumptions_used.add(f"NOT VERIFIED: {key[0]} from its loop {key[1]} on (the verified region ends there; see the bounded pass)")
        raise PathEnd()
    if lc is not None and lc.ghost:
        v0 = view(0)
        for gname, gf in lc.ghost.items():
            gv = gf(c.sv(), v0)
            ghost[gname] = Sym(gv, "ghost") if z3.is_expr(gv) else gv
    # 1. invariant holds on entry; so do the static types the contract declares for the locals it havocs
    for nm, f in inv_clauses(0):
        c.prove(f"{name}/init/{nm}", f, kind="loop-init")
    vt0 = lc.var_types if lc is not None else {}

    def inferred(old):
        # the type havoc_like() gives a local that has no declared type: that of its value at loop entry
        if isinstance(old, bool):
            return "bool"
        if isinstance(old, int):
            return "int"
        if isinstance(old, str):
            return "str"
        if isinstance(old, Sym):
            return old.ty
        if isinstance(old, PList):
            return "list"
        return None
    used_ty = {vn: (vt0[vn] if vn in vt0 else inferred(fr.locals.get(vn))) for vn in assigned}

    def prove_types(stage):
        if os.environ.get("PYVC_NO_TYPECHECK"):
            return
        for vn in sorted(assigned):
            if used_ty.get(vn) is not None and vn in fr.locals:
                tc = type_claim(c, fr.locals[vn], used_ty[vn])
                if tc is True:
                    continue
                c.prove(f"{name}/{stage}/type:{vn}", z3.BoolVal(False) if tc is False else tc, kind="loop-type")
    prove_types("init")
    # 2. havoc
    c.epoch += 1
    lp = {"key": key, "arrays": set(learned["arrays"]), "fields": set(learned["fields"]), "epoch": c.epoch}
    vt = lc.var_types if lc is not None else {}
    for nm in sorted(assigned):
        if nm in fr.locals:
            fr.locals[nm] = havoc_like(ip, fr.locals[nm], vt.get(nm), nm)
        elif nm in vt:
            fr.locals[nm] = havoc_like(ip, None, vt[nm], nm)
    for a in sorted(learned["arrays"]):
        if a == "top":
            nt = c.fresh("top", I)
            c.assume(nt >= c.heap.top)
            c.heap.top = nt
        else:
            c.heap.set(a, c.fresh("hv_" + a.replace(":", "_"), arr_sort(a)))
    for (serial, field) in sorted(learned["fields"]):
        o = c.pobjs.get(serial)
        if o is None:
            continue
        o.fields[field] = havoc_like(ip, o.fields.get(field), vt.get("self." + field), field)
    k = c.fresh("k", I)
    c.assume(k >= 0)
    lp["k"] = k
    for nm, f in inv_clauses(k):
        c.assume(f)
    if lc is not None and lc.axioms is not None:
        from .calls import _clauses
        for nm, f in _clauses(lc.axioms(SV(c.heap0), c.sv(), view(k)), "axiom"):
            if nm.startswith("prove:"):
                c.prove(f"{name}/lemma:{nm[6:]}", f, kind="lemma")
            else:
                c.assume(f)
    dec0 = None
    # 3. one arbitrary iteration, or exit
    c.loop_stack.append(lp)
    try:
        g = guard(k)
        if not g:
            c.loop_stack.pop()
            return
        if lc is not None and lc.decreases is not None:
            dec0 = lc.decreases(SV(c.heap0), c.sv(), view(k))
        bind(k)
        try:
            ip.exec_block(body)
        except _Continue:
            pass
        except _Break:
            c.loop_stack.pop()
            return
        # back edge
        for nm, f in inv_clauses(k + 1):
            c.prove(f"{name}/preserved/{nm}", f, kind="loop-step")
        prove_types("preserved")
        if dec0 is not None:
            dec1 = lc.decreases(SV(c.heap0), c.sv(), view(k + 1))
            c.prove(f"{name}/decreases", z3.And(dec0 >= 0, dec1 < dec0), kind="termination")
        c.loop_stack.pop()
        raise PathEnd()
    except (PyRaise, _Return):
        if c.loop_stack and c.loop_stack[-1] is lp:
            c.loop_stack.pop()
        raise


def comprehension(ip, node, elt, gens, mode="list"):
    """[elt for t in it if c] as a loop appending to a fresh list; any()/all() handled by the caller through mode."""
    if len(gens) != 1 or gens[0].is_async:
        raise Unsupported("nested comprehension")
    g = gens[0]
    fr = ip.frames[-1]
    key = (fr.qual, fr.srcinfo.loop_ord[id(node)])
    rname = f"__comp{key[1]}"
    saved = {n: fr.locals[n] for n in assigned_names([ast.Assign(targets=[g.target], value=ast.Constant(value=None))]) if n in fr.locals}
    if mode == "list":
        fr.locals[rname] = ip.new_list([])
        inner = ast.Expr(value=ast.Call(func=ast.Attribute(value=ast.Name(id=rname, ctx=ast.Load()), attr="append", ctx=ast.Load()),
                                        args=[elt], keywords=[]))
    elif mode == "any":
        fr.locals[rname] = False
        inner = ast.If(test=elt, body=[ast.Assign(targets=[ast.Name(id=rname, ctx=ast.Store())], value=ast.Constant(value=True)), ast.Break()], orelse=[])
    elif mode == "all":
        fr.locals[rname] = True
        inner = ast.If(test=ast.UnaryOp(op=ast.Not(), operand=elt),
                       body=[ast.Assign(targets=[ast.Name(id=rname, ctx=ast.Store())], value=ast.Constant(value=False)), ast.Break()], orelse=[])
    else:
        raise Unsupported(mode)
    body = inner
    for cond in reversed(g.ifs):
        body = ast.If(test=cond, body=[body], orelse=[])
    loop = ast.For(target=g.target, iter=g.iter, body=[body], orelse=[])
    ast.fix_missing_locations(loop)
    for_loop(ip, loop, key=key)
    r = fr.locals.pop(rname)
    for n in assigned_names([loop]):
        if n in saved:
            fr.locals[n] = saved[n]
        elif n != rname:
            fr.locals.pop(n, None)
    return r
