"""Primitive operations with their CPython failure outcomes."""
import z3
from . import smt
from .smt import Val, I, B, S, R, kind, KIND_NODE, KIND_LIST, KIND_DICT
from .values import *
from .core import *

# uninterpreted string helpers (assumption A-str; axioms are added by the contracts that need them)
STR_OF = z3.Function("py_str_of", Val, S)         # str(x) for non-str x
FMT = z3.Function("py_fmt", I, S)                  # result of an f-string with symbolic parts (opaque)


# ----------------------------------------------------------------------------- classification
def is_list(v):
    return isinstance(v, PList) or (isinstance(v, Sym) and v.t.sort() == I and v.ty.startswith("list"))


def is_dict(v):
    return isinstance(v, PDict) or (isinstance(v, Sym) and v.t.sort() == I and v.ty.startswith("dict"))


def is_strv(v):
    return isinstance(v, str) or (isinstance(v, Sym) and v.t.sort() == S)


def is_intv(v):
    return (isinstance(v, int) and not isinstance(v, bool)) or (isinstance(v, Sym) and v.t.sort() == I and v.ty == "int")


def is_boolv(v):
    return isinstance(v, bool) or (isinstance(v, Sym) and v.t.sort() == B)


def list_ref(ip, v):
    """heap reference of a list value (promoting a concrete list)."""
    if isinstance(v, PList):
        if v.ref is None:
            ip.c.promote(v)
        return v.ref
    return v.t


def elt_ty(v):
    if isinstance(v, PList):
        return v.elt
    parts = v.ty.split(":", 1)
    return parts[1] if len(parts) > 1 else "val"


def int_term(v):
    if isinstance(v, bool):
        return z3.IntVal(int(v))
    if isinstance(v, int):
        return z3.IntVal(v)
    return v.t


def str_term(v):
    if isinstance(v, str):
        return z3.StringVal(v)
    return v.t


def mk_int(ip, t):
    return ip.c.concretise(Sym(z3.simplify(t), "int"))


def mk_bool(ip, t):
    if isinstance(t, bool):
        return t
    return ip.c.concretise(Sym(z3.simplify(t), "bool"))


def as_int(ip, v, what="operand"):
    """value used where CPython needs an int; forks TypeError for Val-sorted values."""
    if is_intv(v) or isinstance(v, bool):
        return v
    if isinstance(v, Sym) and v.t.sort() == Val:
        if ip.c.branch(Val.is_intv(v.t), "isint"):
            return mk_int(ip, Val.i(v.t))
        ip.py_raise(TypeError, f"{what} must be int")
    if isinstance(v, Sym) and v.t.sort() == B:
        return mk_int(ip, z3.If(v.t, 1, 0))
    ip.py_raise(TypeError, f"{what} must be int, not {type(v).__name__}")


# ----------------------------------------------------------------------------- str
def to_str(ip, v, conv=-1):
    if isinstance(v, str):
        return v if conv != 114 else repr(v)
    if isinstance(v, Sym):
        if v.t.sort() == S and conv != 114:
            return v
        if v.t.sort() == Val:
            tv = v.t
            return Sym(z3.If(Val.is_strv(tv), Val.s(tv), STR_OF(tv)), "str")
        return Sym(STR_OF(ip.c.to_val(v)), "str")
    if v is None or isinstance(v, (bool, int, float)):
        return str(v) if conv != 114 else repr(v)
    if isinstance(v, PObj) and issubclass(v.cls, BaseException):
        a = v.fields.get("args", ())
        if len(a) == 1:
            return to_str(ip, a[0])
        if len(a) == 0:
            return ""
    if isinstance(v, tuple) and all(isinstance(x, (int, float, str, bool, type(None))) for x in v):
        return str(v)
    if isinstance(v, type):
        return str(v)
    if isinstance(v, PList) and v.ref is None and all(isinstance(x, (int, float, str, bool, type(None))) for x in v.items):
        return str(list(v.items))
    # anything else (lists of symbolic things, nodes ...): an opaque string
    return Sym(ip.c.fresh("s_repr", S), "str")


def str_concat(ip, parts):
    if all(isinstance(p, str) for p in parts):
        return "".join(parts)
    if ip.w.opaque_fstrings:
        return Sym(ip.c.fresh("s_fmt", S), "str")
    return Sym(z3.Concat(*[str_term(p) for p in parts]) if len(parts) > 1 else str_term(parts[0]), "str")


# ----------------------------------------------------------------------------- arithmetic / binop
def binop(ip, op, a, b, inplace=False):
    c = ip.c
    if isinstance(a, Sym):
        a = ip.resolve(a) if a.t.sort() == Val and (a.ty or "").startswith("opt:") else a
    if isinstance(b, Sym):
        b = ip.resolve(b) if b.t.sort() == Val and (b.ty or "").startswith("opt:") else b
    # list concatenation / in-place extension
    if op == "Add" and is_list(a):
        if not is_list(b):
            ip.py_raise(TypeError, "can only concatenate list to list")
        if inplace:
            list_extend(ip, a, b)
            return a
        r = list_copy(ip, a)
        list_extend(ip, r, b)
        return r
    conc = lambda x: x is None or isinstance(x, (bool, int, float, str, tuple))
    if conc(a) and conc(b):
        try:
            if op == "Add":
                return a + b
            if op == "Sub":
                return a - b
            if op == "Mult":
                return a * b
            if op == "Mod":
                return a % b
            if op == "FloorDiv":
                return a // b
            if op == "Div":
                return a / b
        except TypeError as ex:
            ip.py_raise(TypeError, str(ex))
        except ZeroDivisionError as ex:
            ip.py_raise(ZeroDivisionError, str(ex))
        raise Unsupported(f"binop {op}")
    if op == "Add" and (is_strv(a) or is_strv(b)):
        if is_strv(a) and is_strv(b):
            return Sym(z3.Concat(str_term(a), str_term(b)), "str")
        other = b if is_strv(a) else a
        if isinstance(other, Sym) and other.t.sort() == Val:
            if c.branch(Val.is_strv(other.t), "isstr"):
                o2 = Sym(Val.s(other.t), "str")
                return binop(ip, op, a if is_strv(a) else o2, o2 if is_strv(a) else b)
        ip.py_raise(TypeError, "can only concatenate str to str")
    if op in ("Add", "Sub", "Mult") and (is_intv(a) or is_boolv(a) or (isinstance(a, Sym) and a.t.sort() == Val)) and \
            (is_intv(b) or is_boolv(b) or (isinstance(b, Sym) and b.t.sort() == Val)):
        a2, b2 = as_int(ip, a), as_int(ip, b)
        x, y = int_term(a2), int_term(b2)
        if op == "Add":
            return mk_int(ip, x + y)
        if op == "Sub":
            return mk_int(ip, x - y)
        if isinstance(a2, int) or isinstance(b2, int):
            return mk_int(ip, x * y)
        raise Unsupported("nonlinear multiplication")
    if op == "Mult" and isinstance(a, str) and is_intv(b):
        return Sym(ip.c.fresh("s_rep", S), "str")
    if a is None or b is None:
        ip.py_raise(TypeError, f"unsupported operand type(s) for {op}: NoneType")
    from . import floats
    r = floats.binop(ip, op, a, b)
    if r is not NotImplemented:
        return r
    raise Unsupported(f"binop {op} on {a!r}, {b!r}")


# ----------------------------------------------------------------------------- comparison
def py_eq(ip, a, b):
    """python ==  -> bool or z3 Bool"""
    c = ip.c
    # optional containers must be told apart from None before a structural comparison; optional scalars compare as Vals
    if isinstance(a, Sym) and a.t.sort() == Val and (a.ty or "").startswith(("opt:dict", "opt:list")):
        a = ip.resolve(a)
    if isinstance(b, Sym) and b.t.sort() == Val and (b.ty or "").startswith(("opt:dict", "opt:list")):
        b = ip.resolve(b)
    if not isinstance(a, Sym) and not isinstance(b, Sym):
        if isinstance(a, PList) or isinstance(b, PList):
            if not (isinstance(a, PList) and isinstance(b, PList)):
                return False
            if a is b:
                return True
            if a.ref is None and b.ref is None:
                if len(a.items) != len(b.items):
                    return False
                return smt.conj([_b(py_eq(ip, x, y)) for x, y in zip(a.items, b.items)]) if a.items else True
            return list_eq(ip, list_ref(ip, a), list_ref(ip, b))
        if isinstance(a, (PDict, PObj)) or isinstance(b, (PDict, PObj)):
            if isinstance(a, PDict) and isinstance(b, PDict):
                if a is b:
                    return True
                if set(a.d) != set(b.d):
                    return False
                return smt.conj([_b(py_eq(ip, a.d[k], b.d[k])) for k in a.d]) if a.d else True
            return a is b
        if isinstance(a, tuple) and isinstance(b, tuple):
            if len(a) != len(b):
                return False
            return z3.simplify(smt.conj([_b(py_eq(ip, x, y)) for x, y in zip(a, b)])) if a else True
        try:
            return bool(a == b)
        except Exception:
            raise Unsupported("== on python objects")
    # dict content equality
    if is_dict(a) and is_dict(b):
        da = a.t if isinstance(a, Sym) else c.promote_dict(a).t
        db = b.t if isinstance(b, Sym) else c.promote_dict(b).t
        return c.heap.get("dmap")[da] == c.heap.get("dmap")[db]
    if is_list(a) and is_list(b):
        return list_eq(ip, list_ref(ip, a), list_ref(ip, b))
    if (is_dict(a) or is_list(a)) and isinstance(b, Sym) and b.t.sort() == Val or \
            (is_dict(b) or is_list(b)) and isinstance(a, Sym) and a.t.sort() == Val:
        raise Unsupported("== between a container and an untyped value")
    sa = a.t.sort() if isinstance(a, Sym) else None
    sb = b.t.sort() if isinstance(b, Sym) else None
    # same native sort: compare natively
    if sa is not None and sa == sb and sa != Val:
        if sa == I and a.ty != b.ty and ("int" in (a.ty, b.ty)):
            return False
        return a.t == b.t
    if sa == S and isinstance(b, str):
        return a.t == z3.StringVal(b)
    if sb == S and isinstance(a, str):
        return b.t == z3.StringVal(a)
    if sa == I and a.ty == "int" and isinstance(b, int) and not isinstance(b, bool):
        return a.t == b
    if sb == I and b.ty == "int" and isinstance(a, int) and not isinstance(a, bool):
        return b.t == a
    if isinstance(a, tuple) or isinstance(b, tuple):
        # tuples are compared structurally only when both concrete; a tuple never equals a non-tuple
        other = b if isinstance(a, tuple) else a
        if isinstance(other, Sym) and other.t.sort() == Val:
            if (other.ty or "val") in ("val", "tuple"):
                raise Unsupported("== between tuple and untyped symbolic value")
        return False
    return c.to_val(a) == c.to_val(b)


def _b(x):
    return z3.BoolVal(x) if isinstance(x, bool) else x


def list_eq(ip, la, lb):
    c = ip.c
    if z3.eq(la, lb):
        return True
    n = c.heap.get("llen")
    e = c.heap.get("lelem")
    j = z3.Int("leq_j")
    return z3.And(n[la] == n[lb], smt.FA([j], z3.Implies(z3.And(0 <= j, j < n[la]), e[la][j] == e[lb][j])))


def compare(ip, op, a, b):
    c = ip.c
    if op in ("Is", "IsNot"):
        r = py_is(ip, a, b)
        return mk_bool(ip, r if op == "Is" else _not(r))
    if op in ("Eq", "NotEq"):
        r = py_eq(ip, a, b)
        return mk_bool(ip, r if op == "Eq" else _not(r))
    if op in ("In", "NotIn"):
        r = contains(ip, b, a)
        return mk_bool(ip, r if op == "In" else _not(r))
    # ordering
    if isinstance(a, Sym) and a.t.sort() == Val:
        a = ip.resolve(a)
    if isinstance(b, Sym) and b.t.sort() == Val:
        b = ip.resolve(b)
    from . import floats
    r = floats.compare(ip, op, a, b)
    if r is not NotImplemented:
        return mk_bool(ip, r)
    if (is_intv(a) or isinstance(a, bool)) and (is_intv(b) or isinstance(b, bool)):
        x, y = int_term(a), int_term(b)
        if isinstance(a, int) and isinstance(b, int):
            x, y = a, b
        r = {"Lt": lambda: x < y, "LtE": lambda: x <= y, "Gt": lambda: x > y, "GtE": lambda: x >= y}[op]()
        return mk_bool(ip, r)
    if isinstance(a, (int, float, str)) and isinstance(b, (int, float, str)):
        try:
            return {"Lt": a < b, "LtE": a <= b, "Gt": a > b, "GtE": a >= b}[op]
        except TypeError as ex:
            ip.py_raise(TypeError, str(ex))
    if a is None or b is None:
        ip.py_raise(TypeError, f"'{op}' not supported between instances involving NoneType")
    if (isinstance(a, Sym) and a.t.sort() == Val) or (isinstance(b, Sym) and b.t.sort() == Val):
        a2, b2 = as_int(ip, a), as_int(ip, b)
        return compare(ip, op, a2, b2)
    raise Unsupported(f"ordering {op} on {a!r},{b!r}")


def _not(r):
    if isinstance(r, bool):
        return not r
    return z3.Not(r)


def py_is(ip, a, b):
    c = ip.c
    if not isinstance(a, Sym) and not isinstance(b, Sym):
        if isinstance(a, PList) and isinstance(b, PList) and (a.ref is not None or b.ref is not None):
            return list_ref(ip, a) == list_ref(ip, b)
        if a is None or b is None or isinstance(a, (bool, PList, PDict, PObj, type)) or isinstance(b, (bool, PList, PDict, PObj, type)):
            return a is b
        if isinstance(a, (int, str)) and isinstance(b, (int, str)):
            # identity of equal immutable scalars is implementation defined; the code only uses `is` with None/types
            if type(a) is not type(b) or a != b:
                return False
            raise Unsupported("`is` between equal scalars")
        return a is b
    if a is None:
        a, b = b, a
    if b is None:
        if a.t.sort() == Val:
            return a.t == Val.none
        return False
    return c.to_val(a) == c.to_val(b)


def contains(ip, cont, x):
    """x in cont"""
    c = ip.c
    if isinstance(cont, Sym) and cont.t.sort() == Val:
        cont = ip.resolve(cont)
    if cont is None:
        ip.py_raise(TypeError, "argument of type 'NoneType' is not iterable")
    if isinstance(cont, (tuple,)) or (isinstance(cont, PList) and cont.ref is None):
        items = cont if isinstance(cont, tuple) else cont.items
        return z3.simplify(smt.disj([_b(py_eq(ip, x, y)) for y in items])) if items else False
    if isinstance(cont, PDict):
        if not isinstance(x, Sym):
            try:
                return x in cont.d
            except TypeError:
                ip.py_raise(TypeError, "unhashable")
        return z3.simplify(smt.disj([_b(py_eq(ip, x, k)) for k in cont.d])) if cont.d else False
    if is_dict(cont):
        return c.heap.get("dmap")[cont.t][c.to_val(x)] != smt.absent
    if is_list(cont):
        found, p = list_find(ip, list_ref(ip, cont), x)
        return found
    if is_strv(cont):
        if not is_strv(x):
            if isinstance(x, Sym) and x.t.sort() == Val:
                x = ip.resolve(x)
            if not is_strv(x):
                ip.py_raise(TypeError, "'in <string>' requires string as left operand")
        if isinstance(cont, str) and isinstance(x, str):
            return x in cont
        return z3.Contains(str_term(cont), str_term(x))
    if isinstance(cont, DictView):
        if cont.what == "keys":
            return contains(ip, cont.d, x)
    raise Unsupported(f"`in` on {cont!r}")


def list_find(ip, l, x):
    """first index of x in heap list l: returns (found: Bool term, p: Int term) with defining axioms assumed."""
    c = ip.c
    n = c.heap.get("llen")[l]
    e = c.heap.get("lelem")[l]
    xv = c.to_val(x)
    found = c.fresh("found", B)
    p = c.fresh("pos", I)
    j = z3.Int("lf_j")
    # name the element array and the length by ground terms: frame axioms (triggered on lelem[l] / llen[l]) can only fire on terms that occur
    # outside quantifier bodies
    ec = c.fresh("lf_elems", smt.ElemArr)
    c.assume(z3.And(ec == e, n >= 0))
    c.assume(z3.Implies(found, z3.And(0 <= p, p < n, e[p] == xv,
                                      smt.FA([j], z3.Implies(z3.And(0 <= j, j < p), e[j] != xv)))))
    c.assume(z3.Implies(z3.Not(found), smt.FA([j], z3.Implies(z3.And(0 <= j, j < n), e[j] != xv))))
    return found, p


# ----------------------------------------------------------------------------- subscripts
def norm_index(ip, n_term, k, what="list"):
    """python index normalisation with IndexError; n_term: length (int or z3), k: int value. returns z3/int index"""
    c = ip.c
    k = as_int(ip, k, "index")
    if isinstance(k, int) and isinstance(n_term, int):
        if k < -n_term or k >= n_term:
            ip.py_raise(IndexError, f"{what} index out of range")
        return k % n_term if k < 0 else k
    kt = int_term(k)
    if isinstance(k, int):
        idx = kt if k >= 0 else n_term + k
    else:
        idx = z3.If(kt < 0, n_term + kt, kt)
    idx = z3.simplify(idx)
    if not c.branch(z3.And(idx >= 0, idx < n_term), "inbounds"):
        ip.py_raise(IndexError, f"{what} index out of range")
    return idx


def getitem(ip, o, k):
    c = ip.c
    if isinstance(o, Sym) and o.t.sort() == Val:
        o = ip.resolve(o)
        if isinstance(o, Sym) and o.t.sort() == Val:       # statically untyped (e.g. a value taken out of a JSON-like dict): fork over its run-time class
            o = ip.resolve_untyped(o)
    if isinstance(k, Sym):
        k = c.concretise(k)
    if o is None:
        ip.py_raise(TypeError, "'NoneType' object is not subscriptable")
    if isinstance(o, tuple) or (isinstance(o, PList) and o.ref is None) or isinstance(o, str):
        items = o if not isinstance(o, PList) else o.items
        if isinstance(k, Sym):
            if isinstance(o, PList):
                c.promote(o)
                return getitem(ip, o, k)
            raise Unsupported("symbolic index into tuple/str")
        if isinstance(k, bool) or not isinstance(k, int):
            ip.py_raise(TypeError, "indices must be integers")
        try:
            return items[k]
        except IndexError:
            ip.py_raise(IndexError, "index out of range")
    if is_list(o):
        l = list_ref(ip, o)
        idx = norm_index(ip, c.heap.get("llen")[l], k)
        return c.from_val(c.heap.get("lelem")[l][idx], elt_ty(o))
    if isinstance(o, PDict):
        if not isinstance(k, Sym):
            try:
                if k in o.d:
                    return o.d[k]
            except TypeError:
                ip.py_raise(TypeError, "unhashable key")
            ip.py_raise(KeyError, k)
        for kk, vv in o.d.items():
            if c.branch(_b(py_eq(ip, k, kk)), "dictkey"):
                return vv
        ip.py_raise(KeyError, "symbolic key")
    if is_dict(o):
        kv = c.to_val(k)
        cell = c.heap.get("dmap")[o.t][kv]
        if not c.branch(cell != smt.absent, "haskey"):
            ip.py_raise(KeyError, "key")
        return c.from_val(cell, elt_ty(o))
    if isinstance(o, Sym) and o.t.sort() == Val and (o.ty == "tuple"):
        if isinstance(k, int):
            return c.from_val(smt.TITEM(Val.tid(o.t), k), "val")
    raise Unsupported(f"subscript of {o!r}")


def getslice(ip, o, lo, hi):
    if isinstance(o, PList) and o.ref is None and not isinstance(lo, Sym) and not isinstance(hi, Sym):
        return ip.new_list(o.items[lo:hi])
    if isinstance(o, (tuple, str)) and not isinstance(lo, Sym) and not isinstance(hi, Sym):
        return o[lo:hi]
    from . import strings
    r = strings.getslice(ip, o, lo, hi)
    if r is not NotImplemented:
        return r
    raise Unsupported("slice of symbolic sequence")


def setitem(ip, o, k, v):
    c = ip.c
    if isinstance(o, Sym) and o.t.sort() == Val:
        o = ip.resolve(o)
    if isinstance(k, Sym):
        k = c.concretise(k)
    if isinstance(o, PList) and o.ref is None and not isinstance(k, Sym):
        if o.frozen:
            raise Unsupported("mutation of module table data")
        c.note_plist_write(o)
        try:
            o.items[k] = v
        except IndexError:
            ip.py_raise(IndexError, "list assignment index out of range")
        return
    if is_list(o):
        l = list_ref(ip, o)
        idx = norm_index(ip, c.heap.get("llen")[l], k)
        le = c.heap.get("lelem")
        c.write_array("lelem", z3.Store(le, l, z3.Store(le[l], idx, c.to_val(v))))
        return
    if isinstance(o, PDict):
        if o.frozen:
            raise Unsupported("mutation of module table data")
        if isinstance(k, Sym):
            raise Unsupported("symbolic key stored into concrete dict")
        o.d[k] = v
        return
    if is_dict(o):
        dict_setitem(ip, o, k, v)
        return
    if o is None:
        ip.py_raise(TypeError, "'NoneType' object does not support item assignment")
    raise Unsupported(f"item store on {o!r}")


def dict_setitem(ip, o, k, v):
    c = ip.c
    d = o.t
    kv, vv = c.to_val(k), c.to_val(v)
    dm, dn, dk, dp = c.heap.get("dmap"), c.heap.get("dn"), c.heap.get("dkey"), c.heap.get("dpos")
    present = dm[d][kv] != smt.absent
    n = dn[d]
    c.write_array("dmap", z3.Store(dm, d, z3.Store(dm[d], kv, vv)))
    c.write_array("dn", z3.Store(dn, d, z3.If(present, n, n + 1)))
    c.write_array("dkey", z3.Store(dk, d, z3.If(present, dk[d], z3.Store(dk[d], n, kv))))
    c.write_array("dpos", z3.Store(dp, d, z3.If(present, dp[d], z3.Store(dp[d], kv, n))))


def delitem(ip, o, k):
    c = ip.c
    if isinstance(o, Sym) and o.t.sort() == Val:
        o = ip.resolve(o)
    if is_dict(o) and isinstance(o, Sym):
        d = o.t
        kv = c.to_val(k)
        dm, dn, dk, dp = c.heap.get("dmap"), c.heap.get("dn"), c.heap.get("dkey"), c.heap.get("dpos")
        if not c.branch(dm[d][kv] != smt.absent, "haskey"):
            ip.py_raise(KeyError, "key")
        c.fact(c.sv().dict_wf(d))
        p = dp[d][kv]
        okd, opd = dk[d], dp[d]
        c.write_array("dmap", z3.Store(dm, d, z3.Store(dm[d], kv, smt.absent)))
        c.write_array("dn", z3.Store(dn, d, dn[d] - 1))
        c.write_array("dkey", z3.Store(dk, d, c.def_array("delk", I, lambda i: z3.If(i < p, okd[i], okd[i + 1]))))
        c.write_array("dpos", z3.Store(dp, d, c.def_array("delp", Val, lambda kk: z3.If(opd[kk] > p, opd[kk] - 1, opd[kk]))))
        return
    if isinstance(o, PDict):
        if o.frozen:
            raise Unsupported("mutation of module table data")
        if isinstance(k, Sym):
            raise Unsupported("symbolic key deleted from concrete dict")
        if k not in o.d:
            ip.py_raise(KeyError, k)
        del o.d[k]
        return
    raise Unsupported(f"del item on {o!r}")


def unpack(ip, v, n):
    if isinstance(v, tuple):
        if len(v) != n:
            ip.py_raise(ValueError, "unpack")
        return list(v)
    if isinstance(v, PList) and v.ref is None:
        if len(v.items) != n:
            ip.py_raise(ValueError, "unpack")
        return list(v.items)
    raise Unsupported("unpacking a symbolic sequence")


# ----------------------------------------------------------------------------- list operations
def list_len(ip, o):
    if isinstance(o, PList) and o.ref is None:
        return len(o.items)
    return mk_int(ip, ip.c.heap.get("llen")[list_ref(ip, o)])


def list_append(ip, o, v):
    c = ip.c
    if isinstance(o, PList) and o.ref is None:
        if o.frozen:
            raise Unsupported("mutation of module table data")
        c.note_plist_write(o)
        o.items.append(v)
        return
    l = list_ref(ip, o)
    n, e = c.heap.get("llen"), c.heap.get("lelem")
    c.write_array("lelem", z3.Store(e, l, z3.Store(e[l], n[l], c.to_val(v))))
    c.write_array("llen", z3.Store(n, l, n[l] + 1))


def list_insert(ip, o, i, v):
    c = ip.c
    i = as_int(ip, i, "index")
    if isinstance(o, PList) and o.ref is None and isinstance(i, int):
        if o.frozen:
            raise Unsupported("mutation of module table data")
        c.note_plist_write(o)
        o.items.insert(i, v)
        return
    l = list_ref(ip, o)
    n, e = c.heap.get("llen"), c.heap.get("lelem")
    it = int_term(i)
    ln = n[l]
    idx = z3.If(it < 0, z3.If(it + ln < 0, 0, it + ln), z3.If(it > ln, ln, it))
    idx = z3.simplify(idx)
    old = e[l]
    vv = c.to_val(v)
    c.write_array("lelem", z3.Store(e, l, c.def_array("ins", I, lambda j: z3.If(j < idx, old[j], z3.If(j == idx, vv, old[j - 1])))))
    c.write_array("llen", z3.Store(n, l, ln + 1))


def list_remove_at(ip, l, p):
    c = ip.c
    n, e = c.heap.get("llen"), c.heap.get("lelem")
    old = e[l]
    c.write_array("lelem", z3.Store(e, l, c.def_array("rm", I, lambda j: z3.If(j < p, old[j], old[j + 1]))))
    c.write_array("llen", z3.Store(n, l, n[l] - 1))


def list_remove(ip, o, v):
    c = ip.c
    if isinstance(o, PList) and o.ref is None and not isinstance(v, Sym) and all(not isinstance(x, Sym) for x in o.items):
        if o.frozen:
            raise Unsupported("mutation of module table data")
        c.note_plist_write(o)
        for idx, x in enumerate(o.items):
            if py_eq(ip, x, v) is True:
                del o.items[idx]
                return
        ip.py_raise(ValueError, "list.remove(x): x not in list")
    l = list_ref(ip, o)
    found, p = list_find(ip, l, v)
    if not c.branch(found, "found"):
        ip.py_raise(ValueError, "list.remove(x): x not in list")
    list_remove_at(ip, l, p)


def list_index(ip, o, v):
    c = ip.c
    if isinstance(o, PList) and o.ref is None:
        # concrete list, possibly symbolic needle: first match
        for idx, x in enumerate(o.items):
            if c.branch(_b(py_eq(ip, x, v)), "idx"):
                return idx
        ip.py_raise(ValueError, "x is not in list")
    l = list_ref(ip, o)
    found, p = list_find(ip, l, v)
    if not c.branch(found, "found"):
        ip.py_raise(ValueError, "x is not in list")
    return mk_int(ip, p)


def list_copy(ip, o):
    c = ip.c
    if isinstance(o, PList) and o.ref is None:
        return ip.new_list(list(o.items))
    l = list_ref(ip, o)
    r = c.alloc(KIND_LIST)
    n, e = c.heap.get("llen"), c.heap.get("lelem")
    c.write_array("llen", z3.Store(n, r, n[l]))
    c.write_array("lelem", z3.Store(e, r, e[l]))
    return Sym(r, "list:" + elt_ty(o))


def list_extend(ip, a, b):
    c = ip.c
    if isinstance(b, tuple):
        b = ip.new_list(list(b))
    if isinstance(b, Sym) and b.t.sort() == Val:
        b = ip.resolve_untyped(b) if (b.ty or "val") == "val" else ip.resolve(b)
        if b is None:
            ip.py_raise(TypeError, "'NoneType' object is not iterable")
    if isinstance(a, PList) and a.ref is None and isinstance(b, PList) and b.ref is None:
        if a.frozen:
            raise Unsupported("mutation of module table data")
        c.note_plist_write(a)
        a.items.extend(b.items)
        return
    if not is_list(b):
        raise Unsupported("extend with non-list")
    la, lb = list_ref(ip, a), list_ref(ip, b)
    n, e = c.heap.get("llen"), c.heap.get("lelem")
    ea, eb, na = e[la], e[lb], n[la]
    c.write_array("lelem", z3.Store(e, la, c.def_array("ext", I, lambda j: z3.If(j < na, ea[j], eb[j - na]))))
    c.write_array("llen", z3.Store(n, la, na + n[lb]))


def new_heap_list(ip, elt="val"):
    c = ip.c
    r = c.alloc(KIND_LIST)
    c.write_array("llen", z3.Store(c.heap.get("llen"), r, 0))
    return Sym(r, "list:" + elt)


def new_heap_dict(ip, valty="val"):
    c = ip.c
    r = c.alloc(KIND_DICT)
    c.write_array("dn", z3.Store(c.heap.get("dn"), r, 0))
    c.write_array("dmap", z3.Store(c.heap.get("dmap"), r, z3.K(Val, smt.absent)))
    return Sym(r, "dict:" + valty)


def dict_copy(ip, o):
    """fresh dict with the same contents and order (copy.deepcopy of a str->str dict, dict.copy())."""
    c = ip.c
    if isinstance(o, PDict):
        return ip.new_dict(dict(o.d))
    d = o.t
    r = c.alloc(KIND_DICT)
    for a in ("dn", "dmap", "dkey", "dpos"):
        arr = c.heap.get(a)
        c.write_array(a, z3.Store(arr, r, arr[d]))
    return Sym(r, o.ty)


def dict_merge(ip, parts):
    """{**a, **b}: keys of a then the new keys of b; only the mapping and the size bounds are modelled."""
    c = ip.c
    if all(isinstance(p, PDict) for p in parts):
        d = {}
        for p in parts:
            d.update(p.d)
        return ip.new_dict(d)
    if len(parts) != 2:
        raise Unsupported("dict merge of != 2 parts")
    a, b = [p if isinstance(p, Sym) else c.promote_dict(p) for p in parts]
    r = c.alloc(KIND_DICT)
    dm, dn, dk, dp = c.heap.get("dmap"), c.heap.get("dn"), c.heap.get("dkey"), c.heap.get("dpos")
    mb, ma = dm[b.t], dm[a.t]
    c.write_array("dmap", z3.Store(dm, r, c.def_array("mg", Val, lambda k: z3.If(mb[k] != smt.absent, mb[k], ma[k]))))
    n = c.fresh("mg_n", I)
    c.assume(z3.And(n >= dn[a.t], n >= dn[b.t], n <= dn[a.t] + dn[b.t]))
    c.write_array("dn", z3.Store(dn, r, n))
    c.write_array("dkey", z3.Store(dk, r, c.fresh("mg_keys", smt.ElemArr)))
    c.write_array("dpos", z3.Store(dp, r, c.fresh("mg_pos", smt.PosArr)))
    res = Sym(r, a.ty)
    c.assume(c.sv().dict_wf(r))
    return res
