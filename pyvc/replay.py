"""Counter-model -> concrete inputs (JSON-able descriptions of node trees) for native replay."""
import z3
from .smt import Val, I, B, S
from . import smt


def _ev(model, t):
    return model.eval(t, model_completion=True)


def val_to_py(model, heap, v, depth=0):
    v = _ev(model, v)
    try:
        d = v.decl()
    except Exception:
        return str(v)
    if d.eq(Val.none) or d.eq(Val.absent):
        return None
    if d.eq(Val.strv):
        return _ev(model, v.arg(0)).as_string()
    if d.eq(Val.intv):
        return _ev(model, v.arg(0)).as_long()
    if d.eq(Val.boolv):
        return z3.is_true(_ev(model, v.arg(0)))
    if d.eq(Val.ref):
        return {"$ref": _ev(model, v.arg(0)).as_long()}
    return str(v)


def dict_to_py(model, heap, d, limit=6):
    n = _ev(model, heap.get("dn")[d])
    n = n.as_long() if z3.is_int_value(n) else 0
    out = {}
    for j in range(max(0, min(n, limit))):
        k = _ev(model, heap.get("dkey")[d][j])
        kv = val_to_py(model, heap, k)
        vv = val_to_py(model, heap, heap.get("dmap")[d][k])
        if isinstance(kv, str):
            out[kv] = vv
    return out


def node_to_py(model, heap, n, depth=0, seen=None, max_depth=4, max_kids=5):
    """JSON description (props.native.describe format) of the node at reference n in the given heap under the model"""
    seen = seen if seen is not None else set()
    nv = _ev(model, n)
    key = nv.as_long() if z3.is_int_value(nv) else str(nv)
    d = {"$addr": key}
    if key in seen or depth > max_depth:
        d["$cut"] = True
        return d
    seen = seen | {key}
    F = lambda f: heap.get("F:" + f)[nv]
    d["name"] = val_to_py(model, heap, F("_name"))
    for f in ("content", "tail", "prefix"):
        x = val_to_py(model, heap, F("_" + f))
        if x is not None:
            d[f] = x
    for f in ("attributes", "nsmap", "extras"):
        r = _ev(model, Val.r(F("_" + f)))
        x = dict_to_py(model, heap, r)
        if x:
            d[f] = x
    l = _ev(model, Val.r(F("_children")))
    ln = _ev(model, heap.get("llen")[l])
    ln = ln.as_long() if z3.is_int_value(ln) else 0
    kids = []
    for i in range(max(0, min(ln, max_kids))):
        c = _ev(model, Val.r(heap.get("lelem")[l][i]))
        kids.append(node_to_py(model, heap, c, depth + 1, seen, max_depth, max_kids))
    if kids:
        d["children"] = kids
    return d


def build_node(desc, Node, memo=None):
    """real Node tree from a description (shared $addr -> shared object)"""
    memo = memo if memo is not None else {}
    a = desc.get("$addr")
    if a in memo:
        return memo[a]
    n = Node(desc.get("name") if isinstance(desc.get("name"), str) else "n", content=desc.get("content"))
    memo[a] = n
    n.tail = desc.get("tail")
    n.prefix = desc.get("prefix")
    for k, v in (desc.get("attributes") or {}).items():
        n.add_attribute(k, v)
    for k, v in (desc.get("extras") or {}).items():
        n.add_extras(k, v)
    n.nsmap = dict(desc.get("nsmap") or {})
    for ch in desc.get("children", []):
        if ch.get("$cut"):
            continue
        c = build_node(ch, Node, memo)
        n.children.append(c)
        c.parent = n
    return n
