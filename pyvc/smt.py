"""SMT vocabulary shared by the executor and the sidecar contracts.

One non-recursive datatype `Val` for Python values, integer references into a Burstall-Bornat heap
(one z3 array per field), lists as length + element array, dicts as insertion-ordered key array +
key->value array + key->position array.
"""
import z3

_V = z3.Datatype("Val")
_V.declare("none")
_V.declare("absent")                      # "no such key" marker inside dict value arrays
_V.declare("boolv", ("b", z3.BoolSort()))
_V.declare("intv", ("i", z3.IntSort()))
_V.declare("strv", ("s", z3.StringSort()))
_V.declare("ref", ("r", z3.IntSort()))     # heap reference (Node / list / dict)
_V.declare("fltv", ("fk", z3.IntSort()), ("fx", z3.RealSort()))  # fk: 0 finite, 1 nan, 2 +inf, 3 -inf
_V.declare("tupv", ("tid", z3.IntSort()))  # immutable tuple value, items via TITEM/TLEN
_V.declare("objv", ("oid", z3.IntSort()))  # opaque concrete python object (enum member, class, ...)
Val = _V.create()

I = z3.IntSort()
B = z3.BoolSort()
S = z3.StringSort()
R = z3.RealSort()

FieldArr = z3.ArraySort(I, Val)
IntArr = z3.ArraySort(I, I)
ElemArr = z3.ArraySort(I, Val)
LElemArr = z3.ArraySort(I, ElemArr)
MapArr = z3.ArraySort(Val, Val)
DMapArr = z3.ArraySort(I, MapArr)
PosArr = z3.ArraySort(Val, I)
DPosArr = z3.ArraySort(I, PosArr)

KIND_NODE, KIND_LIST, KIND_DICT, KIND_OTHER = 1, 2, 3, 4
kind = z3.Function("kind", I, I)             # immutable run-time class tag of a reference
TLEN = z3.Function("tlen", I, I)
TITEM = z3.Function("titem", I, I, Val)

none = Val.none
absent = Val.absent


def is_val(t):
    return z3.is_expr(t) and t.sort() == Val


def sort_name(t):
    s = t.sort()
    if s == Val:
        return "Val"
    if s == I:
        return "Int"
    if s == B:
        return "Bool"
    if s == S:
        return "String"
    if s == R:
        return "Real"
    return str(s)


def simp(t):
    return z3.simplify(t)


def conj(xs):
    xs = [x for x in xs if not z3.is_true(x)]
    if not xs:
        return z3.BoolVal(True)
    if len(xs) == 1:
        return xs[0]
    return z3.And(*xs)


def disj(xs):
    xs = list(xs)
    if not xs:
        return z3.BoolVal(False)
    if len(xs) == 1:
        return xs[0]
    return z3.Or(*xs)


def is_plain_const(t):
    return z3.is_const(t) and t.decl().kind() == z3.Z3_OP_UNINTERPRETED


def forall_pat(vs, body, arr, r):
    """forall with the select pattern arr[r] when arr is a plain constant (z3 rejects patterns over ite/store)."""
    if is_plain_const(arr):
        return z3.ForAll(vs, body, patterns=[arr[r]])
    return z3.ForAll(vs, body)


def FA(vs, body, patterns=None):
    """ForAll that drops patterns z3 rejects (patterns over ite/store/lambda terms)."""
    if patterns:
        ok = []
        for p in patterns:
            if _pattern_ok(p):
                ok.append(p)
        if ok:
            try:
                return z3.ForAll(vs, body, patterns=ok)
            except z3.Z3Exception:
                pass
    return z3.ForAll(vs, body)


_BAD = None


def _pattern_ok(p):
    bad = {z3.Z3_OP_ITE, z3.Z3_OP_STORE, z3.Z3_OP_DISTINCT, z3.Z3_OP_EQ, z3.Z3_OP_AND, z3.Z3_OP_OR, z3.Z3_OP_NOT,
           z3.Z3_OP_LE, z3.Z3_OP_GE, z3.Z3_OP_LT, z3.Z3_OP_GT, z3.Z3_OP_CONST_ARRAY}
    stack = [p]
    seen = set()
    while stack:
        x = stack.pop()
        if x.get_id() in seen:
            continue
        seen.add(x.get_id())
        if z3.is_quantifier(x):
            return False
        if z3.is_app(x) and x.decl().kind() in bad:
            return False
        if z3.is_app(x):
            stack.extend(x.children())
    return True
