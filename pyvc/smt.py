"""SMT vocabulary shared by the executor and the sidecar contracts.

One non-recursive datatype `Val` for Python values, integer references into a Burstall-Bornat heap
(one z3 array per field), lists as length + element array, dicts as insertion-ordered key array +
key->value array + key->position array.
"""
import z3

_V = z3.Datatype("Val")
_V.declare("none")
_V.declare("absent")                      # "no such key" marker inside dict value arrays
_V.declare("boolv", ("b", z3.BoolSort()))
_V.declare("intv", ("i", z3.IntSort()))
_V.declare("strv", ("s", z3.StringSort()))
_V.declare("ref", ("r", z3.IntSort()))     # heap reference (Node / list / dict)
_V.declare("fltv", ("fk", z3.IntSort()), ("fx", z3.RealSort()))  # fk: 0 finite, 1 nan, 2 +inf, 3 -inf
_V.declare("tupv", ("tid", z3.IntSort()))  # immutable tuple value, items via TITEM/TLEN
_V.declare("objv", ("oid", z3.IntSort()))  # opaque concrete python object (enum member, class, ...)
Val = _V.create()

I = z3.IntSort()
B = z3.BoolSort()
S = z3.StringSort()
R = z3.RealSort()

FieldArr = z3.ArraySort(I, Val)
IntArr = z3.ArraySort(I, I)
ElemArr = z3.ArraySort(I, Val)
LElemArr = z3.ArraySort(I, ElemArr)
MapArr = z3.ArraySort(Val, Val)
DMapArr = z3.ArraySort(I, MapArr)
PosArr = z3.ArraySort(Val, I)
DPosArr = z3.ArraySort(I, PosArr)

KIND_NODE, KIND_LIST, KIND_DICT, KIND_OTHER = 1, 2, 3, 4
kind = z3.Function("kind", I, I)             # immutable run-time class tag of a reference
TLEN = z3.Function("tlen", I, I)
TITEM = z3.Function("titem", I, I, Val)

none = Val.none
absent = Val.absent


def is_val(t):
    return z3.is_expr(t) and t.sort() == Val


def sort_name(t):
    s = t.sort()
    if s == Val:
        return "Val"
    if s == I:
        return "Int"
    if s == B:
        return "Bool"
    if s == S:
        return "String"
    if s == R:
        return "Real"
    return str(s)


def simp(t):
    return z3.simplify(t)


def conj(xs):
    xs = [x for x in xs if not z3.is_true(x)]
    if not xs:
        return z3.BoolVal(True)
    if len(xs) == 1:
        return xs[0]
    return z3.And(*xs)


def disj(xs):
    xs = list(xs)
    if not xs:
        return z3.BoolVal(False)
    if len(xs) == 1:
        return xs[0]
    return z3.Or(*xs)
