"""String-structural operations through uninterpreted functions (assumption A-str); filled in on demand."""
import z3
from .values import *


def getslice(ip, o, lo, hi):
    return NotImplemented
