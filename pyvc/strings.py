"""String operations.  Concrete receivers and arguments run natively; symbolic ones use z3's string theory where it is
exact and cheap (prefix/suffix/contains/length/concat) and uninterpreted functions otherwise (assumption A-str: the
contracts that rely on a structural string function state the axioms they need)."""
import z3
from .smt import Val, I, B, S
from .values import *

U_STRIP = z3.Function("py_strip", S, S)
U_LSTRIP = z3.Function("py_lstrip", S, S)
U_RSTRIP = z3.Function("py_rstrip", S, S)
U_LOWER = z3.Function("py_lower", S, S)
U_UPPER = z3.Function("py_upper", S, S)
U_REPLACE = z3.Function("py_replace_all", S, S, S, S)
U_FIND = z3.Function("py_find", S, S, I)
U_JOIN_SPLIT = z3.Function("py_join_split_ws", S, S)      # " ".join(s.split())
U_ENCODABLE = z3.Function("py_utf8_encodable", S, B)        # s.encode("utf-8", "strict") succeeds (no lone surrogates)
U_SLICE = z3.Function("py_slice", S, I, I, S)
U_NSPLIT = z3.Function("py_split_count", S, S, I)            # len(s.split(sep))
U_NWORDS = z3.Function("py_split_ws_count", S, I)            # len(s.split())


def _t(v):
    return z3.StringVal(v) if isinstance(v, str) else v.t


def _conc(*vs):
    # engine-side stand-ins for lists of strings (the abstract result of split(), heap lists) are not native values; an engine list of
    # python strings is (it is unwrapped by _native below)
    for v in vs:
        if isinstance(v, (PObj, PDict)):
            raise Unsupported(f"string method applied to / given an engine object ({type(v).__name__})")      # never let CPython raise on a stand-in
        if isinstance(v, Sym) or type(v).__name__ in ("SplitV", "JoinedV"):
            return False
        if isinstance(v, PList) and (v.ref is not None or not all(isinstance(x, str) for x in v.items)):
            return False
    return True


def _native(v):
    return list(v.items) if isinstance(v, PList) else v


def method(ip, recv, name, args, kwargs):
    c = ip.c
    if _conc(recv, *args, *kwargs.values()):
        try:
            r = getattr(recv, name)(*[_native(a) for a in args], **{k: _native(x) for k, x in kwargs.items()})
        except UnicodeError as ex:
            ip.py_raise(type(ex), str(ex))
        except (TypeError, ValueError, AttributeError) as ex:
            ip.py_raise(type(ex), str(ex))
        if isinstance(r, list):
            return ip.new_list(r)
        if isinstance(r, bytes):
            return Sym(c.fresh("bytes", S), "bytes")
        return r
    t = _t(recv)
    if name in ("startswith", "endswith") and len(args) == 1 and (isinstance(args[0], str) or (isinstance(args[0], Sym) and args[0].t.sort() == S)):
        f = z3.PrefixOf if name == "startswith" else z3.SuffixOf
        return c.concretise(Sym(z3.simplify(f(_t(args[0]), t)), "bool"))
    if name in ("isupper", "islower", "isdigit", "isalpha", "isspace", "isalnum", "isnumeric", "isdecimal", "istitle", "isascii") and not args:
        return c.concretise(Sym(z3.Function("py_str_" + name, S, B)(t), "bool"))
    if name == "strip" and not args:
        return Sym(U_STRIP(t), "str")
    if name == "lstrip" and not args:
        return Sym(U_LSTRIP(t), "str")
    if name == "rstrip" and not args:
        return Sym(U_RSTRIP(t), "str")
    if name == "lower" and not args:
        return Sym(U_LOWER(t), "str")
    if name == "upper" and not args:
        return Sym(U_UPPER(t), "str")
    if name == "replace" and len(args) == 2:
        return Sym(U_REPLACE(t, _t(args[0]), _t(args[1])), "str")
    if name == "find" and len(args) == 1:
        return Sym(U_FIND(t, _t(args[0])), "int")
    if name == "encode":
        # only the outcome matters to the callers: UnicodeEncodeError on lone surrogates
        if c.branch(U_ENCODABLE(t), "encodable"):
            return Sym(c.fresh("bytes", S), "bytes")
        ip.py_raise(UnicodeEncodeError, "surrogates not allowed")
    if name == "split":
        return SplitV(recv, args[0] if args else None)
    if name == "join":
        it = args[0]
        if isinstance(it, SplitV) and it.sep is None and recv == " ":
            return Sym(U_JOIN_SPLIT(_t(it.s)), "str")
        if isinstance(it, PList) and it.ref is None:
            parts = []
            for i, x in enumerate(it.items):
                if i:
                    parts.append(recv)
                parts.append(x)
            if not parts:
                return ""
            from . import prims
            return prims.str_concat(ip, parts) if not ip.w.opaque_fstrings else (
                "".join(parts) if all(isinstance(p, str) for p in parts) else Sym(c.fresh("s_join", S), "str"))
        if isinstance(it, JoinedV):
            return Sym(it.fn(t), "str")
        # join over a symbolic list: opaque
        return Sym(c.fresh("s_join", S), "str")
    if name == "format":
        for a in args:
            pass
        return Sym(c.fresh("s_fmt", S), "str")
    raise Unsupported(f"str.{name} on a symbolic string")


class SplitV:
    """result of s.split(sep) kept abstract; consumers: " ".join(...), len(...), iteration"""
    __slots__ = ("s", "sep", "_list")

    def __init__(self, s, sep):
        self.s, self.sep = s, sep
        self._list = None

    def as_list(self, ip):
        """a fresh list of strings of unknown length (at least one piece when a separator is given): A-str"""
        if self._list is None:
            from .smt import KIND_LIST
            c = ip.c
            r = c.alloc(KIND_LIST)
            # the number of pieces is a function of the string and the separator (A-str), so specs can name it
            st = _t(self.s)
            n = U_NSPLIT(st, _t(self.sep)) if self.sep is not None else U_NWORDS(st)
            c.assume(n >= (0 if self.sep is None else 1))
            j = z3.Int("sp_j")
            e = c.fresh("split_items", z3.ArraySort(I, Val))
            c.assume(z3.ForAll([j], Val.is_strv(e[j]), patterns=[e[j]]))
            c.write_array("llen", z3.Store(c.heap.get("llen"), r, n))
            c.write_array("lelem", z3.Store(c.heap.get("lelem"), r, e))
            self._list = r
        return self._list


class JoinedV:
    __slots__ = ("fn",)

    def __init__(self, fn):
        self.fn = fn


def getslice(ip, o, lo, hi):
    if isinstance(o, Sym) and o.t.sort() == S:
        lt = z3.IntVal(0) if lo is None else (z3.IntVal(lo) if isinstance(lo, int) else lo.t)
        if hi is None:
            # s[a:]  with a >= 0
            return Sym(z3.SubString(o.t, lt, z3.Length(o.t)), "str") if not (isinstance(lo, int) and lo < 0) else Sym(U_SLICE(o.t, lt, z3.IntVal(-1)), "str")
        ht = z3.IntVal(hi) if isinstance(hi, int) else hi.t
        return Sym(U_SLICE(o.t, lt, ht), "str")
    return NotImplemented
