"""World (contracts, schema, externals) and Task (verify one function against its contract, all paths)."""
import inspect
import os
import time
import traceback
import z3

from . import smt, prims
from .smt import Val, I, B, S, kind, KIND_NODE, KIND_LIST, KIND_DICT
from .values import *
from .core import *
from .interp import Interp, Frame, srcinfo, _Return
from .calls import spec_args, _clauses, qualname


class Contract:
    """Sidecar contract of one repository function.

    params     name -> type string ('Node', 'str', 'opt:str', 'list:val', ...) or a callable(ip) building the value
    requires   (s, **args) -> Bool | {name: Bool}
    ensures    (s0, s, **args, result) -> Bool | {name: Bool}
    raises     [(ExcClass, cond(s0, **args), post(s0, s, **args) | None)]  -- raises ExcClass iff cond; None: heap unchanged
    writes     heap arrays the function may modify;  mod(s0, r, **args): allocated objects it may modify
    allocates  may allocate objects;  result_ty: type string of the result ('none' for None)
    decreases  (s, **args) -> Int measure for recursion
    """

    def __init__(self, qual, params=None, requires=None, ensures=None, raises=(), writes=(), mod=None, allocates=False,
                 result_ty="none", decreases=None, modular=True, assumptions=(), trusted=False, axioms=None, mods=None):
        self.qual = qual
        self.params = params or {}
        self.requires = requires
        self.ensures = ensures
        self.raises = list(raises)
        self.writes = tuple(writes)
        self.mod = mod
        self.mods = mods or {}          # per-array override of mod
        self.allocates = allocates
        self.result_ty = result_ty
        self.decreases = decreases
        self.modular = modular
        self.assumptions = tuple(assumptions)
        self.axioms = axioms            # (s, **args): definitional unfoldings / lemma instances assumed at entry only
        self.trusted = trusted          # assumed contract of an external: never verified, listed in evidence


def mod_of(con, arr):
    """modifies predicate for one heap array: (s0, r, **args) -> Bool, or None when the contract gives no frame."""
    f = con.mods.get(arr)
    if f is not None:
        return f
    return con.mod


class LoopC:
    def __init__(self, inv=None, decreases=None, var_types=None, axioms=None, ghost=None, arrays=(), fields=(), stop=None, stop_unchanged=True):
        # stop: (s0, s, v) -> {name: Bool}.  The verified region of the function ends where this loop begins: the clauses are proved
        # there and the path ends; nothing after that point is verified (recorded as an assumption in the evidence)
        self.stop = stop
        self.stop_unchanged = stop_unchanged    # True: nothing pre-existing written before the region ends; False: the contract's modifies clauses apply
        self.arrays = tuple(arrays)     # heap arrays known to be written in the loop (saves the learning restarts)
        self.fields = tuple(fields)     # (local variable holding a PObj, field name) known to be written in the loop
        self.ghost = ghost or {}        # name -> (s, v): term evaluated at loop entry (before the havoc), visible to inv as v.<name>
        self.axioms = axioms            # (s0, s, v): ghost unfolding instances assumed at the loop head
        self.inv = inv
        self.decreases = decreases
        self.var_types = var_types or {}


class MergeC:
    """Merge point inside straight-line / unrolled code: every arriving path proves inv and stops; one path continues from a
    fresh context (path condition reset to the function-entry facts) with havoc() applied and inv assumed.  Keeps the number
    of paths linear in the length of unrolled concrete loops."""

    def __init__(self, inv, havoc):
        self.inv = inv          # (s0, s, ip) -> {name: Bool}
        self.havoc = havoc      # (ip) -> None


class World:
    def __init__(self):
        self.schema = {}
        self.node_class = None
        self.contracts = {}
        self.loop_contracts = {}
        self.loop_factories = {}
        self.after_loop = {}        # (qual, loop ordinal) -> MergeC: join the paths right after that loop
        self.default_loop = None        # LoopC used for cut loops without a contract of their own
        self.merge_factories = {}       # (qual, loop ordinal) -> fn(ip, iteration index) -> (subkey, MergeC) | None
        self.externals = {}
        self.heap_globals = {}
        self.class_heap_attrs = {}
        self.scope_modules = set()
        self.scope_classes = set()
        self.opaque_fstrings = True
        self.force_inline = set()
        self.externals_by_name = {}
        self.call_lemmas = {}           # (caller qual, callee qual) -> (s0, s, v): ghost frame facts assumed before the call

    def add(self, con):
        self.contracts[con.qual] = con
        return con

    def loop(self, qual, ordinal, **kw):
        self.loop_contracts[(qual, ordinal)] = LoopC(**kw)

    def loop_contract(self, key, ip=None):
        """-> (effective key, LoopC or None).  A factory makes the contract depend on the calling context (e.g. which concrete
        rule fragment the inlined matcher is working on); its sub-key becomes part of the cut point's identity."""
        f = self.loop_factories.get(key)
        if f is not None and ip is not None:
            sub, lc = f(ip)
            return key + (sub,), lc
        return key, self.loop_contracts.get(key, self.default_loop)

    def in_scope(self, f):
        return getattr(f, "__module__", None) in self.scope_modules

    def in_scope_class(self, cls):
        return cls in self.scope_classes or getattr(cls, "__module__", None) in self.scope_modules

    def contract_for_call(self, q, ip):
        con = self.contracts.get(q)
        if con is None or not con.modular or q in self.force_inline:
            return None
        return con


class TaskResult:
    def __init__(self, name):
        self.name = name
        self.obs = []
        self.paths = 0
        self.restarts = 0
        self.wall = 0.0
        self.functions = {}
        self.assumptions = set()
        self.crash = None
        self.learned = None

    def to_json(self):
        return {"task": self.name, "paths": self.paths, "restarts": self.restarts, "wall_s": round(self.wall, 3),
                "obligations": [o.to_json() | ({"model": o.model} if o.model else {}) for o in self.obs],
                "functions": self.functions, "assumptions": sorted(self.assumptions), "crash": self.crash, "learned": self.learned}


class Task:
    def __init__(self, world, func, contract, name=None, goal_timeout_ms=10000, branch_timeout_ms=3000, max_paths=4000, params=None, max_failures=None,
                 shard=None, preload=None):
        # shard = (first decision index, bit pattern): this task explores only the paths whose decisions in that window equal the pattern;
        # the tasks for all patterns of the window together cover every path (paths shorter than the window are explored by several)
        self.shard = shard
        self.world = world
        self.func = func
        self.con = contract
        self.qual = qualname(func)
        self.name = name or self.qual
        self.goal_timeout_ms = goal_timeout_ms
        self.branch_timeout_ms = branch_timeout_ms
        self.max_paths = max_paths
        # a task whose code no longer verifies can spend two solver timeouts on every goal of every path: stop once the verdict is
        # settled (each unproved obligation already decides the run) or the wall budget is used (reported as undecided, never as held)
        self.max_failures = max_failures if max_failures is not None else int(os.environ.get("VERIF_MAX_FAILURES", "12"))
        self.max_seconds = float(os.environ.get("VERIF_TASK_SECONDS", "1500"))
        self.params = dict(contract.params)
        if params:
            self.params.update(params)
        self.learned = {}
        self.promote_serials = set()
        if preload:
            # what other shards of the same function learnt about its loops (which arrays / fields a loop body writes, which lists become heap
            # lists): a shard that never executes the writing branch must havoc them all the same (see props/common.run_sharded)
            import ast as _ast
            for k, d in preload.get("loops", {}).items():
                self.learned[_ast.literal_eval(k) if isinstance(k, str) else k] = {"arrays": set(d["arrays"]), "fields": set(tuple(x) for x in d["fields"])}
            self.promote_serials = set(preload.get("promote", ()))
        self.worklist = []
        self.rec_measure = None
        self.arg_terms = {}
        self.res = TaskResult(self.name)
        self.t_feas = 0.0
        self.full_feasibility = False

    # ---- learning for loop cuts ---------------------------------------------------------------------
    def learn_array(self, key, name):
        self.learned.setdefault(key, {"arrays": set(), "fields": set()})["arrays"].add(name)

    def learn_field(self, key, serial, field):
        self.learned.setdefault(key, {"arrays": set(), "fields": set()})["fields"].add((serial, field))

    def learn_promote(self, serial):
        self.promote_serials.add(serial)

    def note_function(self, q, si, inlined):
        d = self.res.functions.setdefault(q, {"inlined": False, "by_contract": False})
        if inlined:
            d["inlined"] = True
        else:
            d["by_contract"] = True

    # ---- frames -------------------------------------------------------------------------------------
    def auto_frame(self, c, arrays):
        """automatic loop-invariant clauses: objects outside the function's modifies set are unchanged."""
        out = []
        if c.heap0 is None:
            return out
        s0 = SV(c.heap0)
        r = z3.Int("af_r")
        for a in sorted(arrays):
            if a == "top":
                continue
            mf = mod_of(self.con, a)
            if mf is None:
                continue
            m = mf(s0, r, **self.spec_args)
            cur, old = c.heap.get(a), c.heap0.get(a)
            out.append((f"frame:{a}", smt.forall_pat([r], z3.Implies(z3.And(r > 0, r < s0.top, z3.Not(m)), cur[r] == old[r]), cur, r)))
        return out

    # ---- solving ------------------------------------------------------------------------------------
    def check_goal(self, c, goal):
        """proved / refuted / undecided.  Three attempts, so that no verdict hangs on one solver configuration being just fast enough: the
        path's incremental solver with a short budget, a fresh default-configuration solver with the full budget, the incremental solver
        again with the full budget."""
        c.sync()
        s = c.solver

        def incremental(ms):
            s.push()
            s.set("timeout", ms)
            s.add(z3.Not(goal))
            r = s.check()
            m = s.model() if r == z3.sat else None
            s.pop()
            s.set("timeout", self.branch_timeout_ms)
            return r, m

        r, model = incremental(min(2500, self.goal_timeout_ms))
        if r == z3.unsat:
            return "proved", None
        if r == z3.sat:
            return "refuted", model
        s2 = z3.Solver()
        s2.set("timeout", self.goal_timeout_ms)
        s2.set("random_seed", 7)
        for f in c.pc:
            s2.add(f)
        s2.add(z3.Not(goal))
        r = s2.check()
        if r == z3.unsat:
            return "proved", None
        if r == z3.sat:
            return "refuted", s2.model()
        r, model = incremental(self.goal_timeout_ms)
        if r == z3.unsat:
            return "proved", None
        if r == z3.sat:
            return "refuted", model
        if self.dump_dir:
            import os
            os.makedirs(self.dump_dir, exist_ok=True)
            s3 = z3.Solver()
            for f in c.pc:
                s3.add(f)
            s3.add(z3.Not(goal))
            self._dumpn = getattr(self, "_dumpn", 0) + 1
            open(os.path.join(self.dump_dir, f"q{self._dumpn}.smt2"), "w").write(s3.to_smt2())
        return "undecided", None

    def describe_model(self, c, model):
        if model is None:
            return None
        out = {}
        try:
            for k, t in self.arg_terms.items():
                if z3.is_expr(t):
                    out[k] = str(model.eval(t, model_completion=True))
            out["_top0"] = str(model.eval(z3.Int("top0"), model_completion=True))
            from . import replay
            for k, ty in self.params.items():
                if ty == "Node" and k in self.arg_terms:
                    out["$node:" + k] = replay.node_to_py(model, c.heap0, self.arg_terms[k])
            if self.world_model_hook is not None:
                out.update(self.world_model_hook(self, c, model))
        except Exception as ex:  # never let model printing break a verdict
            out["_error"] = repr(ex)
        return out

    world_model_hook = None
    dump_dir = None

    # ---- running ------------------------------------------------------------------------------------
    def make_args(self, ip):
        c = ip.c
        sig = inspect.signature(self.func)
        args = {}
        for pname, p in sig.parameters.items():
            spec = self.params.get(pname)
            if spec is None:
                if p.default is not inspect.Parameter.empty:
                    args[pname] = ip.wrap(p.default)
                    continue
                raise Unsupported(f"no type for parameter {pname} of {self.qual}")
            if callable(spec):
                args[pname] = spec(ip)
            elif isinstance(spec, tuple) and spec[0] == "const":
                args[pname] = ip.wrap(spec[1])
            elif spec == "int":
                args[pname] = Sym(z3.Int("a_" + pname), "int")
            elif spec == "str":
                args[pname] = Sym(z3.String("a_" + pname), "str")
            elif spec == "bool":
                args[pname] = Sym(z3.Bool("a_" + pname), "bool")
            elif spec == "RawNode":
                # an allocated Node object whose fields are not initialised yet (the `self` of __init__)
                t = z3.Int("a_" + pname)
                c.assume(c.ty_fact(Val.ref(t), "Node"))
                args[pname] = Sym(t, "Node")
                self.raw_args = getattr(self, "raw_args", set()) | {pname}
            elif spec in ("Node",) or spec.startswith("list") or spec.startswith("dict"):
                t = z3.Int("a_" + pname)
                c.assume(c.ty_fact(Val.ref(t), spec))
                args[pname] = Sym(t, spec)
            else:
                t = z3.Const("a_" + pname, Val)
                args[pname] = c.from_val(t, spec)
        return args

    def run(self):
        t0 = time.time()
        z3.set_param("smt.random_seed", 0)
        while True:
            self.worklist = [[]]
            self.res.obs = []
            self.res.paths = 0
            self.merge_owner = {}
            try:
                while self.worklist:
                    log = self.worklist.pop()
                    self.res.paths += 1
                    if self.res.paths > self.max_paths:
                        self.res.obs.append(ObRec(f"{self.name}/path-budget", "undecided", 0.0, f"more than {self.max_paths} paths"))
                        self.worklist = []
                        break
                    self.run_path(log)
                    if time.time() - t0 > self.max_seconds:
                        self.res.obs.append(ObRec(f"{self.name}/time-budget", "undecided", 0.0, f"stopped after {self.max_seconds:.0f} s"))
                        self.worklist = []
                        break
                    if self.max_failures is not None and sum(1 for o in self.res.obs if o.status != "proved") >= self.max_failures:
                        self.res.obs.append(ObRec(f"{self.name}/failure-budget", "undecided", 0.0, f"stopped after {self.max_failures} unproved obligations"))
                        self.worklist = []
                        break
                break
            except Restart:
                self.res.restarts += 1
                if self.res.restarts > 200:
                    self.res.obs.append(ObRec(f"{self.name}/restarts", "undecided", 0.0, "too many restarts"))
                    break
                continue
        self.res.wall = time.time() - t0
        self.res.learned = {"loops": {repr(k): {"arrays": sorted(d["arrays"]), "fields": sorted(list(x) for x in d["fields"])} for k, d in self.learned.items()},
                            "promote": sorted(self.promote_serials)}
        from . import interp as _interp
        for si in list(_interp._SRCINFO.values()):
            if getattr(si, "alpha", None):
                self.res.assumptions.add(f"alpha: locals of {si.qualname} differ from the reference text by a pure renaming and were mapped back "
                                         f"({', '.join(f'{a}->{b}' for a, b in sorted(si.alpha.items()))})")
        return self.res

    def run_path(self, log):
        c = Ctx(self, log)
        c.path_id = "".join("T" if d else "F" for d in log)
        ip = Interp(c, self.world)
        con = self.con
        q = self.qual
        name = self.name
        try:
            try:
                c.assume(c.heap.top > 0)
                args = self.make_args(ip)
                # T-schema at the entry state: the containers of every Node argument are allocated objects of the entry heap
                for an, av in args.items():
                    if isinstance(av, Sym) and av.ty == "Node" and an not in getattr(self, "raw_args", ()):
                        for fld, fty in self.world.schema.get("Node", {}).items():
                            c.from_val(c.heap.get("F:" + fld)[av.t], fty)
                c.heap0 = c.heap.snapshot()
                a = spec_args(ip, args)
                self.spec_args = a
                self.arg_terms = {k: v for k, v in a.items() if z3.is_expr(v)}
                s0 = SV(c.heap0)
                if con.requires is not None:
                    for nm, f in _clauses(con.requires(s0, **a), "requires"):
                        c.assume(f)
                if con.axioms is not None:
                    for nm, f in _clauses(con.axioms(s0, **a), "axiom"):
                        c.assume(f)
                self.rec_measure = con.decreases(s0, **a) if con.decreases is not None else None
                c.base_pc = [z3.And(*c.pc)] if len(c.pc) > 1 else list(c.pc)   # one conjunction: cheap to re-assume at merge points
                si = srcinfo(self.func)
                self.note_function(q, si, inlined=True)
                fr = Frame(self.func, q, dict(args), self.func.__globals__, si)
                ip.frames.append(fr)
                result = None
                try:
                    ip.exec_block(si.node.body)
                except _Return as r:
                    result = r.v
                # ---- normal return
                for (cls, cond, post) in con.raises:
                    if cond is not None:
                        c.prove(f"{name}/no-raise:{cls.__name__}", z3.Not(cond(s0, **a)), kind="post")
                rt = None if con.result_ty in (None, "none") else c.to_val(result)
                if con.result_ty not in (None, "none"):
                    okty = self.result_type_ok(c, result, con.result_ty)
                    if okty is not True:
                        c.prove(f"{name}/result-type", okty, kind="post")
                elif con.result_ty == "none" and result is not None:
                    c.fail(f"{name}/result-type", f"returned {result!r} but contract says None", kind="post")
                if con.ensures is not None:
                    for nm, f in _clauses(con.ensures(s0, c.sv(), **a, result=rt), "ensures"):
                        c.prove(f"{name}/ensures:{nm}", f, kind="post")
                self.check_frame(c, s0, a, name)
            except PyRaise as pr:
                cls = pr.exc.cls
                matched = False
                if getattr(con, "ignore_exceptions", False):
                    # frame-only contracts: whatever is raised, nothing pre-existing may have been written
                    matched = True
                    self.check_frame(c, SV(c.heap0), self.spec_args, name + f"/raises:{cls.__name__}")
                    # remembered for the evidence: which exception classes ended paths of a frame-only proof (an exception the real code cannot
                    # raise there would mean the executor cut the path short)
                    msg = pr.exc.fields.get("args", ("",))
                    self.res.assumptions.add(f"frame-only proof of {self.qual}: some paths end in {cls.__name__}" + (f" ({msg[0]})" if msg and isinstance(msg[0], str) and len(msg[0]) < 80 else ""))
                for (k, cond, post) in con.raises:
                    if cls is k or (getattr(con, "raises_subclasses", False) and issubclass(cls, k)):
                        matched = True
                        if cond is not None:
                            c.prove(f"{name}/raises:{k.__name__}/cond", cond(SV(c.heap0), **self.spec_args), kind="post")
                        if post is None:
                            self.check_frame(c, SV(c.heap0), self.spec_args, name + f"/raises:{k.__name__}", unchanged=True)
                        else:
                            for nm, f in _clauses(post(SV(c.heap0), c.sv(), **self.spec_args), "rpost"):
                                c.prove(f"{name}/raises:{k.__name__}/{nm}", f, kind="post")
                        break
                if not matched:
                    msg = pr.exc.fields.get("args", ("",))
                    c.fail(f"{name}/unexpected-exception:{cls.__name__}", f"{cls.__name__}{msg!r} escapes", kind="exception")
        except PathEnd:
            pass
        except Infeasible:
            pass
        except Unsupported as u:
            # a construct outside the subset only matters on a path that can happen: ask the full solver before giving up
            infeasible = False
            try:
                c.sync()
                c.solver.set("timeout", self.goal_timeout_ms)
                infeasible = c.solver.check() == z3.unsat
                c.solver.set("timeout", self.branch_timeout_ms)
            except Exception:  # noqa
                pass
            if not infeasible:
                c.obs.append(ObRec(f"{name}/unsupported", "undecided", 0.0, str(u), path=c.path_id, kind="unsupported"))
        except Restart:
            raise
        except RecursionError:
            c.obs.append(ObRec(f"{name}/engine-recursion", "undecided", 0.0, "engine recursion limit", path=c.path_id))
        full = "".join("T" if d else "F" for d in c.log)
        if os.environ.get("PYVC_TRACE") == "tags":
            print("[pyvc] " + " ".join(f"{i}:{tg}={'T' if d else 'F'}" for i, (tg, d) in enumerate(c.trace)), flush=True)
        elif os.environ.get("PYVC_TRACE"):
            bad = [o for o in c.obs if o.status != "proved"]
            print(f"[pyvc] {self.name} path {full} obs={len(c.obs)} bad={len(bad)} t={sum(o.time for o in c.obs):.1f}s " + " ".join(o.name.split('/')[-1] + ":" + o.status for o in bad[:4]), flush=True)
        for o in c.obs:
            o.path = full
        self.res.obs.extend(c.obs)
        self.res.assumptions.update(c.assumptions_used)

    def result_type_ok(self, c, result, ty):
        if ty == "val":
            return True
        if isinstance(result, Sym) and result.ty == ty:
            return True
        if result is None:
            return ty.startswith("opt:")
        if isinstance(result, bool):
            return ty in ("bool", "val", "opt:bool")
        if isinstance(result, int):
            return ty in ("int", "val", "opt:int")
        if isinstance(result, str):
            return ty in ("str", "val", "opt:str")
        if isinstance(result, PList):
            return ty.startswith("list") or ty.startswith("opt:list") or ty == "val"
        if isinstance(result, Sym):
            if ty.startswith("opt:") and (result.ty == ty[4:] or (result.ty or "").split(":")[0] == ty[4:].split(":")[0] != ""):
                return True
            return z3.simplify(c.ty_fact(c.to_val(result), ty))
        return ty == "val"

    def check_frame(self, c, s0, a, name, unchanged=False):
        con = self.con
        r = z3.Int("fr_r")
        for arr in sorted(c.heap.cur):
            cur, old = c.heap.cur[arr], c.heap0.get(arr)
            if z3.eq(cur, old):
                continue
            mf = mod_of(con, arr)
            if unchanged or arr not in con.writes or mf is None:
                goal = smt.FA([r], z3.Implies(z3.And(r > 0, r < s0.top), cur[r] == old[r]))
                c.prove(f"{name}/frame:{arr}:unchanged", goal, kind="frame")
            else:
                m = mf(s0, r, **a)
                goal = smt.FA([r], z3.Implies(z3.And(r > 0, r < s0.top, z3.Not(m)), cur[r] == old[r]))
                c.prove(f"{name}/frame:{arr}", goal, kind="frame")
        if not con.allocates and not z3.eq(c.heap.top, c.heap0.top):
            # allocation of garbage is harmless for every property here; only record it
            pass
