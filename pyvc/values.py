"""Engine-side value representation (mixed concrete / symbolic)."""
import z3
from .smt import Val, I, B, S, R


class Unsupported(Exception):
    """Construct outside the supported subset: the affected obligations become *undecided*."""


class Sym:
    """Symbolic value. t: z3 term of sort Val | Int | Bool | String | Real.
    ty: static hint: 'int','bool','str','float','Node','list:<elt>','dict:<val>','val','opt:<ty>','tuple'."""
    __slots__ = ("t", "ty")

    def __init__(self, t, ty):
        self.t = t
        self.ty = ty

    def __repr__(self):
        return f"Sym<{self.ty}>({self.t})"

    def __bool__(self):
        raise Unsupported("python truth value of a symbolic value taken inside the engine")

    def __eq__(self, other):
        raise Unsupported("python == on a symbolic value taken inside the engine")

    __hash__ = None


class PList:
    """A list created by executed code or converted from module data.  Concrete mode: items is a python list of
    engine values.  Heap mode (after promotion): ref is an Int term, items is None."""
    __slots__ = ("items", "ref", "elt", "serial", "epoch", "frozen")

    def __init__(self, items, serial, epoch, frozen=False):
        self.items = items
        self.ref = None
        self.elt = "val"
        self.serial = serial
        self.epoch = epoch
        self.frozen = frozen

    def __repr__(self):
        return f"PList#{self.serial}({self.items if self.ref is None else self.ref})"


class PDict:
    """Concrete-keyed dict (module tables, dict displays).  keys hashable python values; values engine values."""
    __slots__ = ("d", "serial", "epoch", "frozen")

    def __init__(self, d, serial, epoch, frozen=False):
        self.d = d
        self.serial = serial
        self.epoch = epoch
        self.frozen = frozen

    def __repr__(self):
        return f"PDict#{self.serial}({list(self.d)[:4]}...)"


class PObj:
    """Instance of a python class whose identity is concrete (Rule instance, exception instance)."""
    __slots__ = ("cls", "fields", "serial", "epoch")

    def __init__(self, cls, fields, serial, epoch):
        self.cls = cls
        self.fields = fields
        self.serial = serial
        self.epoch = epoch

    def __repr__(self):
        return f"PObj#{self.serial}<{self.cls.__name__}>"


class BoundMethod:
    __slots__ = ("func", "recv")

    def __init__(self, func, recv):
        self.func = func
        self.recv = recv


class BuiltinMethod:
    __slots__ = ("recv", "name")

    def __init__(self, recv, name):
        self.recv = recv
        self.name = name


class DictView:
    __slots__ = ("d", "what")

    def __init__(self, d, what):
        self.d = d
        self.what = what  # 'keys' | 'values' | 'items'


class RangeV:
    __slots__ = ("start", "stop", "step")

    def __init__(self, start, stop, step):
        self.start, self.stop, self.step = start, stop, step


class EnumerateV:
    __slots__ = ("it",)

    def __init__(self, it):
        self.it = it


def is_sym(v):
    return isinstance(v, Sym)


def sort_of(v):
    return v.t.sort()
