#!/usr/bin/env python3
"""Cross-check of the contracts (and thereby of the executor's reading of Python) against CPython.

A proof says: under pyvc's semantics, every execution of the real function from a state satisfying `requires` ends in a state satisfying
`ensures`.  Here the same `requires`/`ensures`/`raises` formulas are evaluated on *real* executions: random concrete trees are built
with the library, encoded into the heap arrays the contracts talk about (every node, list and dict reachable before and after the call
gets an address; objects that exist before keep theirs), the real function is run by CPython, and for each contract clause

  * without ghost symbols: `state facts /\\ not clause` must be unsat (the clause is simply evaluated);
  * with ghost symbols (Sub, W, count_named, ...): `state facts /\\ requires /\\ unfolding axioms /\\ clause` must be sat
    (the true tree functions are a witness; unsat means contract and reality contradict each other).

A contradiction would mean that the executor's semantics, under which the clause was proved for all inputs, differs from CPython's.
This is a self-test of the machinery (bounded, random); it decides no property.  Usage: selftest/crosscheck.py [cases-per-function]"""
import os, random, sys, time
ROOT = os.path.dirname(os.path.dirname(os.path.abspath(__file__)))
sys.path.insert(0, ROOT)
import z3
from pyvc import smt
from pyvc.smt import Val, I, S, kind, KIND_NODE, KIND_LIST, KIND_DICT
from pyvc.core import Heap, SV
from contracts.prelude import NODE_FIELDS, STORE, make_world, Node

GHOST_PREFIXES = ("Sub", "W", "Tree", "height", "first_", "count_named", "desc_", "path_node", "depth", "copy_origin", "Eq", "PD", "IDX", "idx", "py_", "reg",
                  "deleted", "first_index")


class Enc:
    """addresses for python objects; heap arrays as ground Store chains"""

    def __init__(self):
        self.addr = {}
        self.objs = []
        self.nxt = 1
        self.tuples = {}
        self.tuple_facts = []

    def a(self, o):
        k = id(o)
        if k not in self.addr:
            self.addr[k] = self.nxt
            self.objs.append(o)
            self.nxt += 1
        return self.addr[k]

    def reach(self, roots):
        seen = set()
        stack = list(roots)
        while stack:
            o = stack.pop()
            if id(o) in seen or o is None or isinstance(o, (str, int, float, bool)):
                continue
            seen.add(id(o))
            self.a(o)
            if isinstance(o, Node):
                stack.extend([o._parent, o._attributes, o._nsmap, o._extras, o._children])
            elif isinstance(o, list):
                stack.extend(x for x in o if not isinstance(x, tuple))
            elif isinstance(o, dict):
                stack.extend(o.values())

    def val(self, v):
        if v is None:
            return Val.none
        if isinstance(v, bool):
            return Val.boolv(z3.BoolVal(v))
        if isinstance(v, int):
            return Val.intv(z3.IntVal(v))
        if isinstance(v, str):
            return Val.strv(z3.StringVal(v))
        if isinstance(v, (Node, list, dict)):
            return Val.ref(z3.IntVal(self.a(v)))
        if isinstance(v, tuple):
            tid = self.tuples.get(id(v))
            if tid is None:
                tid = 900000 + len(self.tuples)
                self.tuples[id(v)] = tid
                self.objs_keep = getattr(self, "objs_keep", []) + [v]
                self.tuple_facts.append(smt.TLEN(z3.IntVal(tid)) == len(v))
                for i, x in enumerate(v):
                    try:
                        self.tuple_facts.append(smt.TITEM(z3.IntVal(tid), i) == self.val(x))
                    except TypeError:
                        pass
            return Val.tupv(z3.IntVal(tid))
        import enum
        if isinstance(v, enum.Enum):
            from pyvc.core import obj_term
            return obj_term(v)
        raise TypeError(type(v))

    def heap(self, top):
        """Heap over everything registered so far, as it is *now*"""
        F = {f: z3.K(I, Val.none) for f in NODE_FIELDS}
        llen = z3.K(I, z3.IntVal(0))
        lelem = z3.K(I, z3.K(I, Val.none))
        dn = z3.K(I, z3.IntVal(0))
        dkey = z3.K(I, z3.K(I, Val.none))
        dmap = z3.K(I, z3.K(Val, Val.absent))
        dpos = z3.K(I, z3.K(Val, z3.IntVal(-1)))
        for o in self.objs:
            a = z3.IntVal(self.addr[id(o)])
            if isinstance(o, Node):
                for f in NODE_FIELDS:
                    F[f] = z3.Store(F[f], a, self.val(getattr(o, f)))
            elif isinstance(o, list):
                e = z3.K(I, Val.none)
                for i, x in enumerate(o):
                    e = z3.Store(e, i, self.val(x))
                llen = z3.Store(llen, a, len(o))
                lelem = z3.Store(lelem, a, e)
            elif isinstance(o, dict):
                ks, mp, ps = z3.K(I, Val.none), z3.K(Val, Val.absent), z3.K(Val, z3.IntVal(-1))
                for i, (k, v) in enumerate(o.items()):
                    ks = z3.Store(ks, i, self.val(k))
                    mp = z3.Store(mp, self.val(k), self.val(v))
                    ps = z3.Store(ps, self.val(k), i)
                dn = z3.Store(dn, a, len(o))
                dkey, dmap, dpos = z3.Store(dkey, a, ks), z3.Store(dmap, a, mp), z3.Store(dpos, a, ps)
        cur = {"F:" + f: t for f, t in F.items()}
        cur.update({"llen": llen, "lelem": lelem, "dn": dn, "dkey": dkey, "dmap": dmap, "dpos": dpos})
        return Heap(cur, z3.IntVal(top))

    def facts(self):
        out = [STORE == self.a(Node.store)] + list(self.tuple_facts)
        for o in self.objs:
            k = KIND_NODE if isinstance(o, Node) else KIND_LIST if isinstance(o, list) else KIND_DICT
            out.append(kind(z3.IntVal(self.addr[id(o)])) == k)
        return out


def true_ghosts(enc, s, names=("a", "b", "c")):
    """ground facts: the real values of the ghost tree functions on the allocated nodes of state s (as it is now)"""
    from contracts.tree import SUB, W, TREE
    from contracts.prelude import H
    from contracts import c09_queries as Q9
    nodes = [o for o in enc.objs if isinstance(o, Node)]
    A = lambda o: z3.IntVal(enc.addr[id(o)])
    out = []

    def below(n, seen=None):
        seen = seen if seen is not None else []
        for c in n._children:
            if any(c is x for x in seen):
                continue
            seen.append(c)
            below(c, seen)
        return seen

    def height(n, depth=0):
        if depth > 50:
            return None
        hs = [height(c, depth + 1) for c in n._children]
        if any(h is None for h in hs):
            return None
        return 1 + max(hs, default=-1)

    for n in nodes:
        sub = [n] + below(n)
        listed_twice = len({id(x) for x in below(n)}) != sum(len(x._children) for x in sub) or any(x is n for x in below(n))
        for m in nodes:
            out.append(SUB(s, A(n), A(m)) == any(m is x for x in sub))
        if not listed_twice:
            out.append(TREE(s, A(n)))
            for k, c in enumerate(n._children):
                for m in [c] + below(c):
                    out.append(W(s, A(n), A(m)) == k)
            h = height(n)
            if h is not None:
                out.append(H(s, A(n)) == h)
            for x in names:
                cnt = 0
                out.append(Q9.CNT(s, A(n), x, 0) == 0)
                dcu = 0
                out.append(Q9.DCU(s, A(n), x, 0) == 0)
                pre = []

                def walk(y):
                    for c in y._children:
                        pre.append(c)
                        walk(c)
                for k, c in enumerate(n._children):
                    cnt += 1 if c._name == x else 0
                    out.append(Q9.CNT(s, A(n), x, k + 1) == cnt)
                    dcu += (1 if c._name == x else 0) + sum(1 for y in below(c) if y._name == x)
                    out.append(Q9.DCU(s, A(n), x, k + 1) == dcu)
                out.append(Q9.DC(s, A(n), x) == dcu)
                walk(n)
                r = 0
                for y in pre:
                    out.append(Q9.RK(s, A(n), x, A(y)) == r)
                    if y._name == x:
                        r += 1
        d, y, ok = 0, n, True
        while y._parent is not None:
            y = y._parent
            d += 1
            if d > 60:
                ok = False
                break
        if ok:
            out.append(Q9.DEPTH(s, A(n)) == d)
    return out


def has_ghost(f):
    seen = set()
    stack = [f]
    while stack:
        t = stack.pop()
        if t.get_id() in seen:
            continue
        seen.add(t.get_id())
        if z3.is_quantifier(t):
            stack.append(t.body())
            continue
        if z3.is_app(t):
            d = t.decl()
            if d.kind() == z3.Z3_OP_UNINTERPRETED and t.num_args() > 0 and d.name() != "kind":
                return True
            stack.extend(t.children())
    return False


def clauses(x):
    if x is None:
        return []
    if isinstance(x, dict):
        return list(x.items())
    if isinstance(x, (list, tuple)):
        return [(f"c{i}", y) for i, y in enumerate(x)]
    return [("clause", x)]


def spec_arg(enc, ty, v):
    if callable(ty):
        return None
    if ty in ("Node",) or ty.startswith("list") or ty.startswith("dict"):
        return z3.IntVal(enc.a(v))
    if ty == "str":
        return z3.StringVal(v)
    if ty == "int":
        return z3.IntVal(v)
    if ty == "bool":
        return z3.BoolVal(v)
    return enc.val(v)


def check_call(con, f, args, roots, report, label, timeout=20000):
    """args: {param: python value}; roots: objects whose reachable heap is the state"""
    enc = Enc()
    enc.a(Node.store)
    enc.reach(list(roots) + list(args.values()) + [Node.store])
    top0 = enc.nxt
    h0 = enc.heap(top0)
    pre_facts = enc.facts()
    sa = {p: (spec_arg(enc, con.params[p], v) if isinstance(con.params.get(p), str) else (None if callable(con.params.get(p)) else v)) for p, v in args.items()}
    for p, ty in getattr(con, "cross_params", {}).items():      # parameters the Task types per run (e.g. errs)
        if p in args:
            sa[p] = None if args[p] is None else spec_arg(enc, ty, args[p])
    s0 = SV(h0)
    req = clauses(con.requires(s0, **sa)) if con.requires else []
    # requires must hold on the generated state, otherwise the case says nothing
    for nm, fml in req:
        if not has_ghost(fml):
            sol = z3.Solver()
            sol.set("timeout", timeout)
            sol.add(*pre_facts)
            sol.add(z3.Not(fml))
            if sol.check() != z3.unsat:
                report["skipped"] += 1
                return
    # ... including its ghost part: if requires and the unfolding axioms cannot be met by any ghost interpretation, the state is outside the contract
    ax0 = clauses(con.axioms(s0, **sa)) if con.axioms else []
    sol = z3.Solver()
    sol.set("timeout", timeout)
    sol.add(*pre_facts)
    sol.add(*[x for _, x in req])
    sol.add(*[x for _, x in ax0])
    if sol.check() == z3.unsat:
        report["skipped"] += 1
        return
    ghosts0 = true_ghosts(enc, s0)
    keep = list(enc.objs)
    exc = None
    result = None
    try:
        result = f(*args.values()) if not isinstance(args, dict) else f(**args)
    except Exception as ex:  # noqa
        exc = ex
    enc.reach(list(roots) + list(args.values()) + [Node.store] + ([result] if isinstance(result, (Node, list, dict)) else []))
    h1 = enc.heap(enc.nxt)
    facts = enc.facts()
    s1 = SV(h1)
    ax = clauses(con.axioms(s0, **sa)) if con.axioms else []
    base = facts + [x for _, x in req] + [x for _, x in ax] + ghosts0 + true_ghosts(enc, s1)
    todo = []
    post = None
    if exc is not None:
        hit = [(cls, cond, post) for (cls, cond, post) in con.raises if isinstance(exc, cls)]
        if not hit:
            if not getattr(con, "ignore_exceptions", False):
                report["bad"].append((label, "unexpected-exception", f"{type(exc).__name__}: {exc}"))
            return
        cls, cond, post = hit[0]
        if cond is not None:
            todo.append((f"raises:{cls.__name__}/cond", cond(s0, **sa)))
        if post is not None:
            todo += [(f"raises:{cls.__name__}/{nm}", x) for nm, x in clauses(post(s0, s1, **sa))]
    else:
        for (cls, cond, post) in con.raises:
            if cond is not None:
                todo.append((f"no-raise:{cls.__name__}", z3.Not(cond(s0, **sa))))
        if con.ensures:
            try:
                rv = enc.val(result)
            except TypeError:
                rv = None
            if rv is not None or con.result_ty in (None, "none"):
                todo += clauses(con.ensures(s0, s1, **sa, result=rv if rv is not None else Val.none))
    # frames: every object that existed before the call and lies outside the modifies predicate of an array is unchanged in it
    # (on a raise without an exceptional postcondition: everything is unchanged)
    from pyvc.task import mod_of
    whole = exc is not None and post is None
    for arr in sorted(h1.cur):
        mf = mod_of(con, arr)
        inst = []
        for r in range(1, top0):
            same = h1.cur[arr][r] == h0.cur[arr][r]
            if whole or arr not in con.writes or mf is None:
                inst.append(same)
            else:
                inst.append(z3.Or(mf(s0, z3.IntVal(r), **sa), same))
        if inst:
            todo.append((f"frame:{arr}", z3.And(*inst)))
    for nm, fml in todo:
        report["clauses"] += 1
        sol = z3.Solver()
        sol.set("timeout", timeout)
        if has_ghost(fml):
            sol.add(*base)
            sol.add(fml)
            r = sol.check()
            if r == z3.unsat:
                report["bad"].append((label, nm, "contract clause contradicts the real execution (with ghosts)"))
            elif r == z3.unknown:
                report["unknown"] += 1
            else:
                report["sat"] += 1
        else:
            sol.add(*facts)
            sol.add(z3.Not(fml))
            r = sol.check()
            if r == z3.sat:
                report["bad"].append((label, nm, "contract clause is false on the real execution"))
            elif r == z3.unknown:
                report["unknown"] += 1
            else:
                report["exact"] += 1
    del keep


# ------------------------------------------------------------------------------------------------ generators
def random_forest(rnd, n):
    """n nodes, random parents (a forest), names from a small alphabet, some shared namespace maps, attributes"""
    Node.store.clear()
    nodes = []
    for i in range(n):
        x = Node(rnd.choice("abc"), content=rnd.choice([None, "t", "u"]))
        if rnd.random() < 0.4:
            x.add_attribute(rnd.choice(["id", "k"]), rnd.choice(["1", "2"]))
        if rnd.random() < 0.3:
            x.add_extras("e", "v")
        if nodes and rnd.random() < 0.75:
            p = rnd.choice(nodes)
            p.add_child(x, rnd.choice([None, 0, 1]))
        nodes.append(x)
    for x in nodes:
        if rnd.random() < 0.25:
            x.add_namespace(rnd.choice("pq"), rnd.choice(["u1", "u2"]))
    return nodes


def cases(rnd, per):
    from contracts import node_ops, c09_queries as Q9, c12_copy, c18_equal, c13_ns, c14_registry
    from metapype.model.node import Shift

    def world():
        w = make_world()
        return w

    out = []
    w = world(); c13_ns.install(w)
    con_add = node_ops.install_add_child(w)
    con_rm = node_ops.install_remove_child(w)
    con_rmall = node_ops.install_remove_children(w)
    con_idx = node_ops.install_child_index(w)
    con_shift = node_ops.install_shift(w)
    con_repl = node_ops.install_replace_child(w)
    con_del = node_ops.install_delete(w)
    con_fc = node_ops.install_find_child(w)
    con_fd = node_ops.install_find_descendant(w)
    w2 = world()
    con_fac = Q9.install_find_all_children(w2)
    con_anc = Q9.install_get_ancestry(w2)
    con_fad = Q9.install_find_all_descendants(w2)
    w3 = world(); Q9.install_find_child_fn(w3)
    con_p1 = Q9.install_find_single_node_by_path(w3)
    w4 = world()
    con_copy = c12_copy.install(w4)
    w5 = world()
    con_eq = c18_equal.install(w5)
    from contracts import c16_refs, c06_json, c07_xml
    from metapype.eml import references
    from metapype.model import metapype_io, mp_io
    w6 = world(); cons_ns = c13_ns.install(w6)
    w7 = world(); con_reg = c16_refs.install(w7, False)
    w8 = world(); con_ser = c06_json.install_serializer(w8, c06_json.IO + "_serialize", c06_json.SLOTS8)
    w9 = world(); con_obj = c06_json.install_serializer(w9, c06_json.MP + "objectify", c06_json.SLOTS4)
    w10 = world(); con_nsp = c07_xml.install_nsp_unique(w10)
    w11 = world(); con_fx = c07_xml.install_format_extras(w11)
    # rule-specialised contracts (the Rule instance is the real one; the contract's spec side reads rules.json on its own)
    from contracts.rules_common import rule_world, load_rules
    from contracts import c03_attrs, c17_insert
    import metapype.eml.rule as rule_mod
    rules = load_rules()
    rule_cons = {}
    for rn in ("accessRule", "individualNameRule", "datasetRule", "descriptorRule", "anyNameRule"):
        if rn not in rules:
            continue
        wr = rule_world()
        ca, _, _ = c03_attrs.install(wr, rn, rules[rn][0])
        ca.cross_params = {"errs": "list:val"}
        wr2 = rule_world()
        children = rules[rn][1]
        try:
            ci, ia, names_, _ = c17_insert.install(wr2, rn, children, False)
        except Exception:  # noqa
            ci = ia = None
            names_ = []
        rule_cons[rn] = (ca, ci, ia, names_, rules[rn][0])
    for k in range(per):
        for rn, (ca, ci, ia, names_, A) in rule_cons.items():
            Node.store.clear()
            R = rule_mod.Rule(rn)
            n = Node("x")
            for a in rnd.sample(sorted(A) + ["~foreign~"], rnd.randint(0, min(3, len(A) + 1))):
                vals = A.get(a, [False])[1:]
                n.add_attribute(a, rnd.choice(list(vals) + ["~unlisted~"]) if vals else "v")
            errs = rnd.choice([None, [], [("earlier",)]])
            yield (f"_validate_attributes[{rn}]", ca, rule_mod.Rule._validate_attributes, {"self": R, "node": n, "errs": errs}, [n] + ([errs] if errs is not None else []))
            if ci is not None and names_:
                Node.store.clear()
                R = rule_mod.Rule(rn)
                par = Node("p")
                seq = sorted(rnd.choices(names_, k=rnd.randint(0, 4)), key=lambda x: names_.index(x)) if rnd.random() < 0.7 else rnd.choices(names_, k=rnd.randint(0, 4))
                for nm in seq:
                    c = Node(nm); par.children.append(c); c.parent = par
                newc = Node(rnd.choice(names_ + ["~other~"]))
                yield (f"child_insert_index[{rn}]", ci, rule_mod.Rule.child_insert_index, {"self": R, "parent": par, "new_child": newc}, [par, newc])
                yield (f"is_allowed_child[{rn}]", ia, rule_mod.Rule.is_allowed_child, {"self": R, "child_name": rnd.choice(names_ + ["~other~"])}, [par])
        nodes = random_forest(rnd, rnd.randint(1, 6)); a = rnd.choice(nodes)
        yield ("add_namespace", cons_ns["add"], Node.add_namespace, {"self": a, "prefix": rnd.choice("pq"), "namespace": rnd.choice(["u1", "u3"]), "nsmap_id": None}, nodes)
        nodes = random_forest(rnd, rnd.randint(1, 6)); a = rnd.choice(nodes)
        yield ("remove_namespace", cons_ns["remove"], Node.remove_namespace, {"self": a, "prefix": rnd.choice("pq"), "nsmap_id": None}, nodes)
        nodes = random_forest(rnd, rnd.randint(2, 6)); a, b = rnd.choice(nodes), rnd.choice(nodes)
        fresh = Node(rnd.choice("abc"))
        yield ("replace_child", con_repl, Node.replace_child, {"self": a, "old_child": b, "new_child": fresh, "delete_old": rnd.choice([True, False])}, nodes + [fresh])
        nodes = random_forest(rnd, rnd.randint(1, 6)); a = rnd.choice(nodes)
        yield ("_register_ids", con_reg, references._register_ids, {"node": a}, nodes)
        yield ("_serialize", con_ser, metapype_io._serialize, {"node": a}, nodes)
        yield ("objectify", con_obj, mp_io.objectify, {"node": a}, nodes)
        d1 = {p: rnd.choice(["u1", "u2"]) for p in rnd.sample("pqr", rnd.randint(0, 3))}
        d2 = {p: rnd.choice(["u1", "u2"]) for p in rnd.sample("pqr", rnd.randint(0, 3))}
        yield ("_nsp_unique", con_nsp, metapype_io._nsp_unique, {"child_nsmap": d1, "parent_nsmap": d2}, [d1, d2])
        nm = rnd.choice(["{u1}x", "{u2}y", "plain", "{u9}z"])
        yield ("_format_extras", con_fx, metapype_io._format_extras, {"name": nm, "nsmap": d1}, [d1])
        nodes = random_forest(rnd, rnd.randint(1, 6))
        a, b = rnd.choice(nodes), rnd.choice(nodes)
        fresh = Node(rnd.choice("abc"))
        yield ("add_child", con_add, Node.add_child, {"self": a, "child": fresh, "index": rnd.choice([None, 0, 1, 5, -1])}, nodes + [fresh])
        nodes = random_forest(rnd, rnd.randint(1, 6)); a, b = rnd.choice(nodes), rnd.choice(nodes)
        yield ("remove_child", con_rm, Node.remove_child, {"self": a, "child": b}, nodes)
        nodes = random_forest(rnd, rnd.randint(1, 6)); a = rnd.choice(nodes)
        yield ("remove_children", con_rmall, Node.remove_children, {"self": a}, nodes)
        nodes = random_forest(rnd, rnd.randint(1, 6)); a, b = rnd.choice(nodes), rnd.choice(nodes)
        yield ("child_index", con_idx, Node.child_index, {"self": a, "child": b}, nodes)
        nodes = random_forest(rnd, rnd.randint(2, 6)); a, b = rnd.choice(nodes), rnd.choice(nodes)
        yield ("shift", con_shift, Node.shift, {"self": a, "child": b, "direction": rnd.choice([Shift.LEFT, Shift.RIGHT]), "sib": rnd.choice([True, False])}, nodes)
        nodes = random_forest(rnd, rnd.randint(1, 6)); a = rnd.choice(nodes)
        yield ("find_child", con_fc, Node.find_child, {"self": a, "child_name": rnd.choice("abc")}, nodes)
        yield ("find_descendant", con_fd, Node.find_descendant, {"self": a, "descendant_name": rnd.choice("abc")}, nodes)
        yield ("find_all_children", con_fac, Node.find_all_children, {"self": a, "child_name": rnd.choice("abc")}, nodes)
        yield ("get_ancestry", con_anc, Node.get_ancestry, {"self": a}, nodes)
        out_list = [rnd.choice(nodes)] if rnd.random() < 0.5 else []
        yield ("find_all_descendants", con_fad, Node.find_all_descendants, {"self": a, "child_name": rnd.choice("abc"), "descendants": out_list}, nodes + [out_list])
        path = [rnd.choice("abc") for _ in range(rnd.randint(0, 3))]
        yield ("find_single_node_by_path", con_p1, Node.find_single_node_by_path, {"self": a, "path": path}, nodes + [path])
        nodes = random_forest(rnd, rnd.randint(1, 5)); a = rnd.choice(nodes)
        yield ("copy", con_copy, Node.copy, {"self": a}, nodes)
        nodes = random_forest(rnd, rnd.randint(2, 6)); a, b = rnd.choice(nodes), rnd.choice(nodes)
        yield ("is_equal", con_eq, Node.is_equal, {"node1": a, "node2": b}, nodes)
        nodes = random_forest(rnd, rnd.randint(2, 6)); a = rnd.choice(nodes)
        yield ("delete_node_instance", con_del, Node.delete_node_instance.__func__ if hasattr(Node.delete_node_instance, "__func__") else Node.delete_node_instance,
               {"cls": Node, "id": a.id, "children": rnd.choice([True, False])}, nodes)


def main():
    import logging
    logging.disable(logging.CRITICAL)
    per = int(sys.argv[1]) if len(sys.argv) > 1 else 25
    rnd = random.Random(int(os.environ.get("VERIF_SEED", "1")))
    total = {}
    t0 = time.time()
    for (name, con, f, args, roots) in cases(rnd, per):
        rep = total.setdefault(name, {"clauses": 0, "exact": 0, "sat": 0, "unknown": 0, "skipped": 0, "bad": []})
        try:
            check_call(con, f, args, roots, rep, name)
        except Exception as ex:  # noqa
            rep.setdefault("errors", []).append(f"{type(ex).__name__}: {ex}")
    bad = 0
    for name, rep in total.items():
        print(f"{name:28s} clauses={rep['clauses']:4d} evaluated-true={rep['exact']:4d} consistent(ghost)={rep['sat']:4d} unknown={rep['unknown']:3d} "
              f"precondition-not-met={rep['skipped']:3d} errors={len(rep.get('errors', []))} CONTRADICTIONS={len(rep['bad'])}")
        for b in rep["bad"][:5]:
            print("    ", b)
        for e in rep.get("errors", [])[:2]:
            print("     error:", e)
        bad += len(rep["bad"])
    print(f"wall={time.time() - t0:.0f}s contradictions={bad}")
    return 1 if bad else 0


if __name__ == "__main__":
    sys.exit(main())
