#!/usr/bin/env python3
"""Seeded-mutant self-test: every property-breaking patch under selftest/mutants/<prop>_<name>.py must make the matching
check report a VIOLATION.  Each mutant is applied to a scratch copy of /repo (outside /repo and /verif) that is deleted
afterwards.  A mutant file defines: PROP, FILE (relative to the repo), OLD, NEW (exact text replacement), WHY."""
import importlib.util, os, shutil, subprocess, sys, tempfile, json
from concurrent.futures import ThreadPoolExecutor
ROOT = os.path.dirname(os.path.dirname(os.path.abspath(__file__)))


def load(path):
    spec = importlib.util.spec_from_file_location("m", path)
    m = importlib.util.module_from_spec(spec)
    spec.loader.exec_module(m)
    return m


BENIGN = False


def run_one(path, tier="quick"):
    m = load(path)
    tmp = tempfile.mkdtemp(prefix="mut_")
    try:
        repo = os.path.join(tmp, "repo")
        shutil.copytree("/repo", repo, ignore=shutil.ignore_patterns(".git", "__pycache__", "*.pyc", ".pytest_cache"))
        for (f, fn, pat, repl) in getattr(m, "IN_FUNCTION", []):
            # regex substitution restricted to the text of one function (from its def line to the next def/class at the same or lower indentation)
            import re
            fp = os.path.join(repo, f)
            lines = open(fp).read().split("\n")
            starts = [i for i, l in enumerate(lines) if re.match(r"\s*def " + re.escape(fn) + r"\(", l)]
            if len(starts) != 1:
                return (os.path.basename(path), m.PROP, "STALE", f"def {fn} occurs {len(starts)} times in {f}")
            a = starts[0]
            ind = len(lines[a]) - len(lines[a].lstrip())
            b = a + 1
            while b < len(lines) and not (lines[b].strip() and len(lines[b]) - len(lines[b].lstrip()) <= ind and not lines[b].lstrip().startswith(("#", ")"))):
                b += 1
            body = "\n".join(lines[a:b])
            new_body, k = re.subn(pat, repl, body)
            if k == 0:
                return (os.path.basename(path), m.PROP, "STALE", f"pattern {pat} not found in {fn}")
            open(fp, "w").write("\n".join(lines[:a] + [new_body] + lines[b:]))
        edits = getattr(m, "EDITS", None) or ([(m.FILE, m.OLD, m.NEW)] if hasattr(m, "OLD") else [])
        for (f, old, new) in edits:
            p = os.path.join(repo, f)
            s = open(p).read()
            if s.count(old) != 1:
                return (os.path.basename(path), m.PROP, "STALE", f"OLD text occurs {s.count(old)} times in {f}")
            open(p, "w").write(s.replace(old, new))
        env = dict(os.environ, VERIF_REPO=repo, VERIF_EVID=os.path.join(tmp, "ev"), VERIF_REPLAYS=os.path.join(tmp, "rp"))
        props = m.PROP if isinstance(m.PROP, (list, tuple)) else [m.PROP]
        outs = []
        ok = True
        for pr in props:
            r = subprocess.run([os.path.join(ROOT, "bin/check"), pr, tier], env=env, capture_output=True, text=True, timeout=3600)
            viol = [l for l in r.stdout.splitlines() if l.startswith("VIOLATION")]
            summ = [l for l in r.stdout.splitlines() if l.startswith("[" + pr + "]")]
            import re
            mm = re.search(r"refuted=(\d+) undecided=(\d+) bounded_evals=\d+ bounded_failures=(\d+)", summ[0]) if summ else None
            proof = f"proof: refuted={mm.group(1)} undecided={mm.group(2)}; bounded_failures={mm.group(3)}" if mm else ""
            outs.append(f"{pr}: exit={r.returncode} {proof} {viol[0][:60] if viol else r.stdout.strip().splitlines()[-1] if r.stdout.strip() else r.stderr[-300:]}")
            if BENIGN:
                if r.returncode != 0 or viol:
                    ok = False
            elif not (r.returncode == 1 and viol):
                ok = False
        if BENIGN:
            return (os.path.basename(path), ",".join(props), "QUIET" if ok else "FALSE-ALARM", " | ".join(outs))
        return (os.path.basename(path), ",".join(props), "CAUGHT" if ok else "MISSED", " | ".join(outs))
    finally:
        shutil.rmtree(tmp, ignore_errors=True)


def main():
    global BENIGN
    only = sys.argv[1:]
    if only and only[0] == "--benign":
        # behaviour-preserving edits (selftest/benign): every listed check must stay quiet (exit 0, no VIOLATION line)
        BENIGN = True
        only = only[1:]
    d = os.path.join(ROOT, "selftest", "benign" if BENIGN else "mutants")
    files = sorted(os.path.join(d, f) for f in os.listdir(d) if f.endswith(".py") and (not only or any(o in f for o in only)))
    with ThreadPoolExecutor(max_workers=4) as ex:
        res = list(ex.map(run_one, files))
    bad = 0
    for r in res:
        print(*r)
        if r[2] not in ("CAUGHT", "QUIET"):
            bad += 1
    print(f"{len(res) - bad}/{len(res)} {'benign edits left quiet' if BENIGN else 'mutants caught'}")
    sys.exit(1 if bad else 0)


if __name__ == "__main__":
    main()
