#!/bin/sh
# re-evaluates every sub-agent change kept under seeded/<ID>/ against the check of its property (on scratch copies; see try_seed.sh)
cd "$(dirname "$0")/.." || exit 1
for d in seeded/*/; do
  P=$(basename "$d")
  echo "=== $P"
  timeout 3000 selftest/try_seed.sh "/verif/seeded/$P" "$P"
done
