#!/bin/sh
# re-evaluates every sub-agent change kept under seeded/<ID>/ against the check of its property (on scratch copies; see try_seed.sh)
cd "$(dirname "$0")/.." || exit 1
for d in seeded/*/; do
  D=$(basename "$d")
  P=$(echo "$D" | sed 's/[a-z]*$//')       # seeded/C09b is a second change for C09
  echo "=== $D"
  timeout 3000 selftest/try_seed.sh "/verif/seeded/$D" "$P"
done
