#!/bin/sh
# usage: selftest/try_seed.sh <seed-dir containing patch.diff and demo.py> <PROP> [tier]
# confirms the seeded change (tests pass, demo fails with it and passes without) on a scratch copy of /repo, then runs the check on that copy
D=$1; P=$2; T=${3:-quick}
TMP=$(mktemp -d /tmp/seed_XXXX)
cp -r /repo "$TMP/repo"; rm -rf "$TMP/repo/.git"
( cd /repo && PYTHONPATH=/repo/src /venv/bin/python "$D/demo.py" >/dev/null 2>&1 ); echo "demo on original: exit=$? (want 0)"
( cd "$TMP/repo" && patch -p1 -s < "$D/patch.diff" ) || { echo "PATCH DOES NOT APPLY"; rm -rf "$TMP"; exit 9; }
( cd "$TMP/repo" && PYTHONPATH=$TMP/repo/src /venv/bin/python -m pytest -q -p no:cacheprovider 2>&1 | tail -1 )
( cd "$TMP/repo" && PYTHONPATH=$TMP/repo/src /venv/bin/python "$D/demo.py" >/dev/null 2>&1 ); echo "demo on changed: exit=$? (want 1)"
VERIF_REPO=$TMP/repo VERIF_EVID=$TMP/ev VERIF_REPLAYS=$TMP/rp /verif/bin/check $P $T | grep -E "^VIOLATION|^\[$P\]|^UNDECIDED" | cut -c1-300 | head -5
rm -rf "$TMP"
